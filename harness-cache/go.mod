module verifcache

go 1.25.11

require (
	github.com/lightninglabs/neutrino/cache v1.1.4
	pgregory.net/rapid v1.3.0
)

require (
	github.com/davecgh/go-spew v1.1.1 // indirect
	github.com/lightningnetwork/lnd/fn/v2 v2.0.8 // indirect
	github.com/pmezard/go-difflib v1.0.0 // indirect
	github.com/stretchr/testify v1.8.1 // indirect
	golang.org/x/exp v0.0.0-20231226003508-02704c960a9b // indirect
	golang.org/x/sync v0.7.0 // indirect
	gopkg.in/yaml.v3 v3.0.1 // indirect
)

replace github.com/lightninglabs/neutrino/cache => /repo/cache
