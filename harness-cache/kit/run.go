package kit

import (
	"crypto/sha256"
	"encoding/binary"
	"encoding/json"
	"fmt"
	"os"
	"path/filepath"
	"runtime"
	"runtime/pprof"
	"sort"
	"strconv"
	"strings"
	"sync"
	"testing"
	"time"

	"pgregory.net/rapid"
)

// Verdict is what an oracle says about one executed case.
type Verdict struct {
	// Violation is non-empty iff the property was violated by this case.
	Violation string `json:"violation,omitempty"`
	// Sig is the oracle's signature of the violation (operation / fault
	// point / symptom); it is what known_findings.json is matched against.
	Sig string `json:"sig,omitempty"`
	// Harness is non-empty when the harness itself failed (never counted
	// as a violation; the driver exits 2).
	Harness string `json:"harness,omitempty"`
	// Nontrivial by the property's stated rule.
	Nontrivial bool `json:"nontrivial"`
	// Classes this case belongs to (for the distribution in the evidence).
	Classes []string `json:"classes,omitempty"`
	// Trace is the observed history, kept in samples and replay files.
	Trace []string `json:"trace,omitempty"`
	// Extra counters to add up (e.g. crash images enumerated).
	Counts map[string]int `json:"counts,omitempty"`
}

// verdictMu serialises updates of a Verdict: oracles are often fed from
// several goroutines of a simulation (peer handlers, callers).
var verdictMu sync.Mutex

func (v *Verdict) Class(format string, a ...any) {
	verdictMu.Lock()
	defer verdictMu.Unlock()
	v.Classes = append(v.Classes, fmt.Sprintf(format, a...))
}
func (v *Verdict) Logf(format string, a ...any) {
	verdictMu.Lock()
	defer verdictMu.Unlock()
	if len(v.Trace) < 400 {
		v.Trace = append(v.Trace, fmt.Sprintf(format, a...))
	}
}
func (v *Verdict) Count(k string, n int) {
	verdictMu.Lock()
	defer verdictMu.Unlock()
	if v.Counts == nil {
		v.Counts = map[string]int{}
	}
	v.Counts[k] += n
}
func (v *Verdict) Fail(sig, format string, a ...any) {
	verdictMu.Lock()
	defer verdictMu.Unlock()
	if v.Violation == "" {
		v.Violation = fmt.Sprintf(format, a...)
		v.Sig = sig
	}
}

// Prop describes one generated check.
type Prop[C any] struct {
	ID   string // property id, e.g. C01
	Name string // unit name within the property
	Gen  func(*rapid.T) C
	Run  func(t *testing.T, c C) Verdict
}

type knownFinding struct {
	Property  string `json:"property"`
	Signature string `json:"signature"`
	Status    string `json:"status"` // open | fixed
	What      string `json:"what"`
}

type sample struct {
	Case    any      `json:"case"`
	Classes []string `json:"classes,omitempty"`
	Trace   []string `json:"trace,omitempty"`
}

// Stats is what one test process reports to the driver.
type Stats struct {
	Property    string            `json:"property"`
	Unit        string            `json:"unit"`
	Seed        uint64            `json:"seed"`
	Evaluations int               `json:"evaluations"`
	Nontrivial  []string          `json:"nontrivial_hashes"`
	Classes     map[string]int    `json:"classes"`
	Counts      map[string]int    `json:"counts"`
	Samples     []sample          `json:"samples"`
	KnownHits   map[string]int    `json:"known_hits"`
	KnownWhat   map[string]string `json:"known_what"`
	Violation   string            `json:"violation,omitempty"`
	Replay      string            `json:"replay,omitempty"`
	Harness     string            `json:"harness,omitempty"`
	Completed   bool              `json:"completed"`
	WallS       float64           `json:"wall_s"`
}

type replayFile struct {
	Property  string          `json:"property"`
	Unit      string          `json:"unit"`
	Violation string          `json:"violation"`
	Sig       string          `json:"sig"`
	Case      json.RawMessage `json:"case"`
	Trace     []string        `json:"trace,omitempty"`
	First     json.RawMessage `json:"first_failing_case,omitempty"`
}

func loadKnown(prop string) map[string]knownFinding {
	out := map[string]knownFinding{}
	path := os.Getenv("VERIF_KNOWN")
	if path == "" {
		return out
	}
	b, err := os.ReadFile(path)
	if err != nil {
		return out
	}
	var all []knownFinding
	if json.Unmarshal(b, &all) != nil {
		return out
	}
	for _, k := range all {
		if k.Property == prop && k.Status == "open" {
			out[k.Signature] = k
		}
	}
	return out
}

func caseHash(b []byte) string {
	s := sha256.Sum256(b)
	return strconv.FormatUint(binary.LittleEndian.Uint64(s[:8]), 16)
}

// RunProp executes a Prop under rapid (or replays a saved case when
// VERIF_REPLAY names a replay file for this unit) and writes a Stats file
// into VERIF_STATS_DIR.
func RunProp[C any](t *testing.T, p Prop[C]) {
	if rp := os.Getenv("VERIF_REPLAY"); rp != "" {
		replay(t, p, rp)
		return
	}
	start := time.Now()
	known := loadKnown(p.ID)
	st := &Stats{Property: p.ID, Unit: p.Name, Classes: map[string]int{}, Counts: map[string]int{}, KnownHits: map[string]int{}, KnownWhat: map[string]string{}}
	if s, err := strconv.ParseUint(os.Getenv("VERIF_SHARD_SEED"), 10, 64); err == nil {
		st.Seed = s
	}
	nt := map[string]bool{}
	var mu sync.Mutex
	failed := false
	var firstCase []byte
	var lastCase []byte
	var lastVerdict Verdict

	writeStats := func() {
		dir := os.Getenv("VERIF_STATS_DIR")
		if dir == "" {
			return
		}
		st.Nontrivial = st.Nontrivial[:0]
		for h := range nt {
			st.Nontrivial = append(st.Nontrivial, h)
		}
		sort.Strings(st.Nontrivial)
		st.WallS = time.Since(start).Seconds()
		if failed && lastCase != nil {
			rdir := os.Getenv("VERIF_REPLAY_DIR")
			if rdir == "" {
				rdir = dir
			}
			_ = os.MkdirAll(rdir, 0o755)
			name := fmt.Sprintf("%s-%s-%d-%s.json", p.ID, p.Name, st.Seed, caseHash(append(lastCase, []byte(lastVerdict.Violation)...)))
			rf := replayFile{Property: p.ID, Unit: p.Name, Violation: lastVerdict.Violation, Sig: lastVerdict.Sig, Case: lastCase, Trace: lastVerdict.Trace, First: firstCase}
			b, _ := json.MarshalIndent(rf, "", " ")
			path := filepath.Join(rdir, name)
			if os.WriteFile(path, b, 0o644) == nil {
				st.Replay = path
			}
			st.Violation = lastVerdict.Violation
		}
		b, _ := json.Marshal(st)
		_ = os.WriteFile(filepath.Join(dir, fmt.Sprintf("%s-%s-%d.stats.json", p.ID, p.Name, st.Seed)), b, 0o644)
	}
	defer writeStats()

	// Regression corpus: saved failing cases of defects that were repaired
	// (and of seeded changes) are replayed before anything is generated.
	if rv := regress(t, p, st, known); rv != nil {
		failed = true
		lastCase = rv.caseJSON
		firstCase = rv.caseJSON
		lastVerdict = rv.v
		st.Completed = true
		t.Errorf("property %s violated by regression case %s [%s]: %s", p.ID, rv.file, rv.v.Sig, rv.v.Violation)
		return
	}
	if st.Harness != "" {
		t.Fatalf("HARNESS-ERROR %s", st.Harness)
	}

	rapid.Check(t, func(rt *rapid.T) {
		c := p.Gen(rt)
		cb, err := json.Marshal(c)
		if err != nil {
			st.Harness = "case not serialisable: " + err.Error()
			rt.Fatalf("HARNESS-ERROR %s", st.Harness)
		}
		// Left behind for the driver if the process dies in this case
		// (a panic in a client goroutine cannot be recovered here).
		if dir := os.Getenv("VERIF_STATS_DIR"); dir != "" {
			cur, _ := json.Marshal(replayFile{Property: p.ID, Unit: p.Name, Case: cb})
			_ = os.WriteFile(filepath.Join(dir, "current-case.json"), cur, 0o644)
		}
		stopWatch := watchCase(p.ID, p.Name, cb)
		v := p.Run(t, c)
		stopWatch()
		if v.Harness == "" {
			v.Harness = memGuard()
		}
		mu.Lock()
		defer mu.Unlock()
		if v.Harness != "" {
			st.Harness = v.Harness
			// not a property failure: stop the run without shrinking
			panic(harnessPanic(v.Harness))
		}
		if !failed {
			st.Evaluations++
			for _, cl := range v.Classes {
				st.Classes[cl]++
			}
			for k, n := range v.Counts {
				st.Counts[k] += n
			}
			if v.Nontrivial {
				h := caseHash(cb)
				if !nt[h] {
					nt[h] = true
					if len(st.Samples) < 4 {
						tr := v.Trace
						if len(tr) > 60 {
							tr = append(append([]string{}, tr[:58]...), "...")
						}
						st.Samples = append(st.Samples, sample{Case: json.RawMessage(cb), Classes: v.Classes, Trace: tr})
					}
				}
			}
		}
		if v.Violation != "" {
			if k, ok := known[v.Sig]; ok && v.Sig != "" {
				st.KnownHits[v.Sig]++
				st.KnownWhat[v.Sig] = k.What
				return
			}
			if !failed {
				failed = true
				firstCase = cb
			}
			lastCase = cb
			lastVerdict = v
			rt.Fatalf("property %s violated [%s]: %s", p.ID, v.Sig, v.Violation)
		}
	})
	st.Completed = true
	if len(st.Samples) == 0 {
		// keep at least one sample even if nothing was non-trivial
		st.Samples = append(st.Samples, sample{Case: "no non-trivial case generated"})
	}
}

type harnessPanic string

// watchCase guards one case against never coming back. A goroutine of the
// client that spins without ever blocking keeps a synctest bubble from
// becoming idle, so the harness would wait for ever (and so would a real
// caller). After VERIF_CASE_LIMIT_S real seconds (default 240) two goroutine
// dumps are taken five seconds apart: a goroutine that is running or runnable
// in both and whose innermost non-runtime frame is client code is a busy loop
// of the client; the case and the stack are written to busy-loop.json in the
// statistics directory and the process exits with code 97 (the driver reports
// a violation with that case as replay file). Anything else exits with 98
// (inconclusive).
func watchCase(prop, unit string, caseJSON []byte) (stop func()) {
	limit := 240
	if s := os.Getenv("VERIF_CASE_LIMIT_S"); s != "" {
		if n, err := strconv.Atoi(s); err == nil && n > 0 {
			limit = n
		}
	}
	done := make(chan struct{})
	go func() {
		select {
		case <-done:
			return
		case <-time.After(time.Duration(limit) * time.Second):
		}
		// Three looks, five seconds apart: the same goroutine must be
		// running or runnable at the same client source line each time (a
		// goroutine that is merely busy moves on).
		var looks [3]map[string]busyG
		for k := range looks {
			if k > 0 {
				select {
				case <-done:
					return
				case <-time.After(5 * time.Second):
				}
			}
			looks[k] = busyGoroutines()
		}
		code, stack := 98, ""
		for id, g := range looks[2] {
			a, ok1 := looks[0][id]
			b, ok2 := looks[1][id]
			if ok1 && ok2 && a.at == g.at && b.at == g.at {
				code, stack = 97, g.stack
				break
			}
		}
		if dir := os.Getenv("VERIF_STATS_DIR"); dir != "" {
			rf := replayFile{Property: prop, Unit: unit, Case: caseJSON, Sig: prop + "/client-busy-loop",
				Violation: fmt.Sprintf("the case did not come back within %d s; a client goroutine is spinning", limit),
				Trace:     strings.Split(stack, "\n")}
			if code == 98 {
				rf.Sig, rf.Violation = "", fmt.Sprintf("the case did not come back within %d s and no client goroutine is spinning", limit)
			}
			b, _ := json.MarshalIndent(rf, "", " ")
			_ = os.WriteFile(filepath.Join(dir, "busy-loop.json"), b, 0o644)
		}
		fmt.Printf("CASE-WATCHDOG exit %d\n%s\n", code, stack)
		os.Exit(code)
	}()
	return func() { close(done) }
}

// busyGoroutines returns, by goroutine id, the stacks of the goroutines that
// are running or runnable with client code as innermost non-runtime frame.
type busyG struct {
	at    string // innermost client frame: function and file:line
	stack string
}

func busyGoroutines() map[string]busyG {
	buf := make([]byte, 1<<20)
	for {
		n := runtime.Stack(buf, true)
		if n < len(buf) {
			buf = buf[:n]
			break
		}
		buf = make([]byte, 2*len(buf))
	}
	out := map[string]busyG{}
	for _, blk := range strings.Split(string(buf), "\n\n") {
		lines := strings.Split(blk, "\n")
		if len(lines) < 2 || !strings.HasPrefix(lines[0], "goroutine ") {
			continue
		}
		head := lines[0]
		if !strings.Contains(head, "[running") && !strings.Contains(head, "[runnable") {
			continue
		}
		for li, l := range lines[1:] {
			if strings.HasPrefix(l, "\t") || strings.HasPrefix(l, "created by") {
				continue
			}
			if strings.HasPrefix(l, "runtime.") || strings.HasPrefix(l, "runtime/") || strings.HasPrefix(l, "internal/") || strings.HasPrefix(l, "sync.") || strings.HasPrefix(l, "sync/") || strings.HasPrefix(l, "time.") {
				continue
			}
			if strings.HasPrefix(l, "github.com/lightninglabs/neutrino") {
				id := strings.Fields(head)[1]
				fn := l
				if i := strings.IndexByte(fn, '('); i > 0 {
					fn = fn[:i]
				}
				where := ""
				if li+2 < len(lines) {
					where = strings.TrimSpace(lines[li+2])
					if i := strings.IndexByte(where, ' '); i > 0 {
						where = where[:i]
					}
				}
				out[id] = busyG{at: fn + " " + where, stack: blk}
			}
			break
		}
	}
	return out
}

var memChecks int

// memGuard keeps a test process from exhausting the machine: every 8 cases
// the live heap is measured; above VERIF_MEM_LIMIT_MB (default 5000) the run
// ends as inconclusive (a heap profile is written to VERIF_MEM_PROFILE if set).
func memGuard() string {
	memChecks++
	if memChecks%8 != 0 {
		return ""
	}
	limit := uint64(5000)
	if s := os.Getenv("VERIF_MEM_LIMIT_MB"); s != "" {
		if n, err := strconv.ParseUint(s, 10, 64); err == nil && n > 0 {
			limit = n
		}
	}
	var ms runtime.MemStats
	runtime.ReadMemStats(&ms)
	if ms.HeapInuse>>20 <= limit {
		return ""
	}
	runtime.GC()
	runtime.ReadMemStats(&ms)
	if ms.HeapInuse>>20 <= limit {
		return ""
	}
	if f := os.Getenv("VERIF_MEM_PROFILE"); f != "" {
		if fh, err := os.Create(f); err == nil {
			_ = pprof.WriteHeapProfile(fh)
			fh.Close()
		}
	}
	return fmt.Sprintf("memory guard: %d MB of heap in use after %d cases (limit %d MB)", ms.HeapInuse>>20, memChecks, limit)
}

type regressHit struct {
	file     string
	caseJSON []byte
	v        Verdict
}

// regress replays this shard's share of the saved cases under
// $VERIF_REGRESS_DIR/<unit>/ ($VERIF_REGRESS_N runs each: most of them are
// schedule dependent). Cases that no longer decode are skipped and counted.
func regress[C any](t *testing.T, p Prop[C], st *Stats, known map[string]knownFinding) *regressHit {
	dir := os.Getenv("VERIF_REGRESS_DIR")
	if dir == "" {
		return nil
	}
	files, _ := filepath.Glob(filepath.Join(dir, p.Name, "*.json"))
	sort.Strings(files)
	n := 3
	if s := os.Getenv("VERIF_REGRESS_N"); s != "" {
		if k, err := strconv.Atoi(s); err == nil && k > 0 {
			n = k
		}
	}
	shard, _ := strconv.Atoi(os.Getenv("VERIF_SHARD"))
	nshards, _ := strconv.Atoi(os.Getenv("VERIF_NSHARDS"))
	if nshards <= 0 {
		nshards = 1
	}
	for i, f := range files {
		if i%nshards != shard%nshards {
			continue
		}
		b, err := os.ReadFile(f)
		if err != nil {
			continue
		}
		var rf replayFile
		if json.Unmarshal(b, &rf) != nil || rf.Property != p.ID || rf.Unit != p.Name {
			st.Counts["regress_skipped"]++
			continue
		}
		var c C
		if json.Unmarshal(rf.Case, &c) != nil {
			st.Counts["regress_skipped"]++
			continue
		}
		if dir := os.Getenv("VERIF_STATS_DIR"); dir != "" {
			cur, _ := json.Marshal(replayFile{Property: p.ID, Unit: p.Name, Case: rf.Case})
			_ = os.WriteFile(filepath.Join(dir, "current-case.json"), cur, 0o644)
		}
		for k := 0; k < n; k++ {
			stopWatch := watchCase(p.ID, p.Name, []byte(rf.Case))
			v := p.Run(t, c)
			stopWatch()
			if v.Harness != "" {
				st.Harness = "regression case " + filepath.Base(f) + ": " + v.Harness
				return nil
			}
			st.Evaluations++
			st.Classes["regress"]++
			st.Counts["regress_runs"]++
			if v.Violation != "" {
				if kf, ok := known[v.Sig]; ok && v.Sig != "" {
					st.KnownHits[v.Sig]++
					st.KnownWhat[v.Sig] = kf.What
					continue
				}
				return &regressHit{file: filepath.Base(f), caseJSON: []byte(rf.Case), v: v}
			}
		}
	}
	return nil
}

func replay[C any](t *testing.T, p Prop[C], path string) {
	b, err := os.ReadFile(path)
	if err != nil {
		t.Fatalf("HARNESS-ERROR cannot read replay file: %v", err)
	}
	var rf replayFile
	if err := json.Unmarshal(b, &rf); err != nil {
		t.Fatalf("HARNESS-ERROR bad replay file: %v", err)
	}
	if rf.Property != p.ID || rf.Unit != p.Name {
		t.Skipf("replay file is for %s/%s", rf.Property, rf.Unit)
	}
	var c C
	if err := json.Unmarshal(rf.Case, &c); err != nil {
		t.Fatalf("HARNESS-ERROR bad case in replay file: %v", err)
	}
	n := 1
	if s := os.Getenv("VERIF_REPLAY_N"); s != "" {
		n, _ = strconv.Atoi(s)
	}
	known := loadKnown(p.ID)
	hits := 0
	for i := 0; i < n; i++ {
		v := p.Run(t, c)
		if v.Harness != "" {
			t.Fatalf("HARNESS-ERROR %s", v.Harness)
		}
		if os.Getenv("VERIF_TRACE") != "" {
			fmt.Printf("TRACE run %d\n%s\n", i, strings.Join(v.Trace, "\n"))
		}
		if v.Violation != "" {
			hits++
			if _, ok := known[v.Sig]; ok {
				fmt.Printf("KNOWN-FINDING: property=%s %s\n", p.ID, v.Sig)
				continue
			}
			fmt.Printf("REPLAY-VIOLATION property=%s sig=%s: %s\n%s\n", p.ID, v.Sig, v.Violation, strings.Join(v.Trace, "\n"))
		}
	}
	fmt.Printf("REPLAY-RESULT property=%s runs=%d violating=%d\n", p.ID, n, hits)
	if hits > 0 {
		t.Fail()
	}
}
