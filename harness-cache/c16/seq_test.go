//go:build verif

// C16 (a): sequential state machine against a reference LRU.
//
// Case: a capacity and a list of operations (put with sizes 0..cap+1 and
// unsizeable values, get, LoadAndDelete, Delete, Range/RangeFILO/RangeFIFO
// with early stop, poison/heal of a resident value).
//
// Oracle: after EVERY operation the whole observable state (Len, Size,
// RangeFILO, RangeFIFO, Range) is compared with the reference LRU: total size
// <= capacity, Len/Size equal those of the resident entries, index and list
// hold the same entries, the resident set and the recency order equal the
// model (so the eviction order is the model's), results of Put/Get/
// LoadAndDelete equal the model. Where the property leaves the outcome open
// (an operation that needs the size of a poisoned RESIDENT value) every
// consistent outcome is accepted and adopted, see lenientOK. A failed
// operation must leave the cache usable: all operations run on one goroutine
// that is watched; if it is found waiting for a lock it can never get, the
// next operation "blocks forever".
package c16

import (
	"fmt"
	"reflect"
	"runtime"
	"sync"
	"sync/atomic"
	"testing"
	"unsafe"

	"github.com/lightninglabs/neutrino/cache/lru"
	"pgregory.net/rapid"

	"verifcache/kit"
)

type SeqCase struct {
	Cap int  `json:"cap"`
	Ops []Op `json:"ops"`
}

func TestC16Seq(t *testing.T) {
	kit.RunProp(t, kit.Prop[SeqCase]{ID: "C16", Name: "sequential", Gen: genSeq, Run: runSeq})
}

// genSize: mostly small values (so that several entries are resident and
// the recency order matters), sometimes 0, capacity/2, capacity, capacity+1.
func genSize(capacity int) []int {
	pool := []int{0, capacity / 2, capacity, capacity + 1}
	for _, s := range []int{1, 1, 1, 1, 2, 2, 2, 3} {
		if s <= capacity+1 {
			pool = append(pool, s)
		}
	}
	return pool
}

func genSeq(t *rapid.T) SeqCase {
	capacity := pick(t, "cap", []int{0, 1, 2, 3, 3, 4, 4, 5, 5, 6, 6, 8, 10})
	kinds := []string{
		"put", "put", "put", "put", "put", "put", "put", "put", "put", "put",
		"put", "put", "put", "put", "put", "put", "put", "put", "put", "put",
		"get", "get", "get", "get", "get", "get", "get", "get", "get", "get",
		"lad", "lad", "lad", "del", "del", "del",
		"range", "filo", "fifo",
		"poison", "heal",
	}
	size := genSize(capacity)
	op := rapid.Custom(func(t *rapid.T) Op {
		o := Op{Kind: pick(t, "kind", kinds)}
		switch o.Kind {
		case "put":
			o.Key = pick(t, "key", []int{0, 1, 2, 3, 4})
			o.Size = pick(t, "size", size)
			o.Bad = uni(t, "bad", 40) == 0
		case "get", "lad", "del":
			o.Key = pick(t, "key", []int{0, 1, 2, 3, 4})
		case "range", "filo", "fifo":
			o.Stop = pick(t, "stop", []int{0, 0, 1, 2, 3, 4})
		case "poison", "heal":
			// -1 (twice as likely): the least recently used entry
			o.Key = pick(t, "key", []int{-1, -1, 0, 1, 2, 3, 4})
		}
		return o
	})
	// rapid's slices are short on average (min+5 elements); a slice of
	// short slices gives longer sequences and still shrinks element-wise.
	chunks := rapid.SliceOfN(rapid.SliceOfN(op, 1, 8), 1, 16).Draw(t, "ops")
	c := SeqCase{Cap: capacity}
	for _, ch := range chunks {
		c.Ops = append(c.Ops, ch...)
	}
	return c
}

// seqRun is the state shared between the goroutine that drives the cache and
// the test goroutine that watches it. mu protects v/lastFail/stage; the
// driver never holds mu while it is inside the cache.
type seqRun struct {
	mu       sync.Mutex
	v        kit.Verdict
	stage    string // what the driver is doing right now
	lastFail string // context of the current operation if it failed
	stageOp  string

	cache *realCache // the cache under test (for cleanUpLeakedLock)
	abort bool       // set by the watcher: the driver must stop

	evictions, fails int
	classes          map[string]bool
	finished         bool
}

// finish adds the per-case classes and the non-triviality flag (called by
// the driver, or by the watcher if the driver is stuck). Needs r.mu.
func (r *seqRun) finish() {
	if r.finished {
		return
	}
	r.finished = true
	for cl := range r.classes {
		r.v.Classes = append(r.v.Classes, cl)
	}
	sortStrings(r.v.Classes)
	switch {
	case r.evictions == 0:
		r.v.Class("evictions/0")
	case r.evictions <= 2:
		r.v.Class("evictions/1-2")
	default:
		r.v.Class("evictions/3+")
	}
	if r.fails > 0 {
		r.v.Class("failed-ops/1+")
	}
	// NT: the sequence made the cache evict at least once.
	r.v.Nontrivial = r.evictions > 0
}

func (r *seqRun) fail(ctx, symptom, format string, a ...any) {
	r.v.Fail("C16/seq/"+ctx+"/"+symptom, format, a...)
	r.v.Logf("VIOLATION [%s/%s] %s", ctx, symptom, fmt.Sprintf(format, a...))
}

func runSeq(t *testing.T, c SeqCase) kit.Verdict {
	r := &seqRun{classes: map[string]bool{}}
	done := make(chan struct{})
	var gid atomic.Int64
	go func() {
		gid.Store(goid())
		defer close(done)
		r.drive(c)
	}()
	_, stuck, state := awaitOrStuck(done, &gid)
	r.mu.Lock()
	if stuck {
		r.abort = true
	}
	if stuck && r.v.Violation == "" {
		// The driver goroutine waits for a lock although no other
		// goroutine uses the cache: an earlier operation returned
		// with the lock held.
		if r.lastFail != "" {
			r.fail(r.lastFail, "next-operation-blocks", "after the failed %s the cache is not usable: %s never returns (goroutine waits in %s; nobody else uses the cache)", r.lastFail, r.stage, state)
		} else {
			r.fail(r.stageOp, "blocks", "%s never returns (goroutine waits in %s; nobody else uses the cache)", r.stage, state)
		}
	}
	r.finish()
	v := r.v
	cache := r.cache
	r.mu.Unlock()
	if stuck && state == "sync.RWMutex.RLock" && cache != nil {
		// Clean-up only (the verdict is made): let the stuck driver
		// goroutine go away instead of leaking it, because every
		// leaked goroutine makes later goroutine dumps slower. The
		// driver waits as a READER, so a write lock is held; nobody
		// else uses this cache, so it is the leaked one and unlocking
		// it is legal. The driver then sees r.abort and exits.
		if forceWriteUnlock(cache) {
			awaitOrStuck(done, &gid)
		}
	}
	return v
}

// forceWriteUnlock releases the cache's (leaked) write lock through
// reflection. Returns false if the cache has no sync.RWMutex field "mtx".
func forceWriteUnlock(c *realCache) (ok bool) {
	defer func() {
		if recover() != nil {
			ok = false
		}
	}()
	f := reflect.ValueOf(c).Elem().FieldByName("mtx")
	if !f.IsValid() || f.Type() != reflect.TypeOf(sync.RWMutex{}) || !f.CanAddr() {
		return false
	}
	(*sync.RWMutex)(unsafe.Pointer(f.UnsafeAddr())).Unlock()
	return true
}

func (r *seqRun) drive(c SeqCase) {
	capacity := uint64(c.Cap)
	cache := lru.NewCache[int, *val](capacity)
	m := &model{cap: capacity}
	byID := map[int]*val{}
	nextID := 0
	classes := r.classes

	r.mu.Lock()
	defer r.mu.Unlock()
	r.cache = cache
	// inCache runs fn without r.mu held and reports a panic.
	inCache := func(stage string, fn func()) string {
		r.stage = stage
		r.mu.Unlock()
		p := guarded(fn)
		r.mu.Lock()
		if r.abort {
			runtime.Goexit() // the watcher gave up on this case
		}
		return p
	}
	defer r.finish()

	switch n := len(c.Ops); {
	case n <= 10:
		classes["ops/1-10"] = true
	case n <= 30:
		classes["ops/11-30"] = true
	default:
		classes["ops/31+"] = true
	}
	for i, op := range c.Ops {
		ctx := op.Kind
		r.stageOp = op.Kind
		if op.Kind != "poison" && op.Kind != "heal" {
			r.lastFail = ""
		}
		var o obs
		pre := m.kvs()

		// resolve poison/heal target
		target := func() int {
			if op.Key == -1 {
				return len(m.l) - 1
			}
			return m.find(op.Key)
		}

		switch op.Kind {
		case "put":
			nextID++
			v := &val{id: nextID, size: uint64(op.Size), bad: op.Bad}
			byID[v.id] = v
			p := m.planPut(op.Key, v)
			if p.cause != "" {
				ctx = "put-" + p.cause
			}
			var ev bool
			var err error
			if pn := inCache(fmt.Sprintf("op %d %v", i, op), func() { ev, err = cache.Put(op.Key, v) }); pn != "" {
				r.fail(ctx, "panic", "op %d %v panics: %s", i, op, pn)
				return
			}
			r.v.Logf("op %d %v -> evicted=%v err=%v", i, op, ev, err)
			if err != nil {
				r.fails++
				r.lastFail = ctx
			}
			if pn := inCache(fmt.Sprintf("reading Len/Size/ranges after op %d %v", i, op), func() { o = observe(cache) }); pn != "" {
				r.fail(ctx, "panic", "reading the state after op %d %v panics: %s", i, op, pn)
				return
			}
			r.v.Logf("      state: %v", o)
			if s, msg := consistent(o, capacity); s != "" {
				r.fail(ctx, s, "after op %d %v (err=%v): %s", i, op, err, msg)
				return
			}
			switch p.kind {
			case planMustFail:
				classes["fail/put-"+p.cause] = true
				if err == nil {
					r.fail(ctx, "no-error", "op %d %v must fail (%s) but returned evicted=%v, nil", i, op, p.cause, ev)
					return
				}
				if d := diffState(pre, o.Filo); d != "" {
					r.fail(ctx, d, "failed op %d %v changed the cache: before %v, after %v", i, op, pre, o.Filo)
					return
				}
			case planOK:
				if err != nil {
					r.fail(ctx, "unexpected-error", "op %d %v failed: %v (state before: %v)", i, op, err, pre)
					return
				}
				m.l = p.next
				r.evictions += p.evictions
				if p.resized {
					classes["put/replace-other-size"] = true
				} else if p.replaced {
					classes["put/replace-same-size"] = true
				}
				if op.Size == 0 {
					classes["put/size-0"] = true
				}
				if uint64(op.Size) == capacity && capacity > 0 {
					classes["put/size-eq-cap"] = true
				}
				if p.evictions > 1 {
					classes["put/evicts-several"] = true
				}
				if d := diffState(m.kvs(), o.Filo); d != "" {
					r.fail(ctx, d, "after op %d %v: expected (MRU first) %v, got %v (before: %v)", i, op, m.kvs(), o.Filo, pre)
					return
				}
				if ev != p.evicted {
					r.fail(ctx, "evicted-flag", "op %d %v returned evicted=%v, the reference evicted %d entries", i, op, ev, p.evictions)
					return
				}
			case planLenient:
				classes["lenient/put-"+p.cause] = true
				ok, inserted := lenientOK(m.l, op.Key, p.allowEvict, p.newEnt, o.Filo)
				if !ok || inserted != (err == nil) {
					r.fail(ctx, "state-not-allowed", "op %d %v (err=%v): state %v is not reachable from %v by LRU evictions / dropping k%d / inserting the new value iff the call succeeded", i, op, err, o.Filo, pre, op.Key)
					return
				}
				for _, e := range pre {
					if e.Key != op.Key && !hasKey(o.Filo, e.Key) {
						r.evictions++
					}
				}
				m.l = rebuild(o.Filo, byID)
			}

		case "get":
			p := m.planGet(op.Key)
			var got *val
			var err error
			if pn := inCache(fmt.Sprintf("op %d %v", i, op), func() { got, err = cache.Get(op.Key) }); pn != "" {
				r.fail(ctx, "panic", "op %d %v panics: %s", i, op, pn)
				return
			}
			r.v.Logf("op %d %v -> %v err=%v", i, op, valStr(got), err)
			if err != nil {
				r.lastFail = "get-miss"
			}
			if pn := inCache(fmt.Sprintf("reading Len/Size/ranges after op %d %v", i, op), func() { o = observe(cache) }); pn != "" {
				r.fail(ctx, "panic", "reading the state after op %d %v panics: %s", i, op, pn)
				return
			}
			if s, msg := consistent(o, capacity); s != "" {
				r.fail(ctx, s, "after op %d %v: %s", i, op, msg)
				return
			}
			if p.hit {
				classes["get/hit"] = true
				if p.v.bad {
					classes["get/hit-poisoned"] = true
				}
				if err != nil || got != p.v {
					r.fail(ctx, "wrong-result", "op %d %v returned %v, %v; resident value is v%d (state before: %v)", i, op, valStr(got), err, p.v.id, pre)
					return
				}
			} else {
				classes["get/miss"] = true
				if err == nil {
					r.fail(ctx, "wrong-result", "op %d %v returned %v for a key that is not resident (state before: %v)", i, op, valStr(got), pre)
					return
				}
			}
			m.l = p.next
			if d := diffState(m.kvs(), o.Filo); d != "" {
				r.fail(ctx, d, "after op %d %v: expected (MRU first) %v, got %v", i, op, m.kvs(), o.Filo)
				return
			}

		case "lad", "del":
			p := m.planDel(op.Key)
			if p.cause != "" {
				ctx = op.Kind + "-" + p.cause
			}
			var got *val
			var ok bool
			if pn := inCache(fmt.Sprintf("op %d %v", i, op), func() {
				if op.Kind == "lad" {
					got, ok = cache.LoadAndDelete(op.Key)
				} else {
					cache.Delete(op.Key)
				}
			}); pn != "" {
				r.fail(ctx, "panic", "op %d %v panics: %s", i, op, pn)
				return
			}
			if op.Kind == "lad" {
				r.v.Logf("op %d %v -> %v, %v", i, op, valStr(got), ok)
			} else {
				r.v.Logf("op %d %v", i, op)
			}
			if p.kind == planLenient {
				r.lastFail = ctx
			}
			if pn := inCache(fmt.Sprintf("reading Len/Size/ranges after op %d %v", i, op), func() { o = observe(cache) }); pn != "" {
				r.fail(ctx, "panic", "reading the state after op %d %v panics: %s", i, op, pn)
				return
			}
			if p.kind == planLenient {
				r.v.Logf("      state: %v", o)
			}
			if s, msg := consistent(o, capacity); s != "" {
				r.fail(ctx, s, "after op %d %v: %s", i, op, msg)
				return
			}
			switch p.kind {
			case planOK:
				if p.hit {
					classes[op.Kind+"/hit"] = true
				}
				if op.Kind == "lad" && (ok != p.hit || got != p.v) {
					r.fail(ctx, "wrong-result", "op %d %v returned %v, %v; the reference says hit=%v %v (state before: %v)", i, op, valStr(got), ok, p.hit, valStr(p.v), pre)
					return
				}
				m.l = p.next
				if d := diffState(m.kvs(), o.Filo); d != "" {
					r.fail(ctx, d, "after op %d %v: expected (MRU first) %v, got %v", i, op, m.kvs(), o.Filo)
					return
				}
			case planLenient:
				classes["lenient/"+op.Kind+"-"+p.cause] = true
				r.fails++
				okState, _ := lenientOK(m.l, op.Key, false, nil, o.Filo)
				gone := len(o.Filo) < len(pre)
				if !okState || (op.Kind == "lad" && ok && (!gone || got != p.v)) {
					r.fail(ctx, "state-not-allowed", "op %d %v (returned %v, %v): state %v is neither the state before (%v) nor that state without k%d", i, op, valStr(got), ok, o.Filo, pre, op.Key)
					return
				}
				m.l = rebuild(o.Filo, byID)
			}

		case "range", "filo", "fifo":
			var seen []kv
			var calls int
			visitor := func(k int, v *val) bool {
				calls++
				if calls > 10000 {
					return false
				}
				if v == nil {
					seen = append(seen, kv{k, -1, 0})
				} else {
					seen = append(seen, kv{k, v.id, v.size})
				}
				return op.Stop == 0 || calls < op.Stop
			}
			if pn := inCache(fmt.Sprintf("op %d %v", i, op), func() {
				switch op.Kind {
				case "range":
					cache.Range(visitor)
				case "filo":
					cache.RangeFILO(visitor)
				case "fifo":
					cache.RangeFIFO(visitor)
				}
			}); pn != "" {
				r.fail(ctx, "panic", "op %d %v panics: %s", i, op, pn)
				return
			}
			r.v.Logf("op %d %v -> %v", i, op, seen)
			want := len(pre)
			if op.Stop > 0 && op.Stop < want {
				want = op.Stop
				classes["range/early-stop"] = true
			}
			if calls != want {
				r.fail(ctx, "visit-count", "op %d %v visited %d entries %v, expected %d of %v", i, op, calls, seen, want, pre)
				return
			}
			switch op.Kind {
			case "filo":
				if !eqKVs(seen, pre[:want]) {
					r.fail(ctx, "order", "op %d %v visited %v, expected the first %d of (MRU first) %v", i, op, seen, want, pre)
					return
				}
			case "fifo":
				for j, e := range seen {
					if e != pre[len(pre)-1-j] {
						r.fail(ctx, "order", "op %d %v visited %v, expected the last %d of (MRU first) %v in reverse", i, op, seen, want, pre)
						return
					}
				}
			case "range":
				// no order is promised: distinct resident entries
				dup := map[kv]bool{}
				for _, e := range seen {
					found := false
					for _, w := range pre {
						found = found || w == e
					}
					if !found || dup[e] {
						r.fail(ctx, "content", "op %d %v visited %v, resident are %v", i, op, seen, pre)
						return
					}
					dup[e] = true
				}
			}
			// iteration must not change anything
			if pn := inCache(fmt.Sprintf("reading Len/Size/ranges after op %d %v", i, op), func() { o = observe(cache) }); pn != "" {
				r.fail(ctx, "panic", "reading the state after op %d %v panics: %s", i, op, pn)
				return
			}
			if s, msg := consistent(o, capacity); s != "" {
				r.fail(ctx, s, "after op %d %v: %s", i, op, msg)
				return
			}
			if d := diffState(pre, o.Filo); d != "" {
				r.fail(ctx, d, "op %d %v changed the cache: before %v, after %v", i, op, pre, o.Filo)
				return
			}

		case "poison", "heal":
			if j := target(); j >= 0 {
				m.l[j].v.bad = op.Kind == "poison"
				r.v.Logf("op %d %v: v%d under k%d (position %d of %d, 0=MRU) bad=%v", i, op, m.l[j].v.id, m.l[j].key, j, len(m.l), m.l[j].v.bad)
				if op.Kind == "poison" {
					classes["poison/resident"] = true
					if j == len(m.l)-1 {
						classes["poison/lru-entry"] = true
					}
				}
			} else {
				r.v.Logf("op %d %v: no such resident entry", i, op)
			}
		}
	}
}

func valStr(v *val) string {
	if v == nil {
		return "nil"
	}
	return fmt.Sprintf("v%d/%d", v.id, v.size)
}

func sortStrings(s []string) {
	for i := 1; i < len(s); i++ {
		for j := i; j > 0 && s[j] < s[j-1]; j-- {
			s[j], s[j-1] = s[j-1], s[j]
		}
	}
}

func hasKey(l []kv, k int) bool {
	for _, e := range l {
		if e.Key == k {
			return true
		}
	}
	return false
}
