//go:build verif

// Shared pieces of the C16 checks: the cache value type, the reference LRU,
// the observation of the real cache through its public API, the consistency
// invariants and the "is this goroutine stuck on a lock" detector.
package c16

import (
	"bytes"
	"errors"
	"fmt"
	"runtime"
	"sort"
	"strconv"
	"strings"
	"sync/atomic"
	"time"

	"github.com/lightninglabs/neutrino/cache/lru"
	"pgregory.net/rapid"
)

// ---------------------------------------------------------------- values

var errSize = errors.New("size cannot be computed")

// val is the cache value used by the checks. size is the nominal size (what
// Size() reported when the value was stored); bad makes Size() fail
// ("poison"). id identifies the Put that created the value.
type val struct {
	id   int
	size uint64
	bad  bool
}

func (v *val) Size() (uint64, error) {
	if v.bad {
		return 0, errSize
	}
	return v.size, nil
}

type realCache = lru.Cache[int, *val]

// Op is one generated operation (JSON-serialisable, part of the case).
//
//	put     Put(Key, value of size Size; Bad: its Size() fails)
//	get     Get(Key)
//	lad     LoadAndDelete(Key)
//	del     Delete(Key)
//	range   Range, visitor stops after Stop visits (0 = never)
//	filo    RangeFILO, same
//	fifo    RangeFIFO, same
//	poison  the resident value under Key (Key -1: the least recently used
//	        entry) starts failing in Size()
//	heal    the resident value under Key (-1: LRU entry) stops failing
type Op struct {
	Kind string `json:"kind"`
	Key  int    `json:"key"`
	Size int    `json:"size,omitempty"`
	Bad  bool   `json:"bad,omitempty"`
	Stop int    `json:"stop,omitempty"`
}

func (o Op) String() string {
	switch o.Kind {
	case "put":
		if o.Bad {
			return fmt.Sprintf("put(k%d,size=%d,BAD)", o.Key, o.Size)
		}
		return fmt.Sprintf("put(k%d,size=%d)", o.Key, o.Size)
	case "range", "filo", "fifo":
		return fmt.Sprintf("%s(stop=%d)", o.Kind, o.Stop)
	}
	if o.Key < 0 {
		return fmt.Sprintf("%s(LRU entry)", o.Kind)
	}
	return fmt.Sprintf("%s(k%d)", o.Kind, o.Key)
}

// ---------------------------------------------------------------- reference LRU

type ent struct {
	key int
	v   *val
}

// model is the reference LRU: a slice, index 0 = most recently used.
type model struct {
	cap uint64
	l   []ent
}

func (m *model) clone() *model {
	return &model{cap: m.cap, l: append([]ent(nil), m.l...)}
}

func (m *model) find(k int) int {
	for i, e := range m.l {
		if e.key == k {
			return i
		}
	}
	return -1
}

func (m *model) size() uint64 {
	var s uint64
	for _, e := range m.l {
		s += e.v.size
	}
	return s
}

func (m *model) kvs() []kv {
	out := make([]kv, len(m.l))
	for i, e := range m.l {
		out[i] = kv{e.key, e.v.id, e.v.size}
	}
	return out
}

const (
	planOK       = iota // must succeed, result and next state are determined
	planMustFail        // must report an error, state unchanged
	planLenient         // an existing value's Size() fails: see lenientOK
)

type plan struct {
	kind       int
	cause      string // for planMustFail / planLenient
	evicted    bool   // put: return value
	evictions  int    // put: number of evicted entries
	replaced   bool   // put: key was resident
	resized    bool   // put: key was resident with another size
	hit        bool   // get / delete: key resident
	v          *val   // get / delete: the value
	next       []ent  // state after the operation (planOK)
	allowEvict bool   // lenient: LRU-end evictions are acceptable
	newEnt     *ent   // lenient: the entry a successful put would insert
}

func without(l []ent, i int) []ent {
	out := make([]ent, 0, len(l))
	out = append(out, l[:i]...)
	return append(out, l[i+1:]...)
}

// planPut: the documented behaviour of Put. A value whose size cannot be
// computed or exceeds the capacity cannot be stored (capacity could not be
// honoured) and nothing else is touched. Replacing removes the old entry
// first, then least-recently-used entries are evicted until the new value
// fits, then the value becomes the most recently used entry.
func (m *model) planPut(k int, v *val) plan {
	if v.bad {
		return plan{kind: planMustFail, cause: "new-size-error"}
	}
	if v.size > m.cap {
		return plan{kind: planMustFail, cause: "too-big"}
	}
	p := plan{kind: planOK}
	l := m.l
	ne := ent{k, v}
	if i := m.find(k); i >= 0 {
		p.replaced = true
		if l[i].v.bad {
			// The size of the value being replaced is unknown. The
			// property does not say whether the replacement has to
			// succeed; the operation may fail (cache stays usable
			// and consistent) or succeed.
			return plan{kind: planLenient, cause: "old-size-error", newEnt: &ne, replaced: true}
		}
		p.resized = l[i].v.size != v.size
		l = without(l, i)
	} else {
		l = append([]ent(nil), l...)
	}
	var used uint64
	for _, e := range l {
		used += e.v.size
	}
	for m.cap-used < v.size {
		last := l[len(l)-1] // cannot be empty: v.size <= cap
		if last.v.bad {
			// The entry to evict has no computable size. Failing is
			// acceptable; entries evicted before reaching it (LRU
			// first) and the replaced key may be gone.
			return plan{kind: planLenient, cause: "evict-size-error", newEnt: &ne, allowEvict: true, replaced: p.replaced}
		}
		used -= last.v.size
		l = l[:len(l)-1]
		p.evictions++
	}
	p.evicted = p.evictions > 0
	p.next = append([]ent{ne}, l...)
	return p
}

func (m *model) planGet(k int) plan {
	i := m.find(k)
	if i < 0 {
		return plan{kind: planOK, next: m.l}
	}
	e := m.l[i]
	return plan{kind: planOK, hit: true, v: e.v, next: append([]ent{e}, without(m.l, i)...)}
}

func (m *model) planDel(k int) plan {
	i := m.find(k)
	if i < 0 {
		return plan{kind: planOK, next: m.l}
	}
	e := m.l[i]
	if e.v.bad {
		// LoadAndDelete/Delete have no error result; for a value whose
		// size cannot be computed the property does not pin whether
		// the entry goes away. Accept "not deleted" and "deleted".
		return plan{kind: planLenient, cause: "size-error", hit: true, v: e.v}
	}
	return plan{kind: planOK, hit: true, v: e.v, next: without(m.l, i)}
}

// ---------------------------------------------------------------- observation

type kv struct {
	Key  int
	ID   int
	Size uint64
}

func (e kv) String() string { return fmt.Sprintf("k%d=v%d/%d", e.Key, e.ID, e.Size) }

// obs is everything the public API tells about the cache's state without
// changing it.
type obs struct {
	Len   int
	Size  uint64
	Filo  []kv // RangeFILO: most recently used first
	Fifo  []kv // RangeFIFO: least recently used first
	Index []kv // Range (index order unspecified), sorted by key
	Loop  bool // an iteration did not terminate within 10000 visits
}

func collect(iter func(func(int, *val) bool), loop *bool) []kv {
	var out []kv
	iter(func(k int, v *val) bool {
		if len(out) >= 10000 {
			*loop = true
			return false
		}
		if v == nil {
			out = append(out, kv{k, -1, 0})
		} else {
			out = append(out, kv{k, v.id, v.size})
		}
		return true
	})
	return out
}

func observe(c *realCache) obs {
	var o obs
	o.Len = c.Len()
	o.Size = c.Size()
	o.Filo = collect(c.RangeFILO, &o.Loop)
	o.Fifo = collect(c.RangeFIFO, &o.Loop)
	o.Index = collect(c.Range, &o.Loop)
	sort.Slice(o.Index, func(i, j int) bool {
		if o.Index[i].Key != o.Index[j].Key {
			return o.Index[i].Key < o.Index[j].Key
		}
		return o.Index[i].ID < o.Index[j].ID
	})
	return o
}

func (o obs) String() string {
	return fmt.Sprintf("Len=%d Size=%d list(MRU first)=%v index=%v", o.Len, o.Size, o.Filo, o.Index)
}

func eqKVs(a, b []kv) bool {
	if len(a) != len(b) {
		return false
	}
	for i := range a {
		if a[i] != b[i] {
			return false
		}
	}
	return true
}

// consistent checks the invariants of the property that hold for every
// quiescent state, independently of the history: the list and the index
// describe the same entries ("one consistent map"), Len and Size are those of
// the resident entries, and the capacity is respected. Sizes are nominal
// sizes (what Size() reported when the value was stored).
func consistent(o obs, capacity uint64) (symptom, msg string) {
	if o.Loop {
		return "iteration-does-not-end", "an iteration visited more than 10000 entries"
	}
	rev := make([]kv, len(o.Fifo))
	for i, e := range o.Fifo {
		rev[len(o.Fifo)-1-i] = e
	}
	if !eqKVs(rev, o.Filo) {
		return "filo-fifo-differ", fmt.Sprintf("RangeFIFO %v is not the reverse of RangeFILO %v", o.Fifo, o.Filo)
	}
	seen := map[int]bool{}
	for _, e := range o.Filo {
		if seen[e.Key] {
			return "duplicate-list-element", fmt.Sprintf("key k%d is resident twice: %v (index %v, Len %d, Size %d)", e.Key, o.Filo, o.Index, o.Len, o.Size)
		}
		seen[e.Key] = true
	}
	byKey := append([]kv(nil), o.Filo...)
	sort.Slice(byKey, func(i, j int) bool { return byKey[i].Key < byKey[j].Key })
	if !eqKVs(byKey, o.Index) {
		return "index-list-mismatch", fmt.Sprintf("the index (Range) holds %v but the recency list (RangeFILO) holds %v", o.Index, o.Filo)
	}
	if o.Len != len(o.Filo) {
		return "len-mismatch", fmt.Sprintf("Len()=%d but %d entries are resident: %v", o.Len, len(o.Filo), o.Filo)
	}
	var sum uint64
	for _, e := range o.Filo {
		sum += e.Size
	}
	if o.Size != sum {
		return "size-mismatch", fmt.Sprintf("Size()=%d but the resident entries %v add up to %d", o.Size, o.Filo, sum)
	}
	if sum > capacity {
		return "over-capacity", fmt.Sprintf("resident entries %v add up to %d > capacity %d", o.Filo, sum, capacity)
	}
	return "", ""
}

// diffState names how the observed list differs from the expected one.
func diffState(want, got []kv) (symptom string) {
	if eqKVs(want, got) {
		return ""
	}
	wk := map[int]int{}
	for _, e := range want {
		wk[e.Key] = e.ID
	}
	gk := map[int]int{}
	for _, e := range got {
		gk[e.Key] = e.ID
	}
	sameKeys := len(wk) == len(gk)
	for k := range wk {
		if _, ok := gk[k]; !ok {
			sameKeys = false
		}
	}
	if !sameKeys {
		return "resident-set-differs"
	}
	for k, id := range wk {
		if gk[k] != id {
			return "stale-value"
		}
	}
	return "lru-order-differs"
}

// lenientOK decides the cases the property leaves open (an operation that
// had to compute the size of a poisoned resident value). got must be
// reachable from prior by: dropping entries from the least-recently-used end
// (only if allowEvict), dropping key k, and - if newEnt is given and was
// inserted - newEnt at the front. Everything else must keep its value and
// its relative order. Returns whether newEnt was inserted.
func lenientOK(prior []ent, k int, allowEvict bool, newEnt *ent, got []kv) (ok, inserted bool) {
	cur := got
	if newEnt != nil && len(cur) > 0 && cur[0].Key == k && cur[0].ID == newEnt.v.id {
		inserted = true
		cur = cur[1:]
	}
	var priorNoK []kv
	priorK := kv{Key: k, ID: -2}
	for _, e := range prior {
		if e.key == k {
			priorK = kv{e.key, e.v.id, e.v.size}
			continue
		}
		priorNoK = append(priorNoK, kv{e.key, e.v.id, e.v.size})
	}
	var curNoK []kv
	for _, e := range cur {
		if e.Key == k {
			if inserted || e != priorK {
				return false, inserted
			}
			continue
		}
		curNoK = append(curNoK, e)
	}
	if len(curNoK) > len(priorNoK) || (!allowEvict && len(curNoK) != len(priorNoK)) {
		return false, inserted
	}
	if !eqKVs(curNoK, priorNoK[:len(curNoK)]) {
		return false, inserted
	}
	// relative position of a surviving k: cur must be a subsequence of prior
	j := 0
	for _, e := range prior {
		if j < len(cur) && cur[j].Key == e.key && cur[j].ID == e.v.id {
			j++
		}
	}
	return j == len(cur), inserted
}

// rebuild turns an observed list into model entries (values looked up by id).
func rebuild(got []kv, byID map[int]*val) []ent {
	out := make([]ent, len(got))
	for i, e := range got {
		out[i] = ent{e.Key, byID[e.ID]}
	}
	return out
}

// ---------------------------------------------------------------- stuck-goroutine detection
//
// A cache operation never waits for anything but the cache's own locks. The
// checks run exactly one goroutine inside the cache at any time (the others
// are parked at yield points, which are all outside the locked sections), so
// a goroutine that is observed waiting for a lock can never be woken up:
// nobody holds that lock legitimately. The runtime's goroutine dump tells the
// wait reason. No wall-clock timeout decides anything: the timers below only
// pace the polling; a verdict needs the goroutine to be seen in a lock-wait
// state twice.

func goid() int64 {
	var buf [64]byte
	n := runtime.Stack(buf[:], false)
	// "goroutine 123 [running]:..."
	s := strings.TrimPrefix(string(buf[:n]), "goroutine ")
	if i := strings.IndexByte(s, ' '); i > 0 {
		id, _ := strconv.ParseInt(s[:i], 10, 64)
		return id
	}
	return 0
}

var dumpBuf = make([]byte, 1<<16) // only used by the test goroutine

func goroutineState(id int64) string {
	var buf []byte
	for {
		n := runtime.Stack(dumpBuf, true)
		if n < len(dumpBuf) {
			buf = dumpBuf[:n]
			break
		}
		dumpBuf = make([]byte, 2*len(dumpBuf))
	}
	pat := []byte(fmt.Sprintf("goroutine %d [", id))
	i := 0
	for {
		j := bytes.Index(buf[i:], pat)
		if j < 0 {
			return ""
		}
		j += i
		if j == 0 || buf[j-1] == '\n' {
			rest := buf[j+len(pat):]
			if e := bytes.IndexByte(rest, ']'); e >= 0 {
				st := string(rest[:e])
				if c := strings.IndexByte(st, ','); c >= 0 {
					st = st[:c]
				}
				return st
			}
			return ""
		}
		i = j + len(pat)
	}
}

func lockWait(state string) bool {
	switch state {
	case "sync.Mutex.Lock", "sync.RWMutex.Lock", "sync.RWMutex.RLock", "semacquire":
		return true
	}
	return false
}

// awaitOrStuck waits for a value on ch. If the goroutine that should produce
// it is found waiting for a lock it returns stuck=true and the wait reason.
func awaitOrStuck[T any](ch <-chan T, gid *atomic.Int64) (x T, stuck bool, state string) {
	select {
	case x = <-ch:
		return x, false, ""
	default:
	}
	d := 250 * time.Microsecond
	t := time.NewTimer(d)
	defer t.Stop()
	// Stuck = seen waiting for a lock at every look for a full second (a
	// goroutine that was just handed a lock may take a while to be
	// scheduled on a busy machine; a leaked lock stays leaked).
	var since time.Time
	for {
		select {
		case x = <-ch:
			return x, false, ""
		case <-t.C:
			if id := gid.Load(); id != 0 {
				st := goroutineState(id)
				if lockWait(st) {
					if since.IsZero() {
						since = time.Now()
					} else if time.Since(since) >= time.Second {
						return x, true, st
					}
				} else {
					since = time.Time{}
				}
			}
			if d < 200*time.Millisecond {
				d *= 2
			}
			t.Reset(d)
		}
	}
}

// guarded runs fn(x) and converts a panic into a message.
func guarded(fn func()) (panicked string) {
	defer func() {
		if r := recover(); r != nil {
			panicked = fmt.Sprint(r)
		}
	}()
	fn()
	return ""
}

// ---------------------------------------------------------------- uniform draws

// uni draws a (nearly) uniform integer in [0,n): rapid's IntRange and
// SampledFrom deliberately favour small values / early entries, which skews
// weighted choices. Shrinks towards 0. (Same as kit.Uni in the main harness.)
func uni(t *rapid.T, label string, n int) int {
	if n <= 1 {
		return 0
	}
	v := 0
	for i := 0; i < 12; i++ {
		v <<= 1
		if rapid.Bool().Draw(t, label) {
			v |= 1
		}
	}
	return v % n
}

// pick chooses a list element uniformly.
func pick[T any](t *rapid.T, label string, list []T) T {
	return list[uni(t, label, len(list))]
}
