// Package c16 holds the checks for property C16 (LRU cache). All code lives
// in _test.go files built with the "verif" tag.
package c16
