//go:build verif

package c16

// Unit "stress" (C16, and C18 under the race detector): free-running
// goroutines on one cache. The interleavings unit parks the operations at the
// yield points, which orders every access through the harness's channels; the
// race detector therefore sees nothing there. Here 2-6 goroutines run
// generated operation lists at full speed (the yield hook only yields the
// processor); afterwards the cache must be one consistent map within its
// capacity, every value returned by a lookup must be one that was stored
// under that key, and nobody may hang or panic.

import (
	"fmt"
	"runtime"
	"sync"
	"testing"
	"time"

	"github.com/lightninglabs/neutrino/cache/lru"
	"pgregory.net/rapid"

	"verifcache/kit"
)

type StressCase struct {
	Cap     int    `json:"cap"`
	Workers [][]Op `json:"workers"`
	Yields  int    `json:"yields"`
}

func genStress(t *rapid.T) StressCase {
	c := StressCase{Cap: 2 + uni(t, "cap", 9), Yields: pick(t, "yields", []int{0, 0, 1, 3})}
	nw := 2 + uni(t, "nw", 5)
	opGen := rapid.Custom(func(t *rapid.T) Op {
		k := pick(t, "kind", []string{"put", "put", "put", "get", "get", "lad", "del", "range", "filo"})
		o := Op{Kind: k, Key: uni(t, "key", 5)}
		if k == "put" {
			o.Size = uni(t, "size", c.Cap+2)
		}
		return o
	})
	for w := 0; w < nw; w++ {
		c.Workers = append(c.Workers, rapid.SliceOfN(opGen, 5, 40).Draw(t, "ops"))
	}
	return c
}

func runStress(t *testing.T, c StressCase) (v kit.Verdict) {
	cache := lru.NewCache[int, *val](uint64(c.Cap))
	prev := lru.VerifYield
	lru.VerifYield = func(string) {
		for i := 0; i < c.Yields; i++ {
			runtime.Gosched()
		}
	}
	defer func() { lru.VerifYield = prev }()

	type got struct {
		worker, op int
		key, id    int
	}
	var mu sync.Mutex
	stored := map[int]map[int]bool{} // key -> ids ever stored under it
	var lookups []got
	var panics []string
	var wg sync.WaitGroup
	start := make(chan struct{})
	for w, ops := range c.Workers {
		wg.Add(1)
		go func(w int, ops []Op) {
			defer wg.Done()
			<-start
			for i, op := range ops {
				id := 1000*(w+1) + i
				if op.Kind == "put" {
					mu.Lock()
					if stored[op.Key] == nil {
						stored[op.Key] = map[int]bool{}
					}
					stored[op.Key][id] = true
					mu.Unlock()
				}
				var r opResult
				switch op.Kind {
				case "range", "filo":
					r.Panic = guarded(func() {
						n := 0
						f := func(k int, x *val) bool { n++; return n < 10000 }
						if op.Kind == "range" {
							cache.Range(f)
						} else {
							cache.RangeFILO(f)
						}
					})
				default:
					r = execReal(cache, op, id)
				}
				if r.Panic != "" {
					mu.Lock()
					panics = append(panics, fmt.Sprintf("worker %d op %d %v: %s", w, i, op, r.Panic))
					mu.Unlock()
					return
				}
				if r.Found && (op.Kind == "get" || op.Kind == "lad") {
					mu.Lock()
					lookups = append(lookups, got{w, i, op.Key, r.ID})
					mu.Unlock()
				}
			}
		}(w, ops)
	}
	close(start)
	done := make(chan struct{})
	go func() { wg.Wait(); close(done) }()
	select {
	case <-done:
	case <-time.After(20 * time.Second):
		v.Fail("C16/stress/blocks", "concurrent operations did not finish within 20 s (capacity %d, %d workers)", c.Cap, len(c.Workers))
		return
	}
	if len(panics) > 0 {
		v.Fail("C16/stress/panic", "%s", panics[0])
		return
	}
	for _, g := range lookups {
		if !stored[g.key][g.id] {
			v.Fail("C16/stress/foreign-value", "worker %d op %d: lookup of k%d returned value v%d, which was never stored under that key", g.worker, g.op, g.key, g.id)
			return
		}
	}
	och := make(chan obs, 1)
	go func() { och <- observe(cache) }()
	select {
	case o := <-och:
		if s, msg := consistent(o, uint64(c.Cap)); s != "" {
			v.Fail("C16/stress/"+s, "after %d concurrent workers: %s", len(c.Workers), msg)
			return
		}
		v.Logf("final: %v", o)
	case <-time.After(10 * time.Second):
		v.Fail("C16/stress/blocks", "reading the final state blocks (a lock was leaked)")
		return
	}
	v.Class("workers:%d", len(c.Workers))
	v.Nontrivial = len(c.Workers) >= 2
	return
}

func TestC16Stress(t *testing.T) {
	kit.RunProp(t, kit.Prop[StressCase]{ID: "C16", Name: "stress", Gen: genStress, Run: runStress})
}
