//go:build verif && !c16nohook

// C16 (b): every interleaving of two or three concurrent operations.
//
// Needs the yield hook of hook.diff in cache/lru (lru.VerifYield, build tag
// "verif"): Put, Get and LoadAndDelete call it between their unlocked index
// access and their locked list section (Put also between the locked section
// and the index update). Build with the extra tag "c16nohook" to leave this
// file out when the hook is not present.
//
// Case: capacity, a sequential warm-up prefix, 2-3 operations that run
// concurrently. Every operation runs on its own goroutine; the hook parks the
// goroutine until the scheduler (the test goroutine) releases it again, and
// exactly one goroutine runs at any time, so a schedule (sequence of "run the
// next segment of operation i") is executed deterministically. ALL schedules
// are enumerated depth-first, each on a fresh cache. Yield points are never
// inside a locked section, hence a released goroutine always reaches its
// next yield point or finishes - unless a lock has leaked, which the
// goroutine-state probe of common_test.go detects.
//
// Oracle, per schedule: the quiescent final state satisfies the invariants of
// (a) (index and list hold the same entries, Len/Size are those of the
// resident entries, size <= capacity), and the results of the operations and
// the final recency list equal those of SOME sequential order of the
// operations on the reference LRU; an operation that finished before another
// one started must precede it in that order.
package c16

import (
	"fmt"
	"runtime"
	"sort"
	"strings"
	"sync/atomic"
	"testing"
	"time"

	"github.com/lightninglabs/neutrino/cache/lru"
	"pgregory.net/rapid"

	"verifcache/kit"
)

type ConcCase struct {
	Cap  int  `json:"cap"`
	Warm []Op `json:"warm"`
	Conc []Op `json:"conc"`
}

func TestC16Conc(t *testing.T) {
	lru.VerifYield = func(point string) {
		if x := curExplorer; x != nil {
			x.yield(point)
		}
	}
	defer func() { lru.VerifYield = nil }()
	kit.RunProp(t, kit.Prop[ConcCase]{ID: "C16", Name: "interleavings", Gen: genConc, Run: runConc})
}

func genConc(t *rapid.T) ConcCase {
	capacity := pick(t, "cap", []int{1, 2, 2, 3, 3, 4})
	sizes := []int{0, 1, 1, 1, 1, 2, 2, capacity, capacity + 1}
	keys := []int{0, 1, 2, 3}
	warmOp := rapid.Custom(func(t *rapid.T) Op {
		o := Op{Kind: pick(t, "kind", []string{"put", "put", "put", "put", "put", "put", "get", "del"})}
		o.Key = pick(t, "key", keys)
		if o.Kind == "put" {
			o.Size = pick(t, "size", sizes)
		}
		return o
	})
	concOp := rapid.Custom(func(t *rapid.T) Op {
		o := Op{Kind: pick(t, "kind", []string{"put", "put", "put", "put", "get", "get", "get", "lad", "lad", "del"})}
		o.Key = pick(t, "key", keys)
		if o.Kind == "put" {
			o.Size = pick(t, "size", sizes)
			o.Bad = uni(t, "bad", 30) == 0
		}
		return o
	})
	return ConcCase{
		Cap:  capacity,
		Warm: rapid.SliceOfN(warmOp, 0, 12).Draw(t, "warm"),
		Conc: rapid.SliceOfN(concOp, 2, 3).Draw(t, "conc"),
	}
}

// ---------------------------------------------------------------- scheduler

type opResult struct {
	Found   bool // get / lad: a value was returned
	ID      int  // get / lad: its id
	Evicted bool // put
	Err     bool // put / get: error returned
	Panic   string
}

func (r opResult) String() string {
	if r.Panic != "" {
		return "panic: " + r.Panic
	}
	return fmt.Sprintf("{found=%v v%d evicted=%v err=%v}", r.Found, r.ID, r.Evicted, r.Err)
}

type event struct {
	w     int
	point string // yield point, or "done"
}

const (
	wNotStarted = iota // goroutine exists, blocked until its first release
	wParked            // blocked at a yield point, mid-operation
	wPending           // released (or woken up), has not reported yet
	wLockWait          // observed waiting for a lock while another operation
	// is parked mid-operation (that one may hold the lock)
	wFinished
)

type worker struct {
	idx     int
	rel     chan struct{}
	gid     atomic.Int64
	state   int
	strikes int
	res     opResult
	start   int // step of the first release
	end     int // step at which it finished
}

type explorer struct {
	capacity uint64
	warm     []Op
	conc     []Op
	wm       *model // reference state after the warm-up
	perms    []seqOutcome

	// per schedule
	ws     []*worker
	cur    *worker     // the one released worker (valid while !multi)
	multi  atomic.Bool // some worker is/was in wLockWait: identify callers by goroutine id
	events chan event
	abort  bool
}

var curExplorer *explorer

// yield is called (through lru.VerifYield) by a worker inside a cache
// operation. It reports the yield point and parks the goroutine until the
// scheduler releases it.
func (x *explorer) yield(point string) {
	var w *worker
	if x.multi.Load() {
		id := goid()
		for _, c := range x.ws {
			if c.gid.Load() == id {
				w = c
			}
		}
	} else {
		w = x.cur
	}
	if w == nil {
		return // warm-up or observation: run straight through
	}
	x.events <- event{w.idx, point}
	<-w.rel
	if x.abort {
		runtime.Goexit()
	}
}

type step struct {
	chosen  int
	enabled []int
}

type violation struct {
	symptom string
	msg     string
	trace   []string
}

type schedOutcome struct {
	res   []opResult
	final obs
	start []int
	end   []int
}

// seqOutcome is what the reference LRU yields for one sequential order.
type seqOutcome struct {
	order []int
	res   []opResult
	final []kv
	evict bool
}

func applyModel(m *model, op Op, id int) (opResult, int) {
	switch op.Kind {
	case "put":
		p := m.planPut(op.Key, &val{id: id, size: uint64(op.Size), bad: op.Bad})
		if p.kind == planMustFail {
			return opResult{Err: true}, 0
		}
		// no poisoned resident values in this check: never lenient
		m.l = p.next
		return opResult{Evicted: p.evicted}, p.evictions
	case "get":
		p := m.planGet(op.Key)
		m.l = p.next
		if !p.hit {
			return opResult{Err: true}, 0
		}
		return opResult{Found: true, ID: p.v.id}, 0
	case "lad", "del":
		p := m.planDel(op.Key)
		m.l = p.next
		if !p.hit || op.Kind == "del" {
			return opResult{}, 0
		}
		return opResult{Found: true, ID: p.v.id}, 0
	}
	panic("bad op " + op.Kind)
}

func execReal(c *realCache, op Op, id int) (r opResult) {
	r.Panic = guarded(func() {
		switch op.Kind {
		case "put":
			ev, err := c.Put(op.Key, &val{id: id, size: uint64(op.Size), bad: op.Bad})
			r.Evicted, r.Err = ev, err != nil
		case "get":
			v, err := c.Get(op.Key)
			r.Err = err != nil
			if v != nil {
				r.Found, r.ID = true, v.id
			}
		case "lad":
			v, ok := c.LoadAndDelete(op.Key)
			r.Found = ok
			if v != nil {
				r.ID = v.id
			}
		case "del":
			c.Delete(op.Key)
		}
	})
	return r
}

const warmIDBase, concIDBase = 1, 100

func permutations(n int) [][]int {
	var out [][]int
	var rec func(cur []int, used int)
	rec = func(cur []int, used int) {
		if len(cur) == n {
			out = append(out, append([]int(nil), cur...))
			return
		}
		for i := 0; i < n; i++ {
			if used&(1<<i) == 0 {
				rec(append(cur, i), used|1<<i)
			}
		}
	}
	rec(nil, 0)
	return out
}

func newExplorer(capacity int, warm, conc []Op) *explorer {
	x := &explorer{capacity: uint64(capacity), warm: warm, conc: conc}
	x.wm = &model{cap: x.capacity}
	for i, op := range warm {
		applyModel(x.wm, op, warmIDBase+i)
	}
	for _, order := range permutations(len(conc)) {
		m := x.wm.clone()
		so := seqOutcome{order: order, res: make([]opResult, len(conc))}
		for _, i := range order {
			r, ev := applyModel(m, conc[i], concIDBase+i)
			so.res[i] = r
			so.evict = so.evict || ev > 0
		}
		so.final = m.kvs()
		x.perms = append(x.perms, so)
	}
	return x
}

// runSchedule executes one schedule: the choices of prefix, then always the
// lowest-numbered unfinished operation.
func (x *explorer) runSchedule(prefix []int) (trace []step, viol *violation) {
	cache := lru.NewCache[int, *val](x.capacity)
	x.cur, x.abort = nil, false
	x.events = make(chan event, len(x.conc)+1)
	var log []string
	fail := func(symptom, format string, a ...any) *violation {
		return &violation{symptom: symptom, msg: fmt.Sprintf(format, a...), trace: log}
	}

	for i, op := range x.warm {
		if r := execReal(cache, op, warmIDBase+i); r.Panic != "" {
			return nil, fail("warmup-panic", "warm-up op %d %v panics: %s", i, op, r.Panic)
		}
	}

	ws := make([]*worker, len(x.conc))
	x.ws = ws
	x.multi.Store(false)
	ready := make(chan struct{}, len(x.conc))
	for i := range x.conc {
		w := &worker{idx: i, rel: make(chan struct{}), state: wNotStarted, start: -1, end: -1}
		ws[i] = w
		op := x.conc[i]
		events := x.events
		go func() {
			w.gid.Store(goid())
			ready <- struct{}{}
			<-w.rel
			if x.abort {
				return
			}
			w.res = execReal(cache, op, concIDBase+w.idx)
			events <- event{w.idx, "done"}
		}()
	}
	for range ws {
		<-ready
	}
	// releaseAll lets parked workers of an abandoned schedule exit.
	releaseAll := func() {
		x.abort = true
		x.cur = nil
		for _, w := range ws {
			if w.state == wNotStarted || w.state == wParked {
				w.rel <- struct{}{}
			}
		}
	}
	count := func(state int) (n int) {
		for _, w := range ws {
			if w.state == state {
				n++
			}
		}
		return n
	}

	// settle waits until no worker is running: every released or woken
	// worker has reached a yield point, finished, or is waiting for a
	// lock. A worker that waits for a lock is NOT reported as stuck as
	// long as another operation is parked mid-way (a yield point may lie
	// inside a locked section, then that operation holds the lock): the
	// scheduler goes on with the others and picks the waiter up again
	// when it gets the lock.
	settle := func(n int) *violation {
		progressed := false
		for {
			d := 100 * time.Microsecond
			var timer *time.Timer
			for count(wPending) > 0 {
				var ev event
				got := false
				select {
				case ev = <-x.events:
					got = true
				default:
					if timer == nil {
						timer = time.NewTimer(d)
					}
					select {
					case ev = <-x.events:
						got = true
					case <-timer.C:
						if d < 200*time.Millisecond {
							d *= 2
						}
						timer.Reset(d)
					}
				}
				if got {
					w := ws[ev.w]
					if w.state != wPending && w.state != wLockWait {
						return fail("HARNESS", "event %q from op%d in state %d", ev.point, ev.w, w.state)
					}
					progressed = true
					w.strikes = 0
					if ev.point == "done" {
						w.state, w.end = wFinished, n
						log = append(log, fmt.Sprintf("step %d: op%d %v runs to its end -> %v", n, w.idx, x.conc[w.idx], w.res))
						if w.res.Panic != "" {
							return fail("panic", "op%d %v panics: %s", w.idx, x.conc[w.idx], w.res.Panic)
						}
					} else {
						w.state = wParked
						log = append(log, fmt.Sprintf("step %d: op%d %v runs up to %s", n, w.idx, x.conc[w.idx], ev.point))
					}
					continue
				}
				// nothing arrived for a while: look at the goroutines
				for _, w := range ws {
					if w.state != wPending {
						continue
					}
					st := goroutineState(w.gid.Load())
					if !lockWait(st) {
						w.strikes = 0
						continue
					}
					if w.strikes++; w.strikes >= 2 {
						w.strikes = 0
						w.state = wLockWait
						x.multi.Store(true)
						log = append(log, fmt.Sprintf("step %d: op%d %v waits for a lock (%s)", n, w.idx, x.conc[w.idx], st))
					}
				}
			}
			if timer != nil {
				timer.Stop()
			}
			// Did the progress of this round wake up a lock waiter?
			if !progressed || count(wLockWait) == 0 {
				return nil
			}
			progressed = false
			woken := false
			for _, w := range ws {
				if w.state == wLockWait && !lockWait(goroutineState(w.gid.Load())) {
					w.state = wPending
					woken = true
				}
			}
			if !woken {
				return nil
			}
		}
	}

	for n := 0; ; n++ {
		var enabled []int
		for _, w := range ws {
			if w.state == wNotStarted || w.state == wParked {
				enabled = append(enabled, w.idx)
			}
		}
		if len(enabled) == 0 && count(wLockWait) > 0 {
			// Nobody is parked mid-operation, so nobody can hold a
			// lock legitimately. A waiter that was just handed the
			// lock may not have been scheduled yet on a busy
			// machine: a leaked lock stays leaked, so waiting
			// costs nothing but time in the failing case.
			deadline := time.Now().Add(5 * time.Second)
			woken := false
			for !woken && time.Now().Before(deadline) {
				time.Sleep(10 * time.Millisecond)
				for _, w := range ws {
					if w.state == wLockWait && !lockWait(goroutineState(w.gid.Load())) {
						w.state = wPending
						woken = true
					}
				}
			}
			if woken {
				if v := settle(n); v != nil {
					releaseAll()
					return trace, v
				}
				n--
				continue
			}
		}
		if len(enabled) == 0 {
			if count(wLockWait) > 0 {
				var who []string
				for _, w := range ws {
					if w.state == wLockWait {
						who = append(who, fmt.Sprintf("op%d %v", w.idx, x.conc[w.idx]))
					}
				}
				releaseAll()
				return trace, fail("blocks", "%s wait(s) for a lock forever: all other operations have returned", strings.Join(who, ", "))
			}
			break
		}
		choice := enabled[0]
		if n < len(prefix) {
			for _, e := range enabled {
				if e == prefix[n] {
					choice = e
				}
			}
		}
		w := ws[choice]
		if w.start < 0 {
			w.start = n
		}
		x.cur = w
		w.state = wPending
		trace = append(trace, step{chosen: choice, enabled: enabled})
		w.rel <- struct{}{}
		if v := settle(n); v != nil {
			releaseAll()
			return trace, v
		}
	}
	x.cur = nil

	// Quiescent: read the final state (on a watched goroutine: a leaked
	// lock would block Len/Size).
	och := make(chan obs, 1)
	var ogid atomic.Int64
	var opanic string
	go func() {
		ogid.Store(goid())
		var o obs
		opanic = guarded(func() { o = observe(cache) })
		och <- o
	}()
	o, stuck, state := awaitOrStuck(och, &ogid)
	if stuck {
		return trace, fail("blocks", "after all operations returned, Len/Size blocks forever in %s", state)
	}
	if opanic != "" {
		return trace, fail("panic", "reading the final state panics: %s", opanic)
	}
	log = append(log, fmt.Sprintf("final: %v", o))

	if s, msg := consistent(o, x.capacity); s != "" {
		return trace, fail(s, "%s", msg)
	}

	// some sequential order must explain results and final state
	out := schedOutcome{final: o}
	for _, w := range ws {
		out.res = append(out.res, w.res)
		out.start = append(out.start, w.start)
		out.end = append(out.end, w.end)
	}
	if !x.explained(out) {
		var alts []string
		for _, so := range x.perms {
			alts = append(alts, fmt.Sprintf("order %v: results %v final %v", so.order, so.res, so.final))
		}
		symptom := "not-linearizable"
		if x.explainedWithStaleGets(out) {
			// Weaker reading: a Get that overlaps the removal
			// (eviction, replacement, deletion) of its entry returns
			// the value it found in the index although the entry is
			// gone when Get touches the list; the results of all
			// other operations and the final state are those of a
			// sequential order without that Get. Named separately
			// because nothing is corrupted.
			symptom = "stale-get"
		}
		return trace, fail(symptom, "results %v and final state %v (state before: %v) match no sequential order: %s", out.res, o.Filo, x.wm.kvs(), strings.Join(alts, "; "))
	}
	return trace, nil
}

func (x *explorer) explained(out schedOutcome) bool {
next:
	for _, so := range x.perms {
		pos := make([]int, len(so.order))
		for p, i := range so.order {
			pos[i] = p
		}
		for a := range pos {
			for b := range pos {
				// a finished before b started => a before b
				if a != b && out.end[a] < out.start[b] && pos[a] > pos[b] {
					continue next
				}
			}
		}
		for i := range so.res {
			if so.res[i] != out.res[i] {
				continue next
			}
		}
		if eqKVs(so.final, out.final.Filo) {
			return true
		}
	}
	return false
}

// explainedWithStaleGets: is there a non-empty set of successful Gets such
// that (1) each returned a value that was stored under its key (before the
// concurrent phase or by a concurrent Put) and (2) the other operations'
// results and the final state equal those of a sequential order of the other
// operations alone?
func (x *explorer) explainedWithStaleGets(out schedOutcome) bool {
	n := len(x.conc)
	for mask := 1; mask < 1<<n; mask++ {
		ok := true
		var rest []int
		for i := 0; i < n && ok; i++ {
			if mask&(1<<i) == 0 {
				rest = append(rest, i)
				continue
			}
			op := x.conc[i]
			if op.Kind != "get" || !out.res[i].Found {
				ok = false
				break
			}
			valid := false
			if j := x.wm.find(op.Key); j >= 0 && x.wm.l[j].v.id == out.res[i].ID {
				valid = true
			}
			for j, o := range x.conc {
				if o.Kind == "put" && o.Key == op.Key && !o.Bad && out.res[i].ID == concIDBase+j {
					valid = true
				}
			}
			ok = valid
		}
		if !ok {
			continue
		}
	perm:
		for _, order := range permutations(len(rest)) {
			m := x.wm.clone()
			pos := map[int]int{}
			for p, ri := range order {
				i := rest[ri]
				pos[i] = p
				if r, _ := applyModel(m, x.conc[i], concIDBase+i); r != out.res[i] {
					continue perm
				}
			}
			for _, a := range rest {
				for _, b := range rest {
					if a != b && out.end[a] < out.start[b] && pos[a] > pos[b] {
						continue perm
					}
				}
			}
			if eqKVs(m.kvs(), out.final.Filo) {
				return true
			}
		}
	}
	return false
}

// explore enumerates all schedules depth-first and stops at the first
// violation.
func (x *explorer) explore() (schedules int, viol *violation) {
	curExplorer = x
	defer func() { curExplorer = nil }()

	// warm-up must behave like the reference (part (a) checks that in
	// depth; here it only guards the premise)
	var prefix []int
	for {
		trace, v := x.runSchedule(prefix)
		schedules++
		if v != nil {
			return schedules, v
		}
		// backtrack: deepest step with an untried (higher) alternative
		i := len(trace) - 1
		nextChoice := -1
		for ; i >= 0; i-- {
			for _, e := range trace[i].enabled {
				if e > trace[i].chosen {
					nextChoice = e
					break
				}
			}
			if nextChoice >= 0 {
				break
			}
		}
		if i < 0 {
			return schedules, nil
		}
		prefix = prefix[:0]
		for _, s := range trace[:i] {
			prefix = append(prefix, s.chosen)
		}
		prefix = append(prefix, nextChoice)
		if schedules > 100000 {
			return schedules, &violation{symptom: "HARNESS", msg: "more than 100000 schedules"}
		}
	}
}

// ---------------------------------------------------------------- runner

func kindName(k string) string {
	if k == "lad" || k == "del" {
		return "delete" // Delete is LoadAndDelete
	}
	return k
}

// relation describes how two concurrent operations can interfere.
func relation(wm *model, a, b Op) string {
	if a.Key == b.Key {
		return "same-key"
	}
	return "other-key"
}

func runConc(t *testing.T, c ConcCase) kit.Verdict {
	var v kit.Verdict
	x := newExplorer(c.Cap, c.Warm, c.Conc)

	// The warm-up prefix itself must match the reference (part (a) checks
	// sequential behaviour in depth; here it guards the premise). It runs
	// on a watched goroutine; the schedules repeat it unwatched, it is
	// deterministic.
	{
		och := make(chan obs, 1)
		var gid atomic.Int64
		var pn string
		go func() {
			gid.Store(goid())
			var o obs
			pn = guarded(func() {
				cache := lru.NewCache[int, *val](x.capacity)
				for i, op := range c.Warm {
					execReal(cache, op, warmIDBase+i)
				}
				o = observe(cache)
			})
			och <- o
		}()
		o, stuck, state := awaitOrStuck(och, &gid)
		if stuck {
			v.Fail("C16/conc/warmup/blocks", "the sequential warm-up %v blocks forever in %s", c.Warm, state)
			return v
		}
		if pn != "" {
			v.Fail("C16/conc/warmup/panic", "the sequential warm-up %v panics: %s", c.Warm, pn)
			return v
		}
		if s, msg := consistent(o, x.capacity); s != "" {
			v.Fail("C16/conc/warmup/"+s, "after the sequential warm-up: %s", msg)
			return v
		}
		if d := diffState(x.wm.kvs(), o.Filo); d != "" {
			v.Fail("C16/conc/warmup/"+d, "after the sequential warm-up: expected %v, got %v", x.wm.kvs(), o.Filo)
			return v
		}
	}
	v.Logf("capacity %d, after warm-up (MRU first): %v", c.Cap, x.wm.kvs())

	sameKey, evict := false, false
	for i := range c.Conc {
		for j := i + 1; j < len(c.Conc); j++ {
			if c.Conc[i].Key == c.Conc[j].Key {
				sameKey = true
			}
		}
	}
	for _, so := range x.perms {
		evict = evict || so.evict
	}
	var kinds []string
	for _, o := range c.Conc {
		kinds = append(kinds, kindName(o.Kind))
	}
	sort.Strings(kinds)
	v.Class("conc/%d-ops", len(c.Conc))
	v.Class("kinds/%s", strings.Join(kinds, "+"))
	if sameKey {
		v.Class("same-key")
	}
	if evict {
		v.Class("eviction")
	}
	// NT: two of the concurrent operations touch the same key, or an
	// eviction happens (in some sequential order of the operations).
	v.Nontrivial = sameKey || evict

	n, viol := x.explore()
	v.Count("schedules", n)
	switch {
	case n <= 6:
		v.Class("schedules/1-6")
	case n <= 100:
		v.Class("schedules/7-100")
	default:
		v.Class("schedules/101+")
	}
	if viol == nil {
		return v
	}
	if viol.symptom == "HARNESS" {
		v.Harness = viol.msg
		return v
	}

	// Attribute the violation to the smallest set of operations that shows
	// it (stable, narrow signature): try each pair on its own.
	// (three operations none of whose pairs fails alone: the kinds are
	// left out of the signature to keep the set of signatures small)
	sig := fmt.Sprintf("C16/conc/three-ops/%s", viol.symptom)
	culprit := c.Conc
	if len(c.Conc) == 2 {
		sig = fmt.Sprintf("C16/conc/%s/%s/%s", strings.Join(kinds, "+"), relation(x.wm, c.Conc[0], c.Conc[1]), viol.symptom)
	} else {
	pairs:
		for i := range c.Conc {
			for j := i + 1; j < len(c.Conc); j++ {
				pair := []Op{c.Conc[i], c.Conc[j]}
				px := newExplorer(c.Cap, c.Warm, pair)
				_, pv := px.explore()
				if pv != nil && pv.symptom != "HARNESS" {
					pk := []string{kindName(pair[0].Kind), kindName(pair[1].Kind)}
					sort.Strings(pk)
					sig = fmt.Sprintf("C16/conc/%s/%s/%s", strings.Join(pk, "+"), relation(px.wm, pair[0], pair[1]), pv.symptom)
					viol, culprit = pv, pair
					v.Logf("the pair %v alone shows the violation", pair)
					break pairs
				}
			}
		}
	}
	v.Logf("concurrent operations: %v", culprit)
	for _, l := range viol.trace {
		v.Logf("%s", l)
	}
	v.Fail(sig, "capacity %d, state before %v, concurrent %v: %s", c.Cap, x.wm.kvs(), culprit, viol.msg)
	return v
}
