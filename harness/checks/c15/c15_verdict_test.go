//go:build verif

// Part (b) of property C15: the verdict of ChainService.SendTransaction and
// what it means for the rebroadcast, checked on the real client running
// against scripted wire peers (package netsim) in virtual time.
//
// One case = one client with 1-6 connected peers. A harness goroutine calls
// SendTransaction(tx); every peer answers the client's inv with a generated
// behaviour (silence, getdata, getdata + reject, reject without getdata, a
// reject for another transaction, duplicated messages, delays on either side
// of the two time limits, disconnect). After the call returned, block events
// and interval ticks follow, during which the peers record every inv of the
// transaction they are sent.
//
// The oracle never looks at the client's bookkeeping. It classifies each
// peer from the messages the peer actually put on the wire (and when) and
// applies the documented rule:
//
//	nobody replied                                   -> success
//	every replying peer rejected in time             -> the most frequent
//	    class of rejection decides (Mempool: success, transaction kept)
//	share of replying peers calling it invalid >= threshold -> Invalid
//	otherwise                                        -> success
//
// Wherever the documentation does not settle what a peer counts as, every
// reading is evaluated and the observed outcome only has to agree with one of
// them (class "open"):
//   - a peer that rejects without having asked for the transaction is either
//     a replying, rejecting peer (reading 1) or no replying peer at all
//     (reading 2);
//   - a peer that disconnects right after its getdata either accepted or did
//     not reply;
//   - a message less than vdMargin away from a time limit is either in time
//     or late;
//   - equally frequent rejection classes: any of them;
//   - every replying peer says "already confirmed": the caller may get that
//     error or success.
//
// All identifiers of this file carry the prefix "vd" (types: Case, Reply).
package c15

import (
	"crypto/sha256"
	"fmt"
	"os"
	"sort"
	"strings"
	"sync"
	"testing"
	"time"

	"github.com/btcsuite/btcd/chainhash/v2"
	"github.com/btcsuite/btcd/wire/v2"
	"github.com/lightninglabs/neutrino"
	"github.com/lightninglabs/neutrino/pushtx"
	"pgregory.net/rapid"

	"verifharness/kit"
	"verifharness/netsim"
)

// ---------------------------------------------------------------- case

// Reply is what one peer does when the client announces the transaction.
type Reply struct {
	// Kind: silent | getdata | reject | bare | drop
	//   silent  - the inv is ignored
	//   getdata - asks for the transaction, then says nothing (accepts)
	//   reject  - asks for the transaction and rejects it once it arrives
	//   bare    - sends a reject without having asked for the transaction
	//   drop    - asks for the transaction and disconnects
	Kind string `json:"kind"`
	// GDms: virtual delay between the inv and the peer's first message.
	GDms int `json:"gd_ms"`
	// Dup: the getdata is sent twice. Extra: the getdata names an unrelated
	// transaction first. Legacy: the getdata uses the non-witness inv type.
	Dup    bool `json:"dup,omitempty"`
	Extra  bool `json:"extra,omitempty"`
	Legacy bool `json:"legacy,omitempty"`
	// Code/Reason of the reject message; RDms is the delay between the
	// arrival of the transaction and the reject (reject kind only).
	Code   uint8  `json:"code,omitempty"`
	Reason string `json:"reason,omitempty"`
	RDms   int    `json:"rd_ms,omitempty"`
	// Other: the reject names a different transaction. RejDup: sent twice.
	Other  bool `json:"other,omitempty"`
	RejDup bool `json:"rejdup,omitempty"`
}

func (r Reply) String() string {
	s := fmt.Sprintf("%s@%dms", r.Kind, r.GDms)
	if r.Dup {
		s += " dup"
	}
	if r.Kind == "reject" || r.Kind == "bare" {
		s += fmt.Sprintf(" code=0x%02x %q", r.Code, r.Reason)
		if r.Kind == "reject" {
			s += fmt.Sprintf(" +%dms", r.RDms)
		}
		if r.Other {
			s += " other-hash"
		}
		if r.RejDup {
			s += " x2"
		}
	}
	return s
}

// Case is one generated run.
type Case struct {
	World kit.WorldSpec `json:"world"`
	// Mode of the generator that produced Peers (information only).
	Mode string `json:"mode"`
	// BroadcastMs: Config.BroadcastTimeout (0 = the client's default, 5 s).
	BroadcastMs int `json:"broadcast_ms"`
	// ThrNum/ThrDen: neutrino.QueryInvalidTxThreshold (default 3/5).
	ThrNum int     `json:"thr_num"`
	ThrDen int     `json:"thr_den"`
	Peers  []Reply `json:"peers"`
	// Reb: what peers do with later announcements of the transaction:
	// silent | getdata.
	Reb string `json:"reb"`
	// Events after the call returned: block | tick.
	Events []string `json:"events"`
	// Confirm: at the end every peer answers an announcement with "already
	// in the chain"; the transaction must not be announced after that.
	Confirm bool `json:"confirm,omitempty"`
	// StopAtMs >= 0: ChainService.Stop is called that long after the call
	// began (the rebroadcast part is skipped).
	StopAtMs int `json:"stop_at_ms"`
}

const (
	vdRejectTimeout = time.Second // neutrino.QueryRejectTimeout (default)
	vdMargin        = 50 * time.Millisecond
)

type vdReason struct {
	code   wire.RejectCode
	reason string
}

// Reject messages real peers send (btcd / bitcoind) and a few they do not.
var (
	vdInvalidRejects = []vdReason{
		{wire.RejectInvalid, "bad-txns-inputs-missingorspent"},
		{wire.RejectInvalid, "mandatory-script-verify-flag-failed (Signature must be zero for failed CHECK(MULTI)SIG operation)"},
		{wire.RejectNonstandard, "dust"},
		{wire.RejectNonstandard, "transaction output 0: non-standard script form"},
		{wire.RejectDuplicate, "txn-mempool-conflict"},
		{wire.RejectDuplicate, "output 3f..:0 already spent by transaction 9a.. in the memory pool"},
		{wire.RejectInvalid, "txn-already-in-mempool"}, // the code decides
	}
	vdFeeRejects = []vdReason{
		{wire.RejectInsufficientFee, "insufficient fee"},
		{wire.RejectInsufficientFee, "mempool min fee not met"},
		{wire.RejectInsufficientFee, "transaction 3f.. has insufficient priority (0.1 <= 5.76e+07)"},
	}
	vdMempoolRejects = []vdReason{
		{wire.RejectDuplicate, "txn-already-in-mempool"},
		{wire.RejectDuplicate, "already have transaction 3f0c..a1"},
	}
	vdConfirmedRejects = []vdReason{
		{wire.RejectDuplicate, "txn-already-known"},
		{wire.RejectDuplicate, "transaction already exists"},
	}
	vdUnknownRejects = []vdReason{
		{wire.RejectDuplicate, "duplicate of something"},
		{wire.RejectDuplicate, ""},
		{wire.RejectMalformed, "error parsing message"},
		{wire.RejectObsolete, "obsolete version"},
		{wire.RejectDust, "dust"},
		{wire.RejectCheckpoint, "checkpoint mismatch"},
		{wire.RejectMalformed, "txn-already-in-mempool"}, // only "duplicate" carries these
		{wire.RejectDust, "transaction already exists"},
	}
)

// vdClassify is the documented table of pushtx/error.go, written down
// independently: how a reject message is to be understood.
func vdClassify(code uint8, reason string) string {
	has := func(s string) bool { return strings.Contains(reason, s) }
	switch wire.RejectCode(code) {
	case wire.RejectInvalid, wire.RejectNonstandard:
		return "Invalid"
	case wire.RejectInsufficientFee:
		return "InsufficientFee"
	case wire.RejectDuplicate:
		switch {
		case has("txn-mempool-conflict"), has("already spent"):
			return "Invalid"
		case has("txn-already-in-mempool"), has("already have transaction"):
			return "Mempool"
		case has("txn-already-known"), has("transaction already exists"):
			return "Confirmed"
		}
	}
	return "Unknown"
}

func vdGenReason(t *rapid.T, class string) vdReason {
	switch class {
	case "Invalid":
		return kit.Pick(t, "rinv", vdInvalidRejects)
	case "InsufficientFee":
		return kit.Pick(t, "rfee", vdFeeRejects)
	case "Mempool":
		return kit.Pick(t, "rmem", vdMempoolRejects)
	case "Confirmed":
		return kit.Pick(t, "rconf", vdConfirmedRejects)
	}
	return kit.Pick(t, "runk", vdUnknownRejects)
}

// vdGenDelays: delays are drawn as fractions of the two limits, well away
// from them, on both sides.
func vdGenGD(t *rapid.T, btMs int) int {
	return kit.Pick(t, "gd", []int{0, 0, 0, 0, 1, 20, btMs * 3 / 10, btMs - 700, btMs * 12 / 10, btMs * 2})
}

func vdGenRD(t *rapid.T) int {
	rt := int(vdRejectTimeout / time.Millisecond)
	return kit.Pick(t, "rd", []int{0, 0, 0, 0, 1, rt * 35 / 100, rt * 8 / 10, rt * 12 / 10, rt * 3})
}

func vdGenReply(t *rapid.T, btMs int, kinds []string, classes []string) Reply {
	r := Reply{Kind: kit.Pick(t, "kind", kinds)}
	if r.Kind == "silent" {
		return r
	}
	r.GDms = vdGenGD(t, btMs)
	if r.Kind != "bare" {
		r.Dup = kit.Uni(t, "dup", 5) == 0
		r.Extra = kit.Uni(t, "extra", 5) == 0
		r.Legacy = kit.Uni(t, "legacy", 3) == 0
	}
	if r.Kind == "reject" || r.Kind == "bare" {
		rr := vdGenReason(t, kit.Pick(t, "class", classes))
		r.Code, r.Reason = uint8(rr.code), rr.reason
		if r.Kind == "reject" {
			r.RDms = vdGenRD(t)
		}
		r.Other = kit.Uni(t, "other", 9) == 0
		r.RejDup = kit.Uni(t, "rejdup", 7) == 0
	}
	return r
}

var (
	vdFreeKinds   = []string{"silent", "silent", "getdata", "getdata", "getdata", "getdata", "reject", "reject", "reject", "reject", "reject", "reject", "reject", "bare", "bare", "drop"}
	vdAllClasses  = []string{"Invalid", "Invalid", "Invalid", "Invalid", "InsufficientFee", "Mempool", "Mempool", "Confirmed", "Unknown"}
	vdSoftClasses = []string{"InsufficientFee", "Mempool", "Mempool", "Confirmed", "Unknown"}
)

func vdGen(t *rapid.T) Case {
	c := Case{StopAtMs: -1}
	c.World = kit.WorldSpec{P: kit.ParamSpec{Retarget: 0, Spacing: 60, Adj: 4, VerFloor: 1},
		Seed: rapid.Uint64Range(0, 3).Draw(t, "wseed"), Base: rapid.IntRange(3, 10).Draw(t, "base"), Pace: 1}
	c.BroadcastMs = kit.Pick(t, "bt", []int{0, 0, 0, 2000, 3000})
	bt := c.BroadcastMs
	if bt == 0 {
		bt = int(pushtx.DefaultBroadcastTimeout / time.Millisecond)
	}
	thr := kit.Pick(t, "thr", [][2]int{{3, 5}, {3, 5}, {3, 5}, {3, 5}, {1, 2}, {1, 2}, {3, 4}})
	c.ThrNum, c.ThrDen = thr[0], thr[1]

	switch kit.Uni(t, "mode", 5) {
	case 0, 1:
		// Every peer independently.
		c.Mode = "free"
		n := 1 + kit.Uni(t, "npeers", 6)
		for i := 0; i < n; i++ {
			c.Peers = append(c.Peers, vdGenReply(t, bt, vdFreeKinds, vdAllClasses))
		}
	case 2, 3:
		// n peers reply in time, k of them call the transaction invalid,
		// with k/n on or next to the threshold; the others accept or give
		// some other rejection.
		c.Mode = "threshold"
		n := 2 + kit.Uni(t, "nrepl", 5)
		k := (c.ThrNum*n+c.ThrDen-1)/c.ThrDen + kit.Uni(t, "koff", 3) - 1
		if k < 1 {
			k = 1
		}
		if k > n {
			k = n
		}
		for i := 0; i < n; i++ {
			var r Reply
			if i < k {
				r = vdGenReply(t, bt, []string{"reject"}, []string{"Invalid"})
				r.Other = false
			} else {
				r = vdGenReply(t, bt, []string{"getdata", "getdata", "reject"}, vdSoftClasses)
			}
			// in time, mostly
			if kit.Uni(t, "intime", 8) != 0 {
				r.GDms = kit.Pick(t, "gdin", []int{0, 0, 1, 20, bt * 3 / 10})
				r.RDms = kit.Pick(t, "rdin", []int{0, 0, 1, 350, 800})
			}
			c.Peers = append(c.Peers, r)
		}
		for len(c.Peers) < 6 && kit.Uni(t, "more", 3) == 0 {
			c.Peers = append(c.Peers, vdGenReply(t, bt, []string{"silent", "bare", "drop", "getdata"}, vdAllClasses))
		}
	default:
		// Nearly everybody rejects.
		c.Mode = "rejects"
		n := 1 + kit.Uni(t, "npeers", 6)
		for i := 0; i < n; i++ {
			kinds := []string{"reject", "reject", "reject", "reject", "reject", "reject", "bare", "getdata", "silent"}
			c.Peers = append(c.Peers, vdGenReply(t, bt, kinds, vdAllClasses))
		}
	}
	c.Reb = kit.Pick(t, "reb", []string{"silent", "getdata"})
	ne := 1 + kit.Uni(t, "nevents", 3)
	for i := 0; i < ne; i++ {
		c.Events = append(c.Events, kit.Pick(t, "event", []string{"block", "block", "tick"}))
	}
	c.Confirm = kit.Uni(t, "confirm", 3) == 0
	if kit.Uni(t, "stop", 10) == 0 {
		c.StopAtMs = kit.Pick(t, "stopat", []int{0, 1, 500, bt / 2, bt - 1, bt})
	}
	c.World.Future = len(c.Events) + 4
	return c
}

// ---------------------------------------------------------------- oracle

// vdRole is what a peer counts as in the verdict.
type vdRole struct {
	kind  byte   // 'N' did not reply, 'A' asked and did not reject, 'J' asked and rejected, 'B' rejected without asking
	class string // for J and B
}

func (r vdRole) String() string {
	if r.class != "" {
		return fmt.Sprintf("%c(%s)", r.kind, r.class)
	}
	return string(r.kind)
}

// vdExpect applies the documented rule to one assignment of roles. reading
// 1 counts a 'B' peer as a replying peer that rejected, reading 2 does not
// count it at all. It returns the admissible outcomes and why.
//
// "Reading" 3 is not a reading of the documentation and never makes an
// outcome admissible: it counts a 'B' peer among the rejecting peers without
// counting it among the replying ones. It is only used to give one signature
// to every symptom of that particular miscount.
func vdExpect(roles []vdRole, reading int, num, den int) (map[string]bool, string) {
	repl, rej := 0, 0
	classes := map[string]int{}
	for _, r := range roles {
		switch r.kind {
		case 'A':
			repl++
		case 'J':
			repl++
			rej++
			classes[r.class]++
		case 'B':
			switch reading {
			case 1:
				repl++
				rej++
				classes[r.class]++
			case 3:
				rej++
				classes[r.class]++
			}
		}
	}
	out := map[string]bool{}
	switch {
	case repl == 0:
		out["ok"] = true
		return out, "nobody-replied"
	case rej == repl:
		max := 0
		for _, n := range classes {
			if n > max {
				max = n
			}
		}
		for cl, n := range classes {
			if n != max {
				continue
			}
			switch cl {
			case "Mempool":
				// "An error won't be returned if the transaction
				// already exists within the mempool."
				out["ok"] = true
			case "Confirmed":
				out["err:Confirmed"] = true
				out["ok"] = true
			default:
				out["err:"+cl] = true
			}
		}
		return out, "all-rejected"
	case rej > 0 && classes["Invalid"]*den == num*repl:
		out["err:Invalid"] = true
		return out, "threshold-reached-exactly"
	case rej > 0 && classes["Invalid"]*den > num*repl:
		out["err:Invalid"] = true
		return out, "threshold-reached"
	case rej > 0:
		out["ok"] = true
		return out, "below-threshold"
	}
	out["ok"] = true
	return out, "no-rejections"
}

// vdPeerState is what a scripted peer did and saw.
type vdPeerState struct {
	r Reply
	// first announcement during the call
	gotInv   bool
	invAt    time.Time
	gdAt     []time.Time // getdata messages sent
	txAt     []time.Time // transactions received (whole case)
	rejAt    []time.Time // rejects naming the transaction sent during the call
	otherRej int         // rejects naming another transaction
	dropped  bool
	badTx    string
	// every announcement of the transaction
	invs []vdInv
	// confirm phase
	confRej []time.Time
}

type vdInv struct {
	at      time.Time
	session int
	phase   string
}

func vdSet(m map[string]bool) string {
	var l []string
	for k := range m {
		l = append(l, k)
	}
	sort.Strings(l)
	return strings.Join(l, "|")
}

// ---------------------------------------------------------------- run

func vdRun(t *testing.T, c Case) kit.Verdict {
	var v kit.Verdict
	w := kit.BuildWorld(c.World)
	path := w.Br[0].Tip().Path()
	base := c.World.Base
	bt := pushtx.DefaultBroadcastTimeout
	if c.BroadcastMs > 0 {
		bt = time.Duration(c.BroadcastMs) * time.Millisecond
	}
	if c.ThrNum <= 0 || c.ThrDen <= 0 || len(c.Peers) == 0 || base < 1 || base >= len(path) {
		v.Harness = "malformed case"
		return v
	}

	// The transaction: one (unsigned) witness input, one output.
	tx := wire.NewMsgTx(2)
	tx.AddTxIn(&wire.TxIn{PreviousOutPoint: path[1].Created[0].Op, Sequence: wire.MaxTxInSequenceNum,
		Witness: wire.TxWitness{make([]byte, 71), w.Keys[0].Pub}})
	tx.AddTxOut(&wire.TxOut{Value: 4000, PkScript: w.Keys[1].Script})
	txHash := tx.TxHash()
	wtxHash := tx.WitnessHash()
	otherHash := chainhash.Hash(sha256.Sum256([]byte("c15-verdict-some-other-transaction")))

	oldThr := neutrino.QueryInvalidTxThreshold
	switch [2]int{c.ThrNum, c.ThrDen} {
	case [2]int{3, 5}:
		neutrino.QueryInvalidTxThreshold = 0.6
	case [2]int{1, 2}:
		neutrino.QueryInvalidTxThreshold = 0.5
	case [2]int{3, 4}:
		neutrino.QueryInvalidTxThreshold = 0.75
	default:
		neutrino.QueryInvalidTxThreshold = float32(c.ThrNum) / float32(c.ThrDen)
	}
	defer func() { neutrino.QueryInvalidTxThreshold = oldThr }()

	fail := func(sym, format string, a ...any) {
		v.Fail("C15/verdict/"+sym, format, a...)
		v.Logf("VIOLATION [%s] "+format, append([]any{sym}, a...)...)
	}

	var (
		mu       sync.Mutex
		phase    = "idle" // idle | call | reb | confirm | over
		callDone bool
		t0       time.Time
		ps       = make([]*vdPeerState, len(c.Peers))
	)
	for i := range ps {
		ps[i] = &vdPeerState{r: c.Peers[i]}
	}
	ms := func(at time.Time) int64 { return at.Sub(t0).Milliseconds() }

	mkReject := func(r Reply, h chainhash.Hash) *wire.MsgReject {
		m := wire.NewMsgReject(wire.CmdTx, wire.RejectCode(r.Code), r.Reason)
		m.Hash = h
		return m
	}
	mkGetData := func(r Reply) *wire.MsgGetData {
		gd := wire.NewMsgGetData()
		if r.Extra {
			_ = gd.AddInvVect(wire.NewInvVect(wire.InvTypeWitnessTx, &otherHash))
		}
		typ := wire.InvTypeWitnessTx
		if r.Legacy {
			typ = wire.InvTypeTx
		}
		_ = gd.AddInvVect(wire.NewInvVect(typ, &txHash))
		return gd
	}
	sendReject := func(p *netsim.Peer, st *vdPeerState, r Reply, h chainhash.Hash) {
		mu.Lock()
		if r.Other {
			st.otherRej++
		} else {
			st.rejAt = append(st.rejAt, time.Now())
		}
		mu.Unlock()
		if !p.Send(mkReject(r, h)) {
			mu.Lock()
			if r.Other {
				st.otherRej--
			} else {
				st.rejAt = st.rejAt[:len(st.rejAt)-1]
			}
			mu.Unlock()
		}
	}
	// inCall reports whether the call is still waiting (peers stop acting
	// on their plan once it has returned: nobody listens any more, and a
	// late message must not be taken for an answer to a rebroadcast).
	inCall := func() bool {
		mu.Lock()
		defer mu.Unlock()
		return phase == "call" && !callDone
	}

	cfg := netsim.Config{World: w, NumPeers: len(c.Peers), Prefill: base,
		Tweak: func(nc *neutrino.Config) {
			if c.BroadcastMs > 0 {
				nc.BroadcastTimeout = bt
			}
		}}
	for i := range c.Peers {
		cfg.Initial = append(cfg.Initial, i)
	}
	setup := func(s *netsim.Sim) {
		for i, p := range s.Peers {
			st := ps[i]
			p.SetView(path[base], false)
			p.Override = func(p *netsim.Peer, m wire.Message) bool {
				switch m := m.(type) {
				case *wire.MsgInv:
					mine := false
					for _, iv := range m.InvList {
						if (iv.Type == wire.InvTypeTx || iv.Type == wire.InvTypeWitnessTx) && iv.Hash == txHash {
							mine = true
						}
					}
					if !mine {
						return false
					}
					now := time.Now()
					mu.Lock()
					ph := phase
					if ph == "call" && callDone {
						ph = "reb"
					}
					first := ph == "call" && !st.gotInv
					if first {
						st.gotInv, st.invAt = true, now
					}
					st.invs = append(st.invs, vdInv{at: now, session: p.SessionCount(), phase: ph})
					mu.Unlock()
					switch {
					case first:
						r := st.r
						if r.Kind == "silent" {
							return true
						}
						go func() {
							if r.GDms > 0 {
								time.Sleep(time.Duration(r.GDms) * time.Millisecond)
							}
							if !inCall() && r.Kind == "bare" {
								// nobody listens any more, and a late
								// reject must not be taken for an answer
								// to a rebroadcast (a late getdata is
								// harmless and is sent)
								return
							}
							if r.Kind == "bare" {
								h := txHash
								if r.Other {
									h = otherHash
								}
								n := 1
								if r.RejDup {
									n = 2
								}
								for k := 0; k < n; k++ {
									sendReject(p, st, r, h)
								}
								return
							}
							n := 1
							if r.Dup {
								n = 2
							}
							for k := 0; k < n; k++ {
								// noted before it is on the wire: the
								// client's answer may arrive at once
								mu.Lock()
								st.gdAt = append(st.gdAt, time.Now())
								mu.Unlock()
								if !p.Send(mkGetData(r)) {
									mu.Lock()
									st.gdAt = st.gdAt[:len(st.gdAt)-1]
									mu.Unlock()
								}
							}
							if r.Kind == "drop" {
								mu.Lock()
								st.dropped = true
								mu.Unlock()
								p.Disconnect()
							}
						}()
					case ph == "reb" && c.Reb == "getdata", ph == "confirm":
						p.Send(mkGetData(Reply{}))
					}
					return true
				case *wire.MsgTx:
					if m.TxHash() != txHash {
						return false
					}
					now := time.Now()
					mu.Lock()
					ph := phase
					st.txAt = append(st.txAt, now)
					nth := len(st.txAt)
					if m.WitnessHash() != wtxHash {
						st.badTx = fmt.Sprintf("witness hash %v, want %v", m.WitnessHash(), wtxHash)
					}
					callTx := ph == "call" && !callDone && st.gotInv
					mu.Unlock()
					switch {
					case callTx && st.r.Kind == "reject" && nth == 1:
						r := st.r
						go func() {
							if r.RDms > 0 {
								time.Sleep(time.Duration(r.RDms) * time.Millisecond)
							}
							if !inCall() {
								return
							}
							h := txHash
							if r.Other {
								h = otherHash
							}
							n := 1
							if r.RejDup {
								n = 2
							}
							for k := 0; k < n; k++ {
								sendReject(p, st, r, h)
							}
						}()
					case ph == "confirm":
						if p.Send(mkReject(Reply{Code: uint8(wire.RejectDuplicate), Reason: "txn-already-known"}, txHash)) {
							mu.Lock()
							st.confRej = append(st.confRej, time.Now())
							mu.Unlock()
						}
					}
					return true
				}
				return false
			}
		}
	}

	var maxPlan time.Duration
	for _, r := range c.Peers {
		if d := time.Duration(r.GDms+r.RDms) * time.Millisecond; d > maxPlan {
			maxPlan = d
		}
	}
	res := netsim.Run(t, cfg, setup, func(s *netsim.Sim) {
		// The bubble's clock stops when this function returns: let the
		// peers' own timers run out first (they would be reported as
		// goroutines left behind).
		defer func() {
			mu.Lock()
			start := t0
			mu.Unlock()
			if start.IsZero() || s.Spin() != "" {
				return
			}
			if rem := time.Until(start.Add(maxPlan + time.Second)); rem > 0 {
				time.Sleep(rem)
			}
		}()
		if !s.Advance(2 * time.Second) {
			return
		}
		connected := func() map[int]int {
			out := map[int]int{}
			addrs := map[string]bool{}
			for _, sp := range s.CS.Peers() {
				addrs[sp.Addr()] = true
			}
			for i, p := range s.Peers {
				if p.Connected() && addrs[p.Addr.String()] {
					out[i] = p.SessionCount()
				}
			}
			return out
		}
		if n := len(connected()); n != len(c.Peers) {
			v.Class("setup:not-all-peers-connected")
			v.Logf("only %d of %d peers are connected when the call begins", n, len(c.Peers))
		}

		// ------------------------------------------------ the call
		var (
			callErr error
			retAt   time.Time
		)
		done := make(chan struct{})
		mu.Lock()
		phase = "call"
		t0 = time.Now()
		mu.Unlock()
		go func() {
			err := s.CS.SendTransaction(tx)
			mu.Lock()
			callErr, retAt, callDone = err, time.Now(), true
			mu.Unlock()
			close(done)
		}()
		bound := bt + vdRejectTimeout + time.Second
		stopDone := make(chan struct{})
		if c.StopAtMs >= 0 {
			v.Class("stop-race")
			if c.StopAtMs > 0 {
				if !s.Advance(time.Duration(c.StopAtMs) * time.Millisecond) {
					return
				}
			}
			go func() {
				defer close(stopDone)
				_ = s.StopClient()
			}()
		}
		if !s.Advance(bound) {
			return
		}
		select {
		case <-done:
		default:
			mu.Lock()
			phase = "over"
			mu.Unlock()
			fail("call-hangs", "SendTransaction has not returned %v after it was called (broadcast timeout %v, reject timeout %v, peers %v)", time.Since(t0), bt, vdRejectTimeout, c.Peers)
			return
		}
		mu.Lock()
		phase = "reb"
		obs := "ok"
		if callErr != nil {
			if be, ok := callErr.(*pushtx.BroadcastError); ok {
				obs = "err:" + be.Code.String()
			} else {
				obs = "err:other:" + callErr.Error()
			}
		}
		took := retAt.Sub(t0)
		mu.Unlock()
		v.Logf("SendTransaction returned %s after %v (err=%v); broadcast timeout %v, threshold %d/%d", obs, took, callErr, bt, c.ThrNum, c.ThrDen)
		switch {
		case callErr == nil:
			v.Class("verdict:ok")
		case strings.HasPrefix(obs, "err:other:"):
			v.Class("verdict:error:other")
		default:
			v.Class("verdict:error:%s", strings.ToLower(strings.TrimPrefix(obs, "err:")))
		}

		// ------------------------------------------------ verdict oracle
		// Roles each peer can have, from what it put on the wire and when.
		mu.Lock()
		alts := make([][]vdRole, len(ps))
		replied, rejInTime := 0, 0
		labels := map[string]bool{}
		for i, st := range ps {
			desc := "no inv received"
			role := []vdRole{{kind: 'N'}}
			if st.gotInv {
				desc = fmt.Sprintf("inv at %dms", ms(st.invAt))
			}
			// tri: 1 in time, 0 late, -1 cannot be told
			tri := func(d, limit time.Duration) int {
				switch {
				case d < limit-vdMargin:
					return 1
				case d > limit+vdMargin:
					return 0
				}
				return -1
			}
			and := func(a, b int) int {
				if a == 0 || b == 0 {
					return 0
				}
				if a == -1 || b == -1 {
					return -1
				}
				return 1
			}
			class := vdClassify(st.r.Code, st.r.Reason)
			switch {
			case len(st.gdAt) > 0:
				gd := st.gdAt[0]
				gdIn := tri(gd.Sub(t0), bt)
				desc += fmt.Sprintf(", getdata x%d at %dms", len(st.gdAt), ms(gd))
				if len(st.gdAt) > 1 {
					labels["getdata-twice"] = true
				}
				rejIn := 0
				if len(st.rejAt) > 0 && len(st.txAt) > 0 {
					rj := st.rejAt[0]
					rejIn = and(tri(rj.Sub(st.txAt[0]), vdRejectTimeout), tri(rj.Sub(t0), bt))
					desc += fmt.Sprintf(", tx at %dms, reject(%s) x%d at %dms", ms(st.txAt[0]), class, len(st.rejAt), ms(rj))
					if rejIn == 0 && gdIn == 1 {
						labels["late-reject"] = true
					}
				} else if len(st.txAt) > 0 {
					desc += fmt.Sprintf(", tx at %dms", ms(st.txAt[0]))
				}
				if st.otherRej > 0 {
					desc += ", reject for another tx"
					labels["reject-other-hash"] = true
				}
				var set []vdRole
				add := func(r vdRole) {
					for _, x := range set {
						if x == r {
							return
						}
					}
					set = append(set, r)
				}
				// primary reading first
				switch {
				case gdIn == 0:
					add(vdRole{kind: 'N'})
					labels["late-getdata"] = true
				case rejIn == 1:
					add(vdRole{kind: 'J', class: class})
				default:
					add(vdRole{kind: 'A'})
				}
				if gdIn == -1 {
					add(vdRole{kind: 'N'})
					labels["timing-edge"] = true
				}
				if rejIn == -1 {
					add(vdRole{kind: 'J', class: class})
					add(vdRole{kind: 'A'})
					labels["timing-edge"] = true
				}
				if st.dropped {
					desc += ", disconnected"
					add(vdRole{kind: 'N'})
					labels["disconnect-after-getdata"] = true
				}
				role = set
				if gdIn == 1 {
					replied++
					if rejIn == 1 {
						rejInTime++
					}
					if st.badTx != "" {
						desc += ", BAD TX: " + st.badTx
					}
				}
			case len(st.rejAt) > 0:
				rj := st.rejAt[0]
				in := tri(rj.Sub(t0), bt)
				desc += fmt.Sprintf(", reject(%s) x%d without getdata at %dms", class, len(st.rejAt), ms(rj))
				switch in {
				case 1:
					role = []vdRole{{kind: 'B', class: class}}
					labels["reject-without-getdata"] = true
					replied++
					rejInTime++
				case -1:
					role = []vdRole{{kind: 'B', class: class}, {kind: 'N'}}
					labels["timing-edge"] = true
				}
			case st.otherRej > 0:
				desc += ", reject for another tx without getdata"
				labels["reject-other-hash"] = true
			}
			if len(st.rejAt) > 1 {
				labels["reject-twice"] = true
			}
			alts[i] = role
			v.Logf("peer %d plan [%s]: %s -> %v", i, st.r, desc, role)
		}
		mu.Unlock()
		v.Nontrivial = replied >= 2 && rejInTime >= 1

		allowed := map[string]bool{}
		miscount := map[string]bool{}
		var primaryWhy string
		var primarySet [2]map[string]bool
		idx := make([]int, len(alts))
		for {
			roles := make([]vdRole, len(alts))
			primary := true
			for i := range alts {
				roles[i] = alts[i][idx[i]]
				if idx[i] != 0 {
					primary = false
				}
			}
			m3, _ := vdExpect(roles, 3, c.ThrNum, c.ThrDen)
			for k := range m3 {
				miscount[k] = true
			}
			for reading := 1; reading <= 2; reading++ {
				set, why := vdExpect(roles, reading, c.ThrNum, c.ThrDen)
				for k := range set {
					allowed[k] = true
				}
				if primary {
					primarySet[reading-1] = set
					if reading == 1 {
						primaryWhy = why
					}
				}
			}
			k := 0
			for k < len(idx) {
				idx[k]++
				if idx[k] < len(alts[k]) {
					break
				}
				idx[k] = 0
				k++
			}
			if k == len(idx) {
				break
			}
		}
		v.Class("rule:%s", primaryWhy)
		if primaryWhy == "threshold-reached-exactly" {
			v.Class("rule:threshold-reached-exactly:%d/%d", c.ThrNum, c.ThrDen)
		}
		for l := range labels {
			v.Class("%s", l)
		}
		for _, st := range ps {
			if st.gotInv && len(st.rejAt) > 0 {
				switch vdClassify(st.r.Code, st.r.Reason) {
				case "Mempool":
					labels["mempool"] = true
				case "Confirmed":
					labels["confirmed"] = true
				}
			}
		}
		if labels["mempool"] {
			v.Class("mempool")
		}
		if labels["confirmed"] {
			v.Class("confirmed")
		}
		okAllowed := allowed["ok"]
		errAllowed := len(allowed) > 1 || !okAllowed
		if okAllowed && errAllowed {
			v.Class("open")
		}
		v.Logf("admissible outcomes: %s (reading 1: %s, reading 2: %s); observed: %s", vdSet(allowed), vdSet(primarySet[0]), vdSet(primarySet[1]), obs)

		if took > bound-time.Second+vdMargin {
			// bound = broadcast timeout + reject timeout (+ the second
			// the harness waited on top)
			fail("call-late", "SendTransaction took %v, more than broadcast timeout %v + reject timeout %v", took, bt, vdRejectTimeout)
			return
		}
		if c.StopAtMs >= 0 {
			// Stop raced the call: any outcome, but it had to return.
			for k := 0; k < 60; k++ {
				select {
				case <-stopDone:
					k = 60
				default:
					if !s.Advance(time.Second) {
						return
					}
				}
			}
			select {
			case <-stopDone:
			default:
				v.Class("observation:stop-slow")
			}
			mu.Lock()
			phase = "over"
			mu.Unlock()
			return
		}
		if !allowed[obs] {
			var roles []string
			for i := range alts {
				roles = append(roles, fmt.Sprintf("p%d=%v", i, alts[i]))
			}
			detail := fmt.Sprintf("threshold %d/%d, broadcast timeout %v; peers (N no reply, A asked for the tx and did not reject in time, J asked and rejected, B rejected without asking): %s", c.ThrNum, c.ThrDen, bt, strings.Join(roles, " "))
			switch {
			case strings.HasPrefix(obs, "err:other:"):
				fail("unexpected-error", "SendTransaction returned %q, which is no broadcast error; %s", callErr, detail)
			case labels["reject-without-getdata"] && miscount[obs]:
				// The outcome is what one gets by counting the peers
				// that rejected without asking among the rejecting peers
				// but not among the replying ones.
				what := "failed with " + obs
				switch {
				case obs == "ok":
					what = "succeeded although every replying peer rejected the transaction in time"
				case !errAllowed:
					what = fmt.Sprintf("failed (%v) although not every replying peer rejected the transaction and the invalid share is below the threshold", callErr)
				}
				fail("unsolicited-reject-miscounted", "SendTransaction %s (admissible: %s, whether or not a peer that rejects without having asked for the transaction counts as a replying peer); %s", what, vdSet(allowed), detail)
			case obs != "ok" && !errAllowed:
				fail("spurious-failure", "SendTransaction failed (%v) although not every replying peer rejected the transaction and the invalid share is below the threshold (rule: %s); %s", callErr, primaryWhy, detail)
			case obs == "ok" && primaryWhy == "all-rejected":
				fail("all-rejected-but-ok", "SendTransaction succeeded although every replying peer rejected the transaction in time (admissible: %s); %s", vdSet(allowed), detail)
			case obs == "ok":
				fail("threshold-reached-but-ok", "SendTransaction succeeded although the share of replying peers calling the transaction invalid reaches the threshold (admissible: %s); %s", vdSet(allowed), detail)
			default:
				fail("wrong-error", "SendTransaction returned %s, admissible: %s (rule: %s); %s", obs, vdSet(allowed), primaryWhy, detail)
			}
			return
		}
		// A peer that asked for the transaction in time and stayed
		// connected has been sent it, unchanged.
		mu.Lock()
		for i, st := range ps {
			if len(st.gdAt) > 0 && !st.dropped && st.gdAt[0].Sub(t0) < bt-vdMargin {
				if len(st.txAt) == 0 {
					mu.Unlock()
					fail("getdata-unanswered", "peer %d asked for the transaction %dms after the announcement and was never sent it", i, ms(st.gdAt[0]))
					return
				}
				if st.badTx != "" {
					mu.Unlock()
					fail("tx-altered", "peer %d was sent a different serialisation of the transaction: %s", i, st.badTx)
					return
				}
			}
		}
		mu.Unlock()

		// ------------------------------------------------ rebroadcast
		success := callErr == nil
		lastInv := func() time.Time {
			mu.Lock()
			defer mu.Unlock()
			var l time.Time
			for _, st := range ps {
				if n := len(st.invs); n > 0 && st.invs[n-1].at.After(l) {
					l = st.invs[n-1].at
				}
			}
			return l
		}
		// quiet waits until no rebroadcast round can be in progress (a
		// round lasts at most the broadcast timeout; a trigger that finds
		// one in progress is dropped, which is documented behaviour).
		quiet := func() bool {
			for k := 0; k < 200; k++ {
				if time.Since(lastInv()) > bt+vdRejectTimeout+200*time.Millisecond {
					return true
				}
				if !s.Advance(500 * time.Millisecond) {
					return false
				}
			}
			return true
		}
		invsSince := func(i int, from time.Time) int {
			mu.Lock()
			defer mu.Unlock()
			n := 0
			for _, x := range ps[i].invs {
				if !x.at.Before(from) {
					n++
				}
			}
			return n
		}
		// afterReturn: announcements after the call returned.
		afterReturn := func() (int, string) {
			mu.Lock()
			defer mu.Unlock()
			n, first := 0, ""
			for i, st := range ps {
				for _, x := range st.invs {
					if x.at.After(retAt) || (x.phase != "call" && !x.at.Before(retAt)) {
						if n == 0 {
							first = fmt.Sprintf("peer %d, %v after the call returned", i, x.at.Sub(retAt))
						}
						n++
					}
				}
			}
			return n, first
		}
		height := base
		blockEvent := func() (bool, bool) {
			if height+1 >= len(path) {
				return false, true
			}
			height++
			for _, p := range s.Peers {
				p.SetView(path[height], true)
			}
			for k := 0; k < 60; k++ {
				if !s.Settle() {
					return false, false
				}
				if _, ft, err := s.CS.RegFilterHeaders.ChainTip(); err == nil && int(ft) >= height {
					return true, true
				}
				if !s.Advance(time.Second) {
					return false, false
				}
			}
			return false, true
		}
		roundTime := bt + vdRejectTimeout + time.Second
		doEvent := func(kind string) (delivered, ok bool) {
			switch kind {
			case "block":
				delivered, ok = blockEvent()
				if !ok {
					return
				}
				if !delivered {
					v.Class("observation:block-not-accepted")
					return
				}
				ok = s.Advance(roundTime)
			default:
				delivered = true
				ok = s.Advance(pushtx.DefaultRebroadcastInterval + roundTime)
			}
			return
		}
		seen := false
		for ei, ev := range c.Events {
			if !quiet() {
				return
			}
			snap := connected()
			from := time.Now()
			delivered, ok := doEvent(ev)
			if !ok {
				return
			}
			now := connected()
			v.Logf("event %d (%s) at %dms: delivered=%v, block/filter tip %d, connected before %v after %v", ei, ev, ms(from), delivered, height, snap, now)
			if !success {
				if n, first := afterReturn(); n > 0 {
					fail("rejected-tx-rebroadcast", "SendTransaction failed (%v), yet the transaction was announced again (%d inv messages; first: %s)", callErr, n, first)
					return
				}
				continue
			}
			if !delivered {
				continue
			}
			for i := range ps {
				if snap[i] == 0 || now[i] != snap[i] {
					continue // not connected all the time
				}
				if n := invsSince(i, from); n == 0 {
					fail("accepted-tx-not-rebroadcast/"+ev, "SendTransaction succeeded, but peer %d, connected all the time, was not sent an inv for the transaction within %v after a %s event at %dms", i, time.Since(from), ev, ms(from))
					return
				} else {
					seen = true
					v.Logf("  peer %d: %d inv(tx) since the event", i, n)
				}
			}
		}
		if seen {
			v.Class("rebroadcast-seen")
		}
		if !success {
			v.Class("never-rebroadcast")
			mu.Lock()
			phase = "over"
			mu.Unlock()
			return
		}
		if !c.Confirm {
			mu.Lock()
			phase = "over"
			mu.Unlock()
			return
		}

		// ------------------------------------------------ confirmed
		if !quiet() {
			return
		}
		mu.Lock()
		phase = "confirm"
		mu.Unlock()
		cFrom := time.Now()
		delivered, ok := doEvent("block")
		if !ok {
			return
		}
		if !delivered {
			return
		}
		// The round in which everybody said "confirmed".
		mu.Lock()
		var roundAt time.Time
		nInv, nRej := 0, 0
		for _, st := range ps {
			for _, x := range st.invs {
				if x.phase == "confirm" && (roundAt.IsZero() || x.at.Before(roundAt)) {
					roundAt = x.at
				}
			}
		}
		for _, st := range ps {
			for _, x := range st.invs {
				if x.phase == "confirm" && x.at.Equal(roundAt) {
					nInv++
				}
			}
			for _, r := range st.confRej {
				if r.Equal(roundAt) {
					nRej++
				}
			}
		}
		phase = "reb"
		mu.Unlock()
		v.Logf("confirm round at %dms (event at %dms): %d inv, %d rejects 'txn-already-known'", ms(roundAt), ms(cFrom), nInv, nRej)
		if nInv == 0 || nRej != nInv || nRej != len(s.CS.Peers()) {
			v.Class("observation:confirm-round-incomplete")
			mu.Lock()
			phase = "over"
			mu.Unlock()
			return
		}
		v.Class("confirm-round")
		late := func() (int, string) {
			mu.Lock()
			defer mu.Unlock()
			n, first := 0, ""
			for i, st := range ps {
				for _, x := range st.invs {
					if x.at.After(roundAt) {
						if n == 0 {
							first = fmt.Sprintf("peer %d, %v later", i, x.at.Sub(roundAt))
						}
						n++
					}
				}
			}
			return n, first
		}
		for _, ev := range []string{"block", "tick"} {
			if _, ok := doEvent(ev); !ok {
				return
			}
			if n, first := late(); n > 0 {
				fail("confirmed-tx-rebroadcast", "every connected peer answered the rebroadcast at %dms with 'txn-already-known', yet the transaction was announced again (%d inv messages; first: %s)", ms(roundAt), n, first)
				return
			}
		}
		mu.Lock()
		phase = "over"
		mu.Unlock()
	})
	mu.Lock()
	phase = "over"
	mu.Unlock()
	if res.Harness != "" {
		v.Harness = res.Harness
		return v
	}
	if res.Spin != "" {
		v.Class("abandoned:client-busy-loop")
		v.Logf("client goroutine busy-loops, case abandoned: %s", res.Spin)
		return v
	}
	if res.Leak != "" && v.Violation == "" {
		v.Class("observation:goroutine-left-after-stop")
		v.Logf("goroutines left blocked in the bubble after Stop: %s", res.Leak)
	}
	v.Class("mode:%s", c.Mode)
	v.Class("peers:%d", len(c.Peers))
	return v
}

func TestC15Verdict(t *testing.T) {
	kit.RunProp(t, kit.Prop[Case]{ID: "C15", Name: "verdict", Gen: vdGen, Run: vdRun})
}

func TestMain(m *testing.M) {
	code := m.Run()
	netsim.CleanupTemplates()
	os.Exit(code)
}
