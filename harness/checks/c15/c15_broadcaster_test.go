// Package c15: accepted transactions are rebroadcast in dependency order until
// confirmed (property C15).
//
// This file is part (a): the public pushtx.Broadcaster driven inside a
// testing/synctest bubble with a generated Broadcast callback and a hand-made
// block subscription. All identifiers of this file carry the prefix "bcast".
//
// How the oracle reads time. Inside the bubble virtual time advances only when
// every goroutine is durably blocked, so everything that happens at one
// virtual "instant" is causally closed before the next instant begins.
// Observations are therefore ordered exactly across instants; inside one
// instant only orders forced by happens-before are used and everything else
// is treated as unordered (the oracle then accepts every outcome that some
// order allows). The driver places its operations on whole milliseconds,
// callback latencies end on x.37 ms and ticker periods carry an extra
// microsecond, so that unrelated things rarely share an instant.
package c15

import (
	"crypto/sha256"
	"errors"
	"fmt"
	"runtime"
	"sort"
	"strings"
	"sync"
	"testing"
	"testing/synctest"
	"time"

	"github.com/btcsuite/btcd/chainhash/v2"
	"github.com/btcsuite/btcd/wire/v2"
	"github.com/lightninglabs/neutrino/blockntfns"
	"github.com/lightninglabs/neutrino/pushtx"
	"pgregory.net/rapid"

	"verifharness/kit"
)

// ---------------------------------------------------------------- case

// bcastOp is one step of the script. Every field is drawn for every op; a
// kind ignores the fields it does not need.
type bcastOp struct {
	// Kind: bcast | block | tick | confirm | wait | stop
	Kind string `json:"kind"`
	// Tx is the transaction (index) for bcast / confirm.
	Tx int `json:"tx"`
	// Out is the outcome the Broadcast callback gives to the first
	// attempt of a bcast: ok | mempool | invalid | fee | unknown |
	// confirmed | plain (an error that is not a BroadcastError).
	Out string `json:"out"`
	// Lat is the latency of that callback in units (0 = returns at once).
	Lat int `json:"lat"`
	// Gap is how many units the driver sleeps after issuing the op; 0
	// means the next op is issued concurrently, without waiting for
	// quiescence.
	Gap int `json:"gap"`
}

// bcastReb is the behaviour of the callback for one rebroadcast attempt.
type bcastReb struct {
	Out string `json:"out"`
	Lat int    `json:"lat"`
}

// bcastCase is the generated case.
type bcastCase struct {
	NTx   int    `json:"ntx"`
	Shape string `json:"shape"`
	// Parents[i] lists the transactions (all < i) an output of which tx i
	// spends.
	Parents [][]int `json:"parents"`
	// Interval is the rebroadcast interval in units.
	Interval int `json:"interval"`
	// UseMap: the callback returns a foreign error type which
	// Config.MapCustomBroadcastError translates to a BroadcastError.
	UseMap bool      `json:"use_map"`
	Ops    []bcastOp `json:"ops"`
	// Reb[i][k] is the callback behaviour for the k-th rebroadcast
	// attempt of tx i (attempts past the end succeed immediately). It is
	// indexed per transaction so that the behaviour does not depend on
	// the order in which the client walks its (unordered) map.
	Reb [][]bcastReb `json:"reb"`
}

const (
	bcastUnit    = time.Millisecond
	bcastLatFrac = 370 * time.Microsecond
)

func bcastLatency(units int) time.Duration {
	if units <= 0 {
		return 0
	}
	return time.Duration(units)*bcastUnit + bcastLatFrac
}

func bcastInterval(units int) time.Duration {
	return time.Duration(units)*bcastUnit + time.Microsecond
}

func bcastGen(t *rapid.T) bcastCase {
	var c bcastCase
	c.NTx = rapid.IntRange(1, 6).Draw(t, "ntx")
	c.Shape = rapid.SampledFrom([]string{"chain", "diamond", "random", "random", "fan", "independent"}).Draw(t, "shape")
	c.Parents = make([][]int, c.NTx)
	for i := 0; i < c.NTx; i++ {
		c.Parents[i] = []int{}
		if i == 0 {
			continue
		}
		switch c.Shape {
		case "chain":
			c.Parents[i] = []int{i - 1}
		case "fan":
			c.Parents[i] = []int{0}
		case "diamond":
			if i == c.NTx-1 && c.NTx >= 4 {
				for m := 1; m <= c.NTx-2; m++ {
					c.Parents[i] = append(c.Parents[i], m)
				}
			} else if c.NTx >= 4 {
				c.Parents[i] = []int{0}
			} else {
				c.Parents[i] = []int{i - 1}
			}
		case "random":
			max := i
			if max > 3 {
				max = 3
			}
			ps := rapid.SliceOfNDistinct(rapid.IntRange(0, i-1), 0, max, rapid.ID[int]).Draw(t, fmt.Sprintf("parents%d", i))
			sort.Ints(ps)
			c.Parents[i] = append(c.Parents[i], ps...)
		}
	}
	c.Interval = rapid.IntRange(3, 25).Draw(t, "interval")
	c.UseMap = rapid.Bool().Draw(t, "usemap")
	n := c.NTx
	var kinds []string
	for _, kw := range []struct {
		k string
		w int
	}{{"bcast", 15}, {"block", 11}, {"tick", 5}, {"confirm", 7}, {"wait", 1}, {"stop", 1}} {
		for j := 0; j < kw.w; j++ {
			kinds = append(kinds, kw.k)
		}
	}
	outs := []string{"ok", "ok", "ok", "ok", "ok", "ok", "ok", "ok", "mempool", "mempool", "mempool", "mempool",
		"invalid", "fee", "unknown", "confirmed", "plain"}
	c.Ops = rapid.SliceOfN(rapid.Custom(func(t *rapid.T) bcastOp {
		return bcastOp{
			Kind: rapid.SampledFrom(kinds).Draw(t, "kind"),
			Tx:   rapid.IntRange(0, n-1).Draw(t, "tx"),
			Out:  rapid.SampledFrom(outs).Draw(t, "out"),
			Lat:  rapid.SampledFrom([]int{0, 0, 0, 0, 1, 2, 3, 5}).Draw(t, "lat"),
			Gap:  rapid.SampledFrom([]int{0, 1, 1, 1, 2, 2, 3, 5, 8}).Draw(t, "gap"),
		}
	}), 4, 32).Draw(t, "ops")
	rebOuts := []string{"ok", "ok", "ok", "ok", "ok", "mempool", "mempool", "confirmed", "confirmed", "invalid", "plain"}
	c.Reb = make([][]bcastReb, n)
	for i := 0; i < n; i++ {
		c.Reb[i] = rapid.SliceOfN(rapid.Custom(func(t *rapid.T) bcastReb {
			return bcastReb{
				Out: rapid.SampledFrom(rebOuts).Draw(t, "rout"),
				Lat: rapid.SampledFrom([]int{0, 0, 0, 1, 2, 4}).Draw(t, "rlat"),
			}
		}), 0, 4).Draw(t, fmt.Sprintf("reb%d", i))
	}
	return c
}

// bcastBuildTxs builds the transactions of the case: tx i spends one private
// outpoint (which makes every hash distinct) and output i of each parent.
func bcastBuildTxs(c bcastCase) []*wire.MsgTx {
	txs := make([]*wire.MsgTx, c.NTx)
	for i := 0; i < c.NTx; i++ {
		tx := wire.NewMsgTx(2)
		ext := sha256.Sum256([]byte(fmt.Sprintf("c15-external-%d", i)))
		tx.AddTxIn(wire.NewTxIn(wire.NewOutPoint((*chainhash.Hash)(&ext), 0), nil, nil))
		for _, p := range c.Parents[i] {
			if p < 0 || p >= i {
				continue // tolerate hand-edited replay files
			}
			h := txs[p].TxHash()
			tx.AddTxIn(wire.NewTxIn(wire.NewOutPoint(&h, uint32(i)), nil, nil))
		}
		for o := 0; o < 8; o++ {
			tx.AddTxOut(wire.NewTxOut(int64(1000+i), []byte{0x51}))
		}
		txs[i] = tx
	}
	return txs
}

// ---------------------------------------------------------------- errors

// bcastForeignErr is what the callback returns when the case uses
// MapCustomBroadcastError.
type bcastForeignErr struct{ code pushtx.BroadcastErrorCode }

func (e *bcastForeignErr) Error() string { return fmt.Sprintf("foreign backend error %d", e.code) }

var bcastPlainErr = errors.New("c15: backend unreachable")

func bcastCode(out string) (pushtx.BroadcastErrorCode, bool) {
	switch out {
	case "mempool":
		return pushtx.Mempool, true
	case "invalid":
		return pushtx.Invalid, true
	case "fee":
		return pushtx.InsufficientFee, true
	case "unknown":
		return pushtx.Unknown, true
	case "confirmed":
		return pushtx.Confirmed, true
	}
	return 0, false
}

func bcastErrFor(out string, useMap bool) error {
	if out == "ok" {
		return nil
	}
	if out == "plain" {
		return bcastPlainErr
	}
	code, _ := bcastCode(out)
	if useMap {
		return &bcastForeignErr{code: code}
	}
	return &pushtx.BroadcastError{Code: code, Reason: "c15 " + out}
}

func bcastMapErr(err error) error {
	if f, ok := err.(*bcastForeignErr); ok {
		return &pushtx.BroadcastError{Code: f.code, Reason: "mapped " + f.Error()}
	}
	return err
}

// bcastAccepted: the client keeps (and rebroadcasts) a transaction whose
// first attempt succeeded or was answered "already in mempool".
func bcastAccepted(out string) bool { return out == "ok" || out == "mempool" }

// bcastGid returns the id of the calling goroutine. One rebroadcast runs in
// one goroutine of its own, which is how the oracle delimits rounds exactly
// (two rounds can start and finish inside the same virtual instant).
func bcastGid() uint64 {
	var buf [64]byte
	n := runtime.Stack(buf[:], false)
	var id uint64
	for _, ch := range buf[len("goroutine "):n] {
		if ch < '0' || ch > '9' {
			break
		}
		id = id*10 + uint64(ch-'0')
	}
	return id
}

// ---------------------------------------------------------------- observation

// bcastCall is one invocation of the Config.Broadcast callback.
type bcastCall struct {
	seqBegin, seqEnd int
	tx               int
	initial          bool // first attempt of a Broadcast() call
	op               int  // ... of this op
	gid              uint64
	begin, end       time.Duration
	ended            bool
	out              string
	nth              int // rebroadcast attempt number of this tx
}

// bcastOpRec is what the driver observed about one op.
type bcastOpRec struct {
	op       bcastOp
	issued   bool
	skipped  string
	invoked  time.Duration
	returned bool
	retAt    time.Duration
	err      error      // Broadcast result
	call     *bcastCall // first attempt made for a Broadcast op
	sent     bool       // block notification taken by the client
}

type bcastRun struct {
	c      bcastCase
	txs    []*wire.MsgTx
	byHash map[chainhash.Hash]int

	mu      sync.Mutex
	start   time.Time
	seq     int
	ops     []*bcastOpRec
	calls   []*bcastCall
	pending map[*wire.MsgTx]int // tx object handed to Broadcast() -> op
	nReb    []int
	unknown []string
	trace   []string
	cancels int
	done    chan struct{}
}

func (r *bcastRun) now() time.Duration { return time.Since(r.start) }

func bcastFmtAt(d time.Duration) string {
	return fmt.Sprintf("%8.3fms", float64(d)/float64(time.Millisecond))
}

// logf must be called with r.mu held.
func (r *bcastRun) logf(format string, a ...any) {
	r.trace = append(r.trace, bcastFmtAt(r.now())+" "+fmt.Sprintf(format, a...))
}

// callback is Config.Broadcast.
func (r *bcastRun) callback(tx *wire.MsgTx) error {
	gid := bcastGid()
	h := tx.TxHash()
	r.mu.Lock()
	idx, ok := r.byHash[h]
	if !ok {
		r.unknown = append(r.unknown, h.String())
		r.logf("callback with a transaction nobody submitted: %v", h)
		r.mu.Unlock()
		return nil
	}
	r.seq++
	call := &bcastCall{seqBegin: r.seq, tx: idx, gid: gid, begin: r.now(), op: -1}
	var lat int
	if op, ok := r.pending[tx]; ok {
		// The very object a caller passed to Broadcast(), seen for the
		// first time: this is the first attempt for that call.
		delete(r.pending, tx)
		call.initial, call.op = true, op
		call.out, lat = r.ops[op].op.Out, r.ops[op].op.Lat
		r.ops[op].call = call
	} else {
		k := r.nReb[idx]
		r.nReb[idx]++
		call.nth = k
		call.out = "ok"
		if k < len(r.c.Reb[idx]) {
			call.out, lat = r.c.Reb[idx][k].Out, r.c.Reb[idx][k].Lat
		}
	}
	r.calls = append(r.calls, call)
	if call.initial {
		r.logf("  callback(tx%d) first attempt of op %d -> %s after %d", idx, call.op, call.out, lat)
	} else {
		r.logf("  callback(tx%d) rebroadcast #%d in g%d -> %s after %d", idx, call.nth, gid, call.out, lat)
	}
	r.mu.Unlock()
	if d := bcastLatency(lat); d > 0 {
		time.Sleep(d)
	}
	r.mu.Lock()
	r.seq++
	call.seqEnd, call.end, call.ended = r.seq, r.now(), true
	if lat > 0 {
		r.logf("  callback(tx%d) returns %s", idx, call.out)
	}
	r.mu.Unlock()
	return bcastErrFor(call.out, r.c.UseMap)
}

// issue starts op i in a goroutine of its own and returns immediately.
func (r *bcastRun) issue(b *pushtx.Broadcaster, sub *blockntfns.Subscription, i int) {
	rec := r.ops[i]
	op := rec.op
	r.mu.Lock()
	rec.issued, rec.invoked = true, r.now()
	fin := func(format string, a ...any) {
		r.mu.Lock()
		rec.returned, rec.retAt = true, r.now()
		r.logf(format, a...)
		r.mu.Unlock()
	}
	switch op.Kind {
	case "bcast":
		tx := r.txs[op.Tx].Copy()
		r.pending[tx] = i
		r.logf("op %d: Broadcast(tx%d) [callback: %s after %d]", i, op.Tx, op.Out, op.Lat)
		go func() {
			err := b.Broadcast(tx)
			r.mu.Lock()
			rec.err = err
			r.mu.Unlock()
			fin("op %d: Broadcast(tx%d) returned %v", i, op.Tx, err)
		}()
	case "confirm":
		h := r.txs[op.Tx].TxHash()
		r.logf("op %d: MarkAsConfirmed(tx%d)", i, op.Tx)
		go func() {
			b.MarkAsConfirmed(h)
			fin("op %d: MarkAsConfirmed(tx%d) returned", i, op.Tx)
		}()
	case "stop":
		r.logf("op %d: Stop()", i)
		go func() {
			b.Stop()
			fin("op %d: Stop() returned", i)
		}()
	case "block":
		r.logf("op %d: block event", i)
		var hdr wire.BlockHeader
		hdr.Nonce = uint32(i)
		var n blockntfns.BlockNtfn = blockntfns.NewBlockConnected(hdr, uint32(100+i))
		if i%3 == 2 {
			n = blockntfns.NewBlockDisconnected(hdr, uint32(100+i), hdr)
		}
		go func() {
			select {
			case sub.Notifications <- n:
				r.mu.Lock()
				rec.sent = true
				r.mu.Unlock()
				fin("op %d: block event taken by the client", i)
			case <-r.done:
				fin("op %d: block event never taken", i)
			}
		}()
	}
	r.mu.Unlock()
}

// bcastExec runs the case and leaves the observations in r. It returns a
// harness error, if any.
func bcastExec(t *testing.T, r *bcastRun) (harness string, leak string) {
	defer func() {
		if p := recover(); p != nil {
			msg := fmt.Sprint(p)
			if strings.Contains(msg, "deadlock") {
				leak = msg
				return
			}
			buf := make([]byte, 1<<14)
			buf = buf[:runtime.Stack(buf, false)]
			harness = "panic in bubble: " + msg + "\n" + string(buf)
		}
	}()
	synctest.Test(t, func(t *testing.T) {
		r.start = time.Now()
		// made inside the bubble: a select on a channel from outside is not
		// a durable block and would freeze virtual time
		r.done = make(chan struct{})
		sub := &blockntfns.Subscription{
			// Unbuffered, like the channel the real subscription manager
			// hands out: a send completes at the instant the client takes
			// the notification.
			Notifications: make(chan blockntfns.BlockNtfn),
			Cancel: func() {
				r.mu.Lock()
				r.cancels++
				r.logf("  subscription cancelled by the client")
				r.mu.Unlock()
			},
		}
		cfg := &pushtx.Config{
			Broadcast:           r.callback,
			SubscribeBlocks:     func() (*blockntfns.Subscription, error) { return sub, nil },
			RebroadcastInterval: bcastInterval(r.c.Interval),
		}
		if r.c.UseMap {
			cfg.MapCustomBroadcastError = bcastMapErr
		}
		b := pushtx.NewBroadcaster(cfg)
		if err := b.Start(); err != nil {
			harness = "Start: " + err.Error()
			return
		}
		iv := bcastInterval(r.c.Interval)
		firstStop := -1
		for i := range r.ops {
			rec := r.ops[i]
			switch rec.op.Kind {
			case "wait":
			case "tick":
				// Sleep to the first whole unit after the next tick.
				now := r.now()
				next := (now/iv + 1) * iv
				target := (next/bcastUnit + 1) * bcastUnit
				r.mu.Lock()
				r.logf("op %d: wait for the tick at %s", i, bcastFmtAt(next))
				r.mu.Unlock()
				time.Sleep(target - now)
			case "stop":
				if firstStop >= 0 {
					// A second Stop while the first is still waiting
					// would park on sync.Once's mutex, which the bubble
					// cannot see as blocked (virtual time would freeze),
					// so it is only issued once the first has returned.
					synctest.Wait()
					r.mu.Lock()
					ret := r.ops[firstStop].returned
					r.mu.Unlock()
					if !ret {
						rec.skipped = "first Stop still running"
						break
					}
				} else {
					firstStop = i
				}
				r.issue(b, sub, i)
			default:
				r.issue(b, sub, i)
			}
			if rec.op.Gap > 0 {
				time.Sleep(time.Duration(rec.op.Gap) * bcastUnit)
			}
		}
		if firstStop < 0 {
			// The harness always ends with a Stop (last op record).
			panic("bcast: script without final stop")
		}
		// Let everything that can finish, finish.
		for k := 0; k < 400; k++ {
			synctest.Wait()
			r.mu.Lock()
			settled := r.ops[firstStop].returned
			for _, c := range r.calls {
				settled = settled && c.ended
			}
			r.mu.Unlock()
			if settled {
				break
			}
			time.Sleep(5 * bcastUnit)
		}
		close(r.done)
		synctest.Wait()
	})
	return
}

// ---------------------------------------------------------------- oracle

// bcastEvt is a change of the client's set of tracked transactions: an
// accepted first attempt adds, a confirmation removes. [lo,hi] are the
// instants between which the client's handler applied it.
type bcastEvt struct {
	add    bool
	lo, hi time.Duration
	begin  time.Duration // adds: when the first attempt began
	maybe  bool          // a removal that Stop may have pre-empted
	seq    int
	via    string
}

type bcastSpan struct{ lo, hi time.Duration }

type bcastRound struct {
	gid   uint64
	calls []*bcastCall
}

func (ro *bcastRound) start() time.Duration { return ro.calls[0].begin }
func (ro *bcastRound) last() *bcastCall     { return ro.calls[len(ro.calls)-1] }

type bcastOracle struct {
	r        *bcastRun
	v        *kit.Verdict
	busy     []bcastSpan // merged spans in which the handler may be occupied
	evts     [][]bcastEvt
	stopI    time.Duration // first Stop invoked
	stopR    time.Duration // first Stop returned (valid if stopDone)
	stopDone bool
}

// busyHi: something handed to the handler at x is taken at x when the handler
// is idle, otherwise no later than the end of the span of back-to-back first
// attempts that covers x.
func (o *bcastOracle) busyHi(x time.Duration) time.Duration {
	for _, s := range o.busy {
		if s.lo <= x && x <= s.hi {
			return s.hi
		}
	}
	return x
}

const (
	bcastBefore = iota
	bcastAmb
	bcastAfter
)

// rel places an event relative to something the handler did at instant t (a
// trigger). An accepted first attempt that began before t and ended at t is
// before it: the handler was inside the callback until then.
func (e bcastEvt) rel(t time.Duration) int {
	switch {
	case e.hi < t, e.add && e.hi == t && e.begin < t:
		return bcastBefore
	case e.lo > t:
		return bcastAfter
	}
	return bcastAmb
}

// bcastSurelyAfter: f was applied after e in every possible order.
func bcastSurelyAfter(e, f bcastEvt) bool {
	return f.lo > e.hi || (e.add && e.begin < e.hi && f.lo == e.hi && f.begin == f.lo)
}

// member says whether tx can be / can fail to be in the tracked set when the
// handler serves a trigger at instant t. The tracked set is: added by every
// accepted first attempt, removed by every confirmation (MarkAsConfirmed or a
// Confirmed answer to a rebroadcast); a rejected attempt changes nothing.
func (o *bcastOracle) member(tx int, t time.Duration) (canIn, canOut bool, lastAdd int) {
	var before []bcastEvt
	anyAdd := false
	lastAdd = -1
	for _, e := range o.evts[tx] {
		switch e.rel(t) {
		case bcastBefore:
			before = append(before, e)
			if e.add {
				anyAdd = true
				if e.seq > lastAdd {
					lastAdd = e.seq
				}
			}
		case bcastAmb:
			if e.add {
				canIn = true
			} else {
				canOut = true
			}
		}
	}
	if len(before) == 0 {
		canOut = true
	}
	for i, e := range before {
		last := true
		for j, f := range before {
			if i != j && bcastSurelyAfter(e, f) {
				last = false
				break
			}
		}
		if !last {
			continue
		}
		if e.add {
			canIn = true
		} else {
			canOut = true
			if e.maybe && anyAdd {
				canIn = true
			}
		}
	}
	return
}

func (o *bcastOracle) fail(sig, format string, a ...any) {
	o.v.Fail(sig, format, a...)
	o.v.Logf("VIOLATION [%s] %s", sig, fmt.Sprintf(format, a...))
}

func (o *bcastOracle) prepare() bool {
	r := o.r
	// Stop
	first := -1
	for i, rec := range r.ops {
		if rec.op.Kind == "stop" && rec.issued {
			first = i
			break
		}
	}
	if first < 0 {
		o.v.Harness = "no Stop was issued"
		return false
	}
	o.stopI = r.ops[first].invoked
	o.stopDone, o.stopR = r.ops[first].returned, r.ops[first].retAt

	// Spans in which the handler is (or may immediately become) occupied
	// by a first attempt: from the invocation of Broadcast() to the end of
	// its callback.
	var spans []bcastSpan
	for _, rec := range r.ops {
		if rec.op.Kind != "bcast" || !rec.issued {
			continue
		}
		switch {
		case rec.call != nil && rec.call.ended:
			spans = append(spans, bcastSpan{rec.invoked, rec.call.end})
		case rec.call == nil && rec.returned:
			spans = append(spans, bcastSpan{rec.invoked, rec.retAt})
		}
	}
	sort.Slice(spans, func(i, j int) bool { return spans[i].lo < spans[j].lo })
	for _, s := range spans {
		if n := len(o.busy); n > 0 && s.lo <= o.busy[n-1].hi {
			if s.hi > o.busy[n-1].hi {
				o.busy[n-1].hi = s.hi
			}
			continue
		}
		o.busy = append(o.busy, s)
	}

	o.evts = make([][]bcastEvt, r.c.NTx)
	for _, c := range r.calls {
		if !c.ended {
			continue
		}
		switch {
		case c.initial && bcastAccepted(c.out):
			o.evts[c.tx] = append(o.evts[c.tx], bcastEvt{add: true, lo: c.end, hi: c.end, begin: c.begin, seq: c.seqBegin, via: "accepted"})
		case !c.initial && c.out == "confirmed":
			hi := o.busyHi(c.end)
			o.evts[c.tx] = append(o.evts[c.tx], bcastEvt{lo: c.end, hi: hi, begin: c.end, maybe: o.stopI <= hi, seq: c.seqEnd, via: "rebroadcast"})
		}
	}
	for _, rec := range r.ops {
		if rec.op.Kind == "confirm" && rec.returned {
			o.evts[rec.op.Tx] = append(o.evts[rec.op.Tx], bcastEvt{lo: rec.retAt, hi: rec.retAt, begin: rec.retAt, via: "mark"})
		}
	}
	return true
}

// liveness: every Broadcast, MarkAsConfirmed and Stop call returns. The
// driver has waited until Stop returned and every callback ended; at that
// point no goroutine of the client is left, so a call that has not returned
// can never return.
func (o *bcastOracle) liveness() {
	r := o.r
	for i, rec := range r.ops {
		if !rec.issued || rec.returned {
			continue
		}
		switch rec.op.Kind {
		case "stop":
			o.fail("C15/stop/blocks-forever", "op %d: Stop() invoked at %s never returned", i, bcastFmtAt(rec.invoked))
		case "bcast":
			o.fail("C15/broadcast/blocks-forever", "op %d: Broadcast(tx%d) invoked at %s never returned", i, rec.op.Tx, bcastFmtAt(rec.invoked))
		case "confirm":
			switch {
			case rec.invoked >= o.stopI:
				o.v.Class("blocked/markasconfirmed-after-stop")
				o.fail("C15/markasconfirmed-after-stop/blocks-forever",
					"op %d: MarkAsConfirmed(tx%d) invoked at %s, Stop() invoked at %s: the call never returned",
					i, rec.op.Tx, bcastFmtAt(rec.invoked), bcastFmtAt(o.stopI))
			case o.busyInside(rec.invoked):
				// Invoked while the handler was inside a first attempt;
				// Stop() arrived before the handler came back.
				o.v.Class("blocked/markasconfirmed-racing-stop")
				o.fail("C15/markasconfirmed-racing-stop/blocks-forever",
					"op %d: MarkAsConfirmed(tx%d) invoked at %s while the handler was busy, Stop() invoked at %s: the call never returned",
					i, rec.op.Tx, bcastFmtAt(rec.invoked), bcastFmtAt(o.stopI))
			default:
				o.fail("C15/markasconfirmed/blocks-forever",
					"op %d: MarkAsConfirmed(tx%d) invoked at %s (handler idle, Stop() only at %s) never returned",
					i, rec.op.Tx, bcastFmtAt(rec.invoked), bcastFmtAt(o.stopI))
			}
		}
	}
}

func (o *bcastOracle) busyInside(x time.Duration) bool {
	for _, s := range o.busy {
		if s.lo <= x && x <= s.hi {
			return true
		}
	}
	return false
}

// results: what Broadcast() returned, against what its callback was told to
// answer. Documented behaviour: nil when the attempt succeeded or the
// transaction was already in the mempool, otherwise the (mapped) error of the
// attempt; ErrBroadcasterStopped once the broadcaster has been stopped. A call
// overlapping Stop() may get either.
func (o *bcastOracle) results() {
	r := o.r
	for i, rec := range r.ops {
		if rec.op.Kind != "bcast" || !rec.issued || !rec.returned {
			continue
		}
		stoppedOK := rec.err == pushtx.ErrBroadcasterStopped && o.stopI <= rec.retAt
		c := rec.call
		switch {
		case c == nil:
			if !stoppedOK {
				o.fail("C15/broadcast-result/no-attempt", "op %d: Broadcast(tx%d) returned %v without any broadcast attempt (Stop invoked at %s, return at %s)",
					i, rec.op.Tx, rec.err, bcastFmtAt(o.stopI), bcastFmtAt(rec.retAt))
			}
		case stoppedOK:
		case bcastAccepted(c.out):
			if rec.err != nil {
				o.fail("C15/broadcast-result/accepted-returns-error", "op %d: Broadcast(tx%d) returned %v although the attempt answered %s", i, rec.op.Tx, rec.err, c.out)
			}
		default:
			ok := rec.err != nil
			if code, coded := bcastCode(c.out); coded {
				ok = pushtx.IsBroadcastError(rec.err, code)
			} else if ok {
				ok = rec.err == bcastPlainErr
			}
			if !ok {
				o.fail("C15/broadcast-result/rejected-returns-other", "op %d: Broadcast(tx%d) returned %v although the attempt answered %s", i, rec.op.Tx, rec.err, c.out)
			}
		}
		if o.stopDone && rec.invoked > o.stopR {
			o.v.Class("after-stop/broadcast")
		}
	}
	// Stop halts the broadcaster: no attempt may begin after Stop returned.
	if o.stopDone {
		for _, c := range r.calls {
			if c.begin > o.stopR {
				o.fail("C15/callback-after-stop", "broadcast attempt of tx%d began at %s, after Stop() had returned at %s", c.tx, bcastFmtAt(c.begin), bcastFmtAt(o.stopR))
			}
		}
	}
	if len(r.unknown) > 0 {
		o.fail("C15/unknown-tx", "the client broadcast a transaction nobody submitted: %v", r.unknown)
	}
}

type bcastTrigger struct {
	lo, hi  time.Duration
	certain bool
	what    string
}

// rounds checks the rebroadcasts.
func (o *bcastOracle) rounds() (nontrivial bool) {
	r := o.r
	// One rebroadcast = the attempts (other than first attempts) made by
	// one goroutine.
	byGid := map[uint64]*bcastRound{}
	var rounds []*bcastRound
	for _, c := range r.calls { // r.calls is in seqBegin order
		if c.initial {
			continue
		}
		ro := byGid[c.gid]
		if ro == nil {
			ro = &bcastRound{gid: c.gid}
			byGid[c.gid] = ro
			rounds = append(rounds, ro)
		}
		ro.calls = append(ro.calls, c)
	}
	endHi := func(ro *bcastRound) time.Duration {
		l := ro.last()
		if !l.ended {
			return 1 << 62
		}
		if l.out == "confirmed" {
			// the round ends when the handler has taken the confirmation
			return o.busyHi(l.end)
		}
		return l.end
	}

	// Triggers: block events the client took, and ticks.
	var trig []bcastTrigger
	for i, rec := range r.ops {
		if rec.op.Kind == "block" && rec.sent {
			trig = append(trig, bcastTrigger{lo: rec.retAt, hi: rec.retAt, certain: rec.retAt < o.stopI, what: fmt.Sprintf("block event of op %d", i)})
		}
	}
	iv := bcastInterval(r.c.Interval)
	for k := 1; time.Duration(k)*iv <= o.stopI || (o.stopDone && time.Duration(k)*iv <= o.stopR); k++ {
		tau := time.Duration(k) * iv
		hi := o.busyHi(tau)
		// While the handler is occupied at most one tick stays pending, so
		// a tick that falls into a busy span is only a possible trigger.
		trig = append(trig, bcastTrigger{lo: tau, hi: hi, certain: hi == tau && tau < o.stopI, what: fmt.Sprintf("tick %d", k)})
	}

	// No two rebroadcasts run at the same time.
	for i := 1; i < len(rounds); i++ {
		p, n := rounds[i-1], rounds[i]
		if !p.last().ended || p.last().seqEnd > n.calls[0].seqBegin {
			o.fail("C15/round/overlap", "rebroadcast g%d began at %s while rebroadcast g%d was still running", n.gid, bcastFmtAt(n.start()), p.gid)
		}
	}

	// Every rebroadcast was started by a block event or a tick, each of
	// which starts at most one.
	perInstant := map[time.Duration]int{}
	for _, ro := range rounds {
		perInstant[ro.start()]++
	}
	for t, n := range perInstant {
		have := 0
		for _, tr := range trig {
			if tr.lo <= t && t <= tr.hi {
				have++
			}
		}
		if n > have {
			o.fail("C15/round/no-trigger", "%d rebroadcast(s) began at %s but only %d block event(s)/tick(s) can have been served then", n, bcastFmtAt(t), have)
		}
	}

	// Content and order of every rebroadcast.
	edgeSeen, edgeRev := false, false
	for _, ro := range rounds {
		t := ro.start()
		pos := map[int]int{}
		var names []string
		for k, c := range ro.calls {
			if _, dup := pos[c.tx]; dup {
				o.fail("C15/round/duplicate", "rebroadcast g%d at %s sent tx%d twice", ro.gid, bcastFmtAt(t), c.tx)
			}
			pos[c.tx] = k
			names = append(names, fmt.Sprintf("tx%d", c.tx))
		}
		truncated := o.stopI <= endHi(ro)
		exact := true
		lastAdd := map[int]int{}
		for tx := 0; tx < r.c.NTx; tx++ {
			canIn, canOut, la := o.member(tx, t)
			lastAdd[tx] = la
			_, present := pos[tx]
			if canIn && canOut {
				exact = false
			}
			switch {
			case present && !canIn:
				everAccepted := false
				for _, e := range o.evts[tx] {
					if e.add && e.rel(t) != bcastAfter {
						everAccepted = true
					}
				}
				if everAccepted {
					o.fail("C15/round/confirmed-tx-rebroadcast", "rebroadcast g%d began at %s and sent tx%d, which had been reported confirmed before (%s)", ro.gid, bcastFmtAt(t), tx, o.describe(tx))
				} else {
					o.fail("C15/round/rejected-tx-rebroadcast", "rebroadcast g%d began at %s and sent tx%d, no broadcast of which had been accepted (%s)", ro.gid, bcastFmtAt(t), tx, o.describe(tx))
				}
			case !present && !canOut && !truncated:
				o.fail("C15/round/missing-tx", "rebroadcast g%d began at %s with %v but without tx%d, which was accepted and not confirmed (%s)", ro.gid, bcastFmtAt(t), names, tx, o.describe(tx))
			}
		}
		for tx, k := range pos {
			for _, p := range r.c.Parents[tx] {
				kp, ok := pos[p]
				if !ok {
					continue
				}
				edgeSeen = true
				if lastAdd[p] > lastAdd[tx] {
					edgeRev = true
				}
				if kp > k {
					o.fail("C15/round/order", "rebroadcast g%d at %s sent %v: child tx%d before its parent tx%d", ro.gid, bcastFmtAt(t), names, tx, p)
				}
			}
		}
		if exact {
			o.v.Class("round/exact")
		} else {
			o.v.Class("round/some-membership-ambiguous")
		}
		if truncated {
			o.v.Class("round/overlaps-stop")
		}
		o.v.Logf("round g%d at %s: %v", ro.gid, bcastFmtAt(t), names)
	}

	// Every block event / tick served while no rebroadcast is running (and
	// something is tracked) starts one.
	for _, tr := range trig {
		if !tr.certain {
			o.v.Class("trigger/uncertain-or-after-stop")
			continue
		}
		t := tr.lo
		started, running := false, false
		for _, ro := range rounds {
			if ro.start() == t {
				started = true
			} else if ro.start() < t && endHi(ro) >= t {
				running = true
			}
		}
		var must []int
		for tx := 0; tx < r.c.NTx; tx++ {
			if _, canOut, _ := o.member(tx, t); !canOut {
				must = append(must, tx)
			}
		}
		switch {
		case started:
			o.v.Class("trigger/started-round")
		case running:
			o.v.Class("trigger/skipped-round-running")
		case len(must) == 0:
			o.v.Class("trigger/nothing-tracked")
		default:
			o.fail("C15/round/missing-round", "%s served at %s while no rebroadcast was running and %v were tracked, but no rebroadcast began", tr.what, bcastFmtAt(t), must)
		}
	}

	// Non-triviality: a dependency edge whose parent was accepted after the
	// child, both sent in one rebroadcast; or a confirmation between two
	// rebroadcasts (one sent the transaction, a later one began after it
	// was confirmed).
	confBetween := ""
	for tx := range o.evts {
		for _, e := range o.evts[tx] {
			if e.add {
				continue
			}
			prev, next := false, false
			for _, ro := range rounds {
				for _, c := range ro.calls {
					if c.tx == tx && c.begin <= e.lo {
						prev = true
					}
				}
				if ro.start() > e.hi {
					next = true
				}
			}
			if prev && next {
				confBetween = e.via
				o.v.Class("confirm-between-rounds/%s", e.via)
			}
		}
	}
	if edgeSeen {
		o.v.Class("edge-in-round")
	}
	if edgeRev {
		o.v.Class("edge-in-round/parent-accepted-after-child")
	}
	n := len(rounds)
	if n > 5 {
		n = 5
	}
	o.v.Class("rounds=%d%s", n, map[bool]string{true: "+", false: ""}[len(rounds) > 5])
	return edgeRev || confBetween != ""
}

func (o *bcastOracle) describe(tx int) string {
	var s []string
	evs := append([]bcastEvt{}, o.evts[tx]...)
	sort.SliceStable(evs, func(i, j int) bool { return evs[i].lo < evs[j].lo })
	for _, e := range evs {
		w := bcastFmtAt(e.lo)
		if e.hi != e.lo {
			w += ".." + bcastFmtAt(e.hi)
		}
		k := "confirmed(" + e.via + ")"
		if e.add {
			k = "accepted"
		}
		s = append(s, strings.TrimSpace(k+"@"+strings.TrimSpace(w)))
	}
	if len(s) == 0 {
		return "never accepted"
	}
	return strings.Join(s, ", ")
}

// ---------------------------------------------------------------- run

func bcastRunCase(t *testing.T, c bcastCase) kit.Verdict {
	var v kit.Verdict
	// tolerate hand-edited replay files
	if c.NTx < 1 || len(c.Parents) != c.NTx || len(c.Reb) != c.NTx || c.Interval < 1 {
		v.Harness = "malformed case"
		return v
	}
	r := &bcastRun{c: c, txs: bcastBuildTxs(c), byHash: map[chainhash.Hash]int{},
		pending: map[*wire.MsgTx]int{}, nReb: make([]int, c.NTx)}
	for i, tx := range r.txs {
		r.byHash[tx.TxHash()] = i
	}
	for _, op := range c.Ops {
		if op.Tx < 0 || op.Tx >= c.NTx {
			v.Harness = "malformed case"
			return v
		}
		r.ops = append(r.ops, &bcastOpRec{op: op})
	}
	// The run always ends with a Stop.
	r.ops = append(r.ops, &bcastOpRec{op: bcastOp{Kind: "stop"}})

	harness, leak := bcastExec(t, r)
	if harness != "" {
		v.Harness = harness
		return v
	}
	for _, l := range r.trace {
		v.Logf("%s", l)
	}
	o := &bcastOracle{r: r, v: &v}
	if !o.prepare() {
		return v
	}
	// The safety checks come first so that the (known) liveness finding
	// cannot mask another violation in the same case.
	if o.stopDone {
		o.results()
		v.Nontrivial = o.rounds()
	}
	o.liveness()
	blocked := 0
	for _, rec := range r.ops {
		if rec.issued && !rec.returned {
			blocked++
		}
	}
	if leak != "" && blocked == 0 {
		// goroutines left in the bubble that are not callers we know of
		v.Harness = "unexplained blocked goroutines: " + leak
	}
	if leak == "" && blocked > 0 {
		v.Harness = "calls recorded as not returned but the bubble ended cleanly"
	}

	// classification
	v.Class("shape:%s", c.Shape)
	stopKind := "idle"
	for _, cl := range r.calls {
		if cl.begin <= o.stopI && (!cl.ended || cl.end > o.stopI) {
			if cl.initial {
				stopKind = "during-first-attempt"
			} else {
				stopKind = "mid-round"
			}
		}
	}
	v.Class("stop/%s", stopKind)
	conc := false
	for i, rec := range r.ops {
		if !rec.issued {
			if rec.skipped != "" {
				v.Class("skipped-second-stop")
			}
			continue
		}
		if i > 0 && r.ops[i-1].op.Gap == 0 && r.ops[i-1].issued {
			conc = true
		}
		if rec.op.Kind == "confirm" && rec.invoked >= o.stopI {
			v.Class("after-stop/markasconfirmed")
		}
		if rec.op.Kind == "confirm" && rec.returned && rec.retAt > rec.invoked {
			v.Class("markasconfirmed/waited-for-busy-handler")
		}
		if rec.op.Kind == "bcast" && rec.call != nil && rec.call.begin > rec.invoked {
			v.Class("broadcast/queued-behind-busy-handler")
		}
	}
	if conc {
		v.Class("ops-issued-concurrently")
	}
	if r.cancels > 0 {
		v.Class("subscription-cancelled")
	}
	return v
}

func TestC15Broadcaster(t *testing.T) {
	kit.RunProp(t, kit.Prop[bcastCase]{ID: "C15", Name: "broadcaster", Gen: bcastGen, Run: bcastRunCase})
}
