package c14

// C08, unit import-crash: a crash at any point during a header import. The
// import of a correct, connecting pair of files runs on the wrapped database;
// the three durable files are copied right before and right after every index
// commit, and for every file growth seen at a pre-commit point torn lengths
// are synthesized. Every image is restarted: both stores open, each holds its
// earlier contents extended by a prefix of the file, the filter-header chain
// is not ahead of the block-header chain, and syncing resumes (the next
// headers of the chain can be appended to both stores and read back).

import (
	"bytes"
	"context"
	"fmt"
	"os"
	"path/filepath"
	"strings"
	"testing"

	"github.com/btcsuite/btcd/chainhash/v2"
	"github.com/btcsuite/btcd/wire/v2"
	"github.com/lightninglabs/neutrino/chainimport"
	"github.com/lightninglabs/neutrino/headerfs"
	"pgregory.net/rapid"

	"verifharness/checks/hdrstore"
	"verifharness/kit"
	"verifharness/netsim"
)

type CrashCase struct {
	World kit.WorldSpec `json:"world"`
	Pre   int           `json:"pre"`   // both stores hold heights 0..Pre
	PreF  int           `json:"pre_f"` // filter store may lag: 0..PreF (<= Pre)
	Start int           `json:"start"` // file window [Start..End], Start <= PreF+1
	End   int           `json:"end"`
	Batch int           `json:"batch"`
}

func genCrashCase(t *rapid.T) CrashCase {
	p := kit.GenParams(t)
	n := 3 + kit.Uni(t, "n", 60)
	c := CrashCase{World: kit.WorldSpec{P: p, Seed: uint64(kit.Uni(t, "wseed", 8)), Base: n, Pace: kit.Pick(t, "pace", []int{0, 1, 2, 3, 4})}}
	c.Pre = kit.Uni(t, "pre", n)
	c.PreF = c.Pre
	if kit.Uni(t, "lag", 4) == 0 {
		c.PreF = kit.Uni(t, "pref", c.Pre+1)
	}
	switch kit.Uni(t, "startsel", 4) {
	case 0:
		c.Start = 0
	case 1:
		c.Start = c.PreF + 1
	default:
		c.Start = kit.Uni(t, "start", c.PreF+2)
	}
	if c.Start > n {
		c.Start = n
	}
	lo := c.Pre + 1
	if lo > n {
		lo = n
	}
	c.End = lo + kit.Uni(t, "end", n-lo+1)
	c.Batch = 1 + kit.Uni(t, "batch", 24)
	return c
}

type importImage struct {
	im    *hdrstore.Image
	class string
}

func runCrash(t *testing.T, c CrashCase) (v kit.Verdict) {
	w := kit.BuildWorld(c.World)
	main := w.Br[0].Tip().Path()
	dir, err := netsim.NewDataDir(w, 0, 0)
	if err != nil {
		v.Harness = err.Error()
		return
	}
	defer os.RemoveAll(dir)
	env := &hdrstore.Env{Dir: dir, Params: w}
	if err := env.Open(); err != nil {
		v.Harness = "open: " + err.Error()
		return
	}
	defer env.Close()
	defer func() {
		if p := recover(); p != nil {
			v.Fail("C08/import/panic", "import panicked: %v", p)
		}
	}()
	n := len(main) - 1
	pre, preF := min(c.Pre, n), min(c.PreF, min(c.Pre, n))
	var bh []headerfs.BlockHeader
	for i := 1; i <= pre; i++ {
		h := main[i].Header
		bh = append(bh, headerfs.BlockHeader{BlockHeader: &h, Height: uint32(i)})
	}
	if len(bh) > 0 {
		if err := env.BS.WriteHeaders(bh...); err != nil {
			v.Harness = "prefill blocks: " + err.Error()
			return
		}
	}
	var fh []headerfs.FilterHeader
	for i := 1; i <= preF; i++ {
		fh = append(fh, headerfs.FilterHeader{FilterHash: main[i].FHdr, HeaderHash: main[i].Hash, Height: uint32(i)})
	}
	if len(fh) > 0 {
		if err := env.FS.WriteHeaders(fh...); err != nil {
			v.Harness = "prefill filters: " + err.Error()
			return
		}
	}
	end := min(c.End, n)
	start := min(c.Start, end)
	var bb, fb bytes.Buffer
	for h := start; h <= end; h++ {
		_ = main[h].Header.Serialize(&bb)
		fb.Write(main[h].FHdr[:])
	}
	bf, ff := filepath.Join(dir, "imp_block.bin"), filepath.Join(dir, "imp_filter.bin")
	if writeFile(bf, bb.Bytes(), w.Params.Net, headerfs.Block, start) != nil || writeFile(ff, fb.Bytes(), w.Params.Net, headerfs.RegularFilter, start) != nil {
		v.Harness = "cannot write the import files"
		return
	}

	var images []importImage
	var hookErr error
	sizes := func() (int64, int64) {
		a, _ := os.Stat(filepath.Join(dir, hdrstore.Files[1]))
		b, _ := os.Stat(filepath.Join(dir, hdrstore.Files[2]))
		return a.Size(), b.Size()
	}
	lastB, lastF := sizes()
	env.DB.SetHook(func(k int64, phase string) {
		im, err := env.Snapshot(fmt.Sprintf("import commit %d %s", k, phase))
		if err != nil {
			hookErr = err
			return
		}
		images = append(images, importImage{im: im, class: phase + "-commit"})
		if phase != "pre" {
			lastB, lastF = sizes()
			return
		}
		for fi, old := range []int64{lastB, lastF} {
			cur := int64(len(im.Data[fi+1]))
			sz := int64(80)
			if fi == 1 {
				sz = 32
			}
			if cur <= old {
				continue
			}
			k := (cur - old) / sz
			lens := map[int64]string{old + 1: "1-byte", old + sz/2: "mid-entry", cur - 1: "all-but-1-byte"}
			if k >= 2 {
				lens[old+(k/2)*sz] = "whole-entries"
				lens[old+(k/2)*sz+sz/3] = "entries-plus-part"
			}
			for l, cls := range lens {
				if l <= old || l >= cur {
					continue
				}
				ti := &hdrstore.Image{Label: fmt.Sprintf("import torn append (%s): file %s cut to %d of %d..%d", cls, hdrstore.Files[fi+1], l, old, cur)}
				ti.Data = im.Data
				ti.Data[fi+1] = im.Data[fi+1][:l]
				images = append(images, importImage{im: ti, class: "torn-append:" + cls})
			}
		}
	})
	imp, err := chainimport.NewHeadersImport(&chainimport.ImportOptions{
		TargetChainParams: w.Params, TargetBlockHeaderStore: env.BS, TargetFilterHeaderStore: env.FS,
		BlockHeadersSource: bf, FilterHeadersSource: ff, WriteBatchSizePerRegion: c.Batch,
	})
	var ierr error
	if err != nil {
		ierr = err
	} else {
		_, ierr = imp.Import(context.Background())
	}
	env.DB.SetHook(nil)
	if hookErr != nil {
		v.Harness = "snapshot: " + hookErr.Error()
		return
	}
	v.Logf("pre=(%d,%d) file=[%d..%d] batch=%d -> err=%v, %d crash images", pre, preF, start, end, c.Batch, ierr, len(images))
	if ierr != nil {
		// C14's business (e.g. refused because the stores are not level)
		v.Class("import-refused")
	} else {
		v.Class("import-ok")
	}
	if preF < pre {
		v.Class("pre:filter-lags")
	}
	limit := 40
	if kit.Thorough() {
		limit = 150
	}
	stride := 1
	if len(images) > limit {
		stride = (len(images) + limit - 1) / limit
	}
	checked := 0
	for k, ci := range images {
		if k%stride != 0 {
			continue
		}
		checked++
		v.Class("crash:%s", ci.class)
		if d := checkImportImage(ci.im, w, main, pre, preF, end); d != "" {
			sym := d
			if j := strings.IndexByte(sym, ':'); j > 0 {
				sym = sym[:j]
			}
			v.Fail("C08/import/"+ci.class+"/"+sym, "crash at [%s]: %s", ci.im.Label, d)
			v.Logf("VIOLATION at [%s]: %s", ci.im.Label, d)
			break
		}
	}
	v.Count("crash_images", checked)
	v.Nontrivial = ierr == nil && checked > 2
	return
}

func checkImportImage(im *hdrstore.Image, w *kit.World, main []*kit.Node, pre, preF, end int) string {
	dir, err := im.Materialise()
	if err != nil {
		return "harness: " + err.Error()
	}
	defer os.RemoveAll(dir)
	e := &hdrstore.Env{Dir: dir, Params: w}
	if err := e.Open(); err != nil {
		return "open-fails: stores do not open after the crash: " + err.Error()
	}
	defer e.Close()
	_, bt, err := e.BS.ChainTip()
	if err != nil {
		return "block-tip: " + err.Error()
	}
	_, ft, err := e.FS.ChainTip()
	if err != nil {
		return "filter-tip: filter ChainTip fails after the crash: " + err.Error()
	}
	if int(bt) < pre || int(bt) > max(pre, end) || int(ft) < preF || int(ft) > max(preF, end) {
		return fmt.Sprintf("wrong-content: tips %d/%d are outside what the import can have written (before: %d/%d, file ends at %d)", bt, ft, pre, preF, end)
	}
	if ft > bt {
		return fmt.Sprintf("filter-ahead: filter tip %d is ahead of block tip %d", ft, bt)
	}
	m := &hdrstore.Model{Gone: map[chainhash.Hash]bool{}}
	for h := 0; h <= int(bt); h++ {
		m.Blocks = append(m.Blocks, main[h].Header)
	}
	for h := 0; h <= int(ft); h++ {
		m.Filters = append(m.Filters, main[h].FHdr)
	}
	if d := hdrstore.Compare(e.BS, e.FS, m); d != "" {
		return "wrong-content: stores do not hold their earlier contents extended by a prefix of the file: " + d
	}
	// Syncing resumes: the next headers can be appended and read back.
	if int(bt)+1 < len(main) {
		h := main[bt+1].Header
		if err := e.BS.WriteHeaders(headerfs.BlockHeader{BlockHeader: &h, Height: bt + 1}); err != nil {
			return "resume-append-fails: appending a block header after restart fails: " + err.Error()
		}
		m.Blocks = append(m.Blocks, wire.BlockHeader(h))
	}
	if int(ft)+1 < len(m.Blocks) {
		nx := main[ft+1]
		if err := e.FS.WriteHeaders(headerfs.FilterHeader{FilterHash: nx.FHdr, HeaderHash: nx.Hash, Height: ft + 1}); err != nil {
			return "resume-append-fails: appending a filter header after restart fails: " + err.Error()
		}
		m.Filters = append(m.Filters, nx.FHdr)
	}
	if d := hdrstore.Compare(e.BS, e.FS, m); d != "" {
		return "resume-corrupt: after appending to the restarted stores: " + d
	}
	return ""
}

func TestC08Import(t *testing.T) {
	kit.RunProp(t, kit.Prop[CrashCase]{ID: "C08", Name: "import-crash", Gen: genCrashCase, Run: runCrash})
}
