// Package c14: a header import leaves the stores equal to the file, or
// consistent on failure (property C14).
package c14

import (
	"bytes"
	"context"
	"fmt"
	"os"
	"path/filepath"
	"testing"

	"github.com/btcsuite/btcd/chainhash/v2"
	"github.com/btcsuite/btcd/wire/v2"
	"github.com/lightninglabs/neutrino/chainimport"
	"github.com/lightninglabs/neutrino/chainsync"
	"github.com/lightninglabs/neutrino/headerfs"
	"pgregory.net/rapid"

	"verifharness/checks/hdrstore"
	"verifharness/kit"
	"verifharness/netsim"
)

type Case struct {
	World kit.WorldSpec `json:"world"`
	// Target stores before the import: block / filter heights, taken from
	// the main chain, or (PreBranch) from branch 1 above its fork point.
	PreB      int  `json:"pre_b"`
	PreF      int  `json:"pre_f"`
	PreBranch bool `json:"pre_branch,omitempty"`
	// File windows (heights of the main chain).
	Start  int `json:"start"`
	End    int `json:"end"`
	FStart int `json:"fstart"`
	FEnd   int `json:"fend"`
	Batch  int `json:"batch"`
	// Defects of the files.
	WrongMagic bool   `json:"wrong_magic,omitempty"`
	SwapTypes  bool   `json:"swap_types,omitempty"`
	MutK       int    `json:"mut_k,omitempty"`
	Mut        string `json:"mut,omitempty"`
	// FlipFile "b"/"f" flips a byte of that file at FlipPos (mod size).
	FlipFile string `json:"flip_file,omitempty"`
	FlipPos  int    `json:"flip_pos,omitempty"`
	// FlipSel aims the flip at one entry of the file: "" (anywhere) | first
	// | last | tip (the height of the lower store tip: the end of the
	// overlap between file and stores) | tip-1 | tip+1. FlipPos then selects
	// the byte inside that entry. Falls back to "anywhere" when the file does
	// not hold that height.
	FlipSel string `json:"flip_sel,omitempty"`
	// FailCommit > 0: the FailCommit-th database commit of the import fails.
	FailCommit int `json:"fail_commit,omitempty"`
	// FileFail "b"/"f": the FileFailNth write to that store's flat file
	// during the import fails after FileFailCut bytes.
	FileFail    string `json:"file_fail,omitempty"`
	FileFailNth int    `json:"file_fail_nth,omitempty"`
	FileFailCut int    `json:"file_fail_cut,omitempty"`
	// HardH > 0: the network has a hard-coded filter-header checkpoint at
	// that height; HardMatch: its value is the main chain's filter header
	// there (otherwise a value no file can carry).
	// SeamAfterBurst: the stores end right after a run of blocks whose
	// miners' clocks ran far ahead (the first such place of the generated
	// chain at or above height 11 is taken instead of PreB/PreF/Start), so
	// that the median time of the file's first headers is decided by
	// stored headers.
	SeamAfterBurst bool `json:"seam_after_burst,omitempty"`
	HardH          int  `json:"hard_h,omitempty"`
	HardMatch      bool `json:"hard_match,omitempty"`
}

func genCase(t *rapid.T) Case {
	p := kit.GenParams(t)
	n := rapid.IntRange(3, 90).Draw(t, "n")
	ws := kit.WorldSpec{P: p, Seed: rapid.Uint64Range(0, 7).Draw(t, "wseed"), Base: n, Pace: kit.Pick(t, "pace", []int{0, 1, 2, 3, 4})}
	c := Case{}
	c.PreB = rapid.IntRange(0, n).Draw(t, "preb")
	switch kit.Uni(t, "prefsel", 3) {
	case 0:
		c.PreF = c.PreB
	default:
		c.PreF = rapid.IntRange(0, n).Draw(t, "pref")
	}
	if kit.Uni(t, "prebranch", 6) == 0 && c.PreB >= 2 {
		at := rapid.IntRange(0, c.PreB-1).Draw(t, "forkat")
		ws.Branches = []kit.BranchSpec{{Parent: 0, At: at, Len: n - at, Pace: 1}}
		c.PreBranch = true
	}
	c.World = ws
	switch kit.Uni(t, "startsel", 5) {
	case 0:
		c.Start = 0
	case 1:
		c.Start = 1
	case 2:
		c.Start = min(c.PreB, c.PreF) + 1 // exactly the next height
		if c.Start > n {
			c.Start = n
		}
	default:
		c.Start = rapid.IntRange(0, n).Draw(t, "start")
	}
	c.End = rapid.IntRange(c.Start, n).Draw(t, "end")
	if kit.Uni(t, "endtip", 2) == 0 {
		c.End = n
	}
	c.FStart, c.FEnd = c.Start, c.End
	if kit.Uni(t, "fmismatch", 10) == 0 {
		c.FStart = rapid.IntRange(0, c.End).Draw(t, "fstart")
		c.FEnd = rapid.IntRange(c.FStart, n).Draw(t, "fend")
	}
	c.Batch = rapid.IntRange(1, 40).Draw(t, "batch")
	if kit.Uni(t, "seam", 8) == 0 && n >= 16 {
		// The seam between stored headers and file: level stores with at
		// least eleven headers, a file that starts at the very next height,
		// bursty clocks, and a header among the first eleven of the file
		// whose timestamp is not after the median of its true eleven
		// predecessors - most of which are stored, not in the file. The
		// validation context of the file's first headers must reach back
		// into the stores.
		c.World.Pace = 4
		c.World.Branches = nil
		c.PreBranch = false
		c.PreB = rapid.IntRange(11, n-3).Draw(t, "seampre")
		c.PreF = c.PreB
		c.Start, c.End = c.PreB+1, n
		c.FStart, c.FEnd = c.Start, c.End
		c.WrongMagic, c.SwapTypes, c.FlipFile, c.FailCommit, c.FileFail = false, false, "", 0, ""
		c.Mut = kit.MutMTP
		c.MutK = rapid.IntRange(0, min(10, c.End-c.Start)).Draw(t, "seamk")
		c.SeamAfterBurst = rapid.Bool().Draw(t, "seamburst")
		c.HardH = 0
		return c
	}
	if kit.Uni(t, "hard", 4) == 0 {
		c.HardH = rapid.IntRange(1, n).Draw(t, "hardh")
		if kit.Uni(t, "hardnear", 2) == 0 {
			// inside the part of the file that has to be appended
			c.HardH = min(n, max(1, min(c.PreB, c.PreF)+rapid.IntRange(0, 4).Draw(t, "hardoff")))
		}
		c.HardMatch = rapid.Bool().Draw(t, "hardmatch")
	}
	switch kit.Uni(t, "defect", 12) {
	case 0:
		c.WrongMagic = true
	case 1:
		c.SwapTypes = true
	case 2, 3:
		c.Mut = kit.GenMut(t, "mut")
		c.MutK = rapid.IntRange(0, c.End-c.Start).Draw(t, "mutk")
	case 4, 8, 9:
		c.FlipFile = kit.Pick(t, "flipfile", []string{"b", "f"})
		c.FlipPos = rapid.IntRange(0, 1<<20).Draw(t, "flippos")
		c.FlipSel = kit.Pick(t, "flipsel", []string{"", "first", "last", "tip", "tip", "tip-1", "tip+1"})
	case 5, 6:
		c.FailCommit = rapid.IntRange(1, 8).Draw(t, "failcommit")
	case 7:
		c.FileFail = kit.Pick(t, "filefail", []string{"b", "f"})
		c.FileFailNth = rapid.IntRange(1, 4).Draw(t, "filefailnth")
		c.FileFailCut = kit.Pick(t, "filefailcut", []int{0, 1, 17, 32, 40, 79, 80, 81, 200, 1 << 20})
	}
	return c
}

func writeFile(path string, data []byte, magic wire.BitcoinNet, typ headerfs.HeaderType, start int) error {
	if err := os.WriteFile(path, data, 0o644); err != nil {
		return err
	}
	return chainimport.AddHeadersImportMetadata(path, magic, 0, typ, uint32(start))
}

func runCase(t *testing.T, c Case) (v kit.Verdict) {
	w := kit.BuildWorld(c.World)
	main := w.Br[0].Tip().Path()
	prePath := main
	if c.PreBranch && len(w.Br) > 1 {
		prePath = w.Br[1].Tip().Path()
	}
	dir, err := netsim.NewDataDir(w, 0, 0)
	if err != nil {
		v.Harness = err.Error()
		return
	}
	defer os.RemoveAll(dir)
	env := &hdrstore.Env{Dir: dir, Params: w}
	if err := env.Open(); err != nil {
		v.Harness = "open: " + err.Error()
		return
	}
	defer env.Close()
	defer func() {
		if p := recover(); p != nil {
			v.Fail("C14/panic", "import panicked: %v", p)
		}
	}()

	// pre-fill
	var bh []headerfs.BlockHeader
	var fh []headerfs.FilterHeader
	// The filter index resolves heights through the block index, so the
	// filter store can lag but never lead the block store.
	if c.SeamAfterBurst {
		// first height h >= 11 such that header h and at least five of
		// the eleven newest headers carry later timestamps than the header
		// that follows
		for h := 11; h+4 < len(main); h++ {
			later := 0
			for k := 0; k < 11; k++ {
				if main[h-k].Header.Timestamp.After(main[h+1].Header.Timestamp) {
					later++
				}
			}
			if later >= 5 && main[h].Header.Timestamp.After(main[h+1].Header.Timestamp) {
				c.PreB, c.PreF = h, h
				c.Start, c.FStart = h+1, h+1
				c.End, c.FEnd = len(main)-1, len(main)-1
				c.MutK = min(c.MutK, c.End-c.Start)
				v.Class("seam:after-burst")
				break
			}
		}
	}
	preB := min(c.PreB, len(prePath)-1)
	preF := min(c.PreF, preB)
	for i := 1; i <= max(preB, preF); i++ {
		if i <= preB {
			h := prePath[i].Header
			bh = append(bh, headerfs.BlockHeader{BlockHeader: &h, Height: uint32(i)})
		}
	}
	if len(bh) > 0 {
		if err := env.BS.WriteHeaders(bh...); err != nil {
			v.Harness = "prefill blocks: " + err.Error()
			return
		}
	}
	for i := 1; i <= preF; i++ {
		fh = append(fh, headerfs.FilterHeader{FilterHash: prePath[i].FHdr, HeaderHash: prePath[i].Hash, Height: uint32(i)})
	}
	if len(fh) > 0 {
		if err := env.FS.WriteHeaders(fh...); err != nil {
			v.Harness = "prefill filters: " + err.Error()
			return
		}
	}
	model := func(bTip, fTip int, bSrc func(h int) wire.BlockHeader, fSrc func(h int) chainhash.Hash) *hdrstore.Model {
		m := &hdrstore.Model{Gone: map[chainhash.Hash]bool{}}
		for h := 0; h <= bTip; h++ {
			m.Blocks = append(m.Blocks, bSrc(h))
		}
		for h := 0; h <= fTip; h++ {
			m.Filters = append(m.Filters, fSrc(h))
		}
		return m
	}
	preBSrc := func(h int) wire.BlockHeader { return prePath[h].Header }
	preFSrc := func(h int) chainhash.Hash { return prePath[h].FHdr }
	if d := hdrstore.Compare(env.BS, env.FS, model(preB, preF, preBSrc, preFSrc)); d != "" {
		v.Harness = "pre-filled stores disagree with the model: " + d
		return
	}

	// files
	end := min(c.End, len(main)-1)
	start := min(c.Start, end)
	fstart, fend := min(c.FStart, len(main)-1), min(c.FEnd, len(main)-1)
	if fstart > fend {
		fstart = fend
	}
	nodes := main[start : end+1]
	hdrs := make([]*wire.BlockHeader, len(nodes))
	for i, n := range nodes {
		h := n.Header
		hdrs[i] = &h
	}
	mutated := false
	if c.Mut != "" && start+c.MutK >= 1 && c.MutK < len(nodes) {
		hdrs = w.Batch(nodes, c.MutK, c.Mut)
		mutated = true
	}
	var bb, fb bytes.Buffer
	for _, h := range hdrs {
		_ = h.Serialize(&bb)
	}
	for h := fstart; h <= fend; h++ {
		fb.Write(main[h].FHdr[:])
	}
	bdata, fdata := bb.Bytes(), fb.Bytes()
	flipped := false
	flipOff := func(size, entry, first, last int) int {
		h := -1
		switch c.FlipSel {
		case "first":
			h = first
		case "last":
			h = last
		case "tip":
			h = min(c.PreB, c.PreF)
		case "tip-1":
			h = min(c.PreB, c.PreF) - 1
		case "tip+1":
			h = min(c.PreB, c.PreF) + 1
		}
		if h < first || h > last || (h-first+1)*entry > size {
			return c.FlipPos % size
		}
		v.Class("flip-aimed:%s/%s", c.FlipFile, c.FlipSel)
		return (h-first)*entry + c.FlipPos%entry
	}
	if c.FlipFile == "b" && len(bdata) > 0 {
		bdata[flipOff(len(bdata), 80, start, end)] ^= 0x40
		flipped = true
	}
	if c.FlipFile == "f" && len(fdata) > 0 {
		fdata[flipOff(len(fdata), 32, fstart, fend)] ^= 0x40
		flipped = true
	}
	var fileB []wire.BlockHeader
	for off := 0; off+80 <= len(bdata); off += 80 {
		var h wire.BlockHeader
		_ = h.Deserialize(bytes.NewReader(bdata[off : off+80]))
		fileB = append(fileB, h)
	}
	var fileF []chainhash.Hash
	for off := 0; off+32 <= len(fdata); off += 32 {
		var h chainhash.Hash
		copy(h[:], fdata[off:off+32])
		fileF = append(fileF, h)
	}
	magic := w.Params.Net
	if c.WrongMagic {
		magic = wire.MainNet
	}
	bt, ft := headerfs.Block, headerfs.RegularFilter
	if c.SwapTypes {
		bt, ft = ft, bt
	}
	bf, ff := filepath.Join(dir, "imp_block.bin"), filepath.Join(dir, "imp_filter.bin")
	if err := writeFile(bf, bdata, magic, bt, start); err != nil {
		v.Harness = err.Error()
		return
	}
	if err := writeFile(ff, fdata, magic, ft, fstart); err != nil {
		v.Harness = err.Error()
		return
	}

	doImport := func(bfile, ffile string, batch int) error {
		imp, err := chainimport.NewHeadersImport(&chainimport.ImportOptions{
			TargetChainParams: w.Params, TargetBlockHeaderStore: env.BS, TargetFilterHeaderStore: env.FS,
			BlockHeadersSource: bfile, FilterHeadersSource: ffile, WriteBatchSizePerRegion: batch,
		})
		if err != nil {
			return fmt.Errorf("NewHeadersImport: %w", err)
		}
		_, err = imp.Import(context.Background())
		return err
	}

	var hardVal chainhash.Hash
	hardH := 0
	if c.HardH > 0 && c.HardH < len(main) {
		hardH = c.HardH
		hardVal = main[hardH].FHdr
		if !c.HardMatch {
			hardVal = chainhash.HashH(append([]byte("no-such-filter-header"), hardVal[:]...))
			v.Class("hard:mismatch")
		} else {
			v.Class("hard:match")
		}
		hv := hardVal
		chainsync.VerifSetFilterHeaderCheckpoints(w.Params.Net, map[uint32]*chainhash.Hash{uint32(hardH): &hv})
		defer chainsync.VerifSetFilterHeaderCheckpoints(w.Params.Net, nil)
	}
	if c.FailCommit > 0 {
		env.DB.FailAt = env.DB.Commits + int64(c.FailCommit)
	}
	fileFaultFired := func() bool { return false }
	if c.FileFail != "" {
		var st any = env.BS
		if c.FileFail == "f" {
			st = env.FS
		}
		f, err := hdrstore.ArmFileFault(st, c.FileFailNth, c.FileFailCut)
		if err != nil {
			v.Harness = "file fault: " + err.Error()
			return
		}
		fileFaultFired = f
		defer hdrstore.DisarmFileFault(st)
	}
	ierr := doImport(bf, ff, c.Batch)
	env.DB.FailAt = 0
	if c.FileFail != "" {
		fired := fileFaultFired()
		hdrstore.DisarmFileFault(env.BS)
		hdrstore.DisarmFileFault(env.FS)
		fileFaultFired = func() bool { return fired }
		if fired {
			v.Class("fault:file-write")
			if ierr == nil {
				v.Fail("C14/file-fault-swallowed", "a write to the %s flat file failed during the import, yet the import reports success", c.FileFail)
				return
			}
		}
	}

	clean := !c.WrongMagic && !c.SwapTypes && !mutated && !flipped && fstart == start && fend == end
	v.Class("start:%s", map[bool]string{true: "0", false: map[bool]string{true: "1", false: ">1"}[start == 1]}[start == 0])
	if preB != preF {
		v.Class("pre:divergent")
	}
	if c.PreBranch {
		v.Class("pre:other-branch")
	}
	switch {
	case start > min(preB, preF)+1:
		v.Class("window:gap")
	case end <= min(preB, preF):
		v.Class("window:total-overlap")
	case start <= min(preB, preF):
		v.Class("window:partial-overlap")
	default:
		v.Class("window:pure-extension")
	}
	if !clean {
		v.Class("file:defective")
	}
	if c.FailCommit > 0 {
		v.Class("fault:commit")
	}
	span := end - max(preB, preF)
	v.Nontrivial = start > 0 || preB != preF || (span > 0 && span%c.Batch != 0) || c.FailCommit > 0 || fileFaultFired()
	v.Logf("pre=(%d,%d branch=%v) file=[%d..%d] ffile=[%d..%d] batch=%d defects: magic=%v swap=%v mut=%s@%d flip=%s fail=%d -> err=%v",
		preB, preF, c.PreBranch, start, end, fstart, fend, c.Batch, c.WrongMagic, c.SwapTypes, c.Mut, c.MutK, c.FlipFile, c.FailCommit, ierr)

	// What do the stores hold now?
	_, bTipU, e1 := env.BS.ChainTip()
	_, fTipU, e2 := env.FS.ChainTip()
	if e1 != nil || e2 != nil {
		res := "failed"
		if ierr == nil {
			res = "succeeded"
		}
		v.Fail("C14/stores-unusable/import-"+res, "after an import that %s the stores are unusable: block ChainTip err=%v, filter ChainTip err=%v", res, e1, e2)
		return
	}
	bTip, fTip := int(bTipU), int(fTipU)
	// Each height holds either the pre-existing entry or the file's (as
	// actually written to the files, defects included).
	bSrc := func(h int) wire.BlockHeader {
		if h > preB && h >= start && h-start < len(fileB) {
			return fileB[h-start]
		}
		if h < len(prePath) && h <= preB {
			return prePath[h].Header
		}
		return main[min(h, len(main)-1)].Header
	}
	fSrc := func(h int) chainhash.Hash {
		if h > preF && h >= fstart && h-fstart < len(fileF) {
			return fileF[h-fstart]
		}
		if h < len(prePath) && h <= preF {
			return prePath[h].FHdr
		}
		return main[min(h, len(main)-1)].FHdr
	}
	if bTip >= len(main) || fTip >= len(main) {
		v.Fail("C14/too-long", "stores grew beyond the file: block tip %d filter tip %d, file ends at %d", bTip, fTip, end)
		return
	}
	got := model(bTip, fTip, bSrc, fSrc)
	if d := hdrstore.Compare(env.BS, env.FS, got); d != "" {
		res := "failed"
		if ierr == nil {
			res = "succeeded"
		}
		v.Fail("C14/content/import-"+res, "after an import that %s (tips %d/%d) the stores do not hold 'earlier contents extended by the file': %s", res, bTip, fTip, d)
		return
	}
	// A filter header the import appended at a height with a hard-coded
	// checkpoint equals that checkpoint (anything else was not validated).
	if hardH > preF && hardH <= fTip {
		if fSrc(hardH) != hardVal {
			res := "failed"
			if ierr == nil {
				res = "succeeded"
			}
			v.Fail("C14/hard-checkpoint-mismatch-stored/import-"+res, "the import (%s) appended filter header %v at height %d, where the network's hard-coded filter-header checkpoint is %v", res, fSrc(hardH), hardH, hardVal)
			return
		}
		v.Class("hard:height-imported")
		v.Nontrivial = true
	}
	if bTip < preB || fTip < preF {
		v.Fail("C14/shrunk", "import shrank a store: block %d->%d filter %d->%d", preB, bTip, preF, fTip)
		return
	}
	if ierr == nil {
		v.Class("result:success")
		wantB, wantF := max(preB, end), max(preF, end)
		if bTip != wantB || fTip != wantF {
			v.Fail("C14/success-incomplete", "import reported success but the stores end at %d/%d instead of %d/%d", bTip, fTip, wantB, wantF)
			return
		}
		// the resulting block chain must be fully valid
		hs := make([]*wire.BlockHeader, bTip+1)
		for i := range hs {
			h := got.Blocks[i]
			hs[i] = &h
		}
		if e := w.Rules.CheckChain(hs, 1, nil); e != "" {
			v.Fail("C14/success-invalid-chain", "import reported success but the block chain is not valid: %s", e)
			return
		}
		// "Extended by the file's headers": filter headers are a hash
		// chain, the file's entry at T+1 continues the file's entry at T.
		// With level stores at T, entries appended above T are an extension
		// of the earlier contents only if the file agrees with the store at
		// the junction T (a mismatch with existing data there must be
		// refused; mismatches deeper inside the overlap are only sampled by
		// the importer and are tolerated here).
		if preB == preF && fTip > preF && preF >= fstart && preF-fstart < len(fileF) {
			if fileF[preF-fstart] != fSrc(preF) {
				v.Fail("C14/junction-mismatch-accepted", "import reported success and appended the file's filter headers %d..%d although the file's filter header at the stores' tip %d differs from the stored one: what was appended continues the file's chain, not the stores' contents", preF+1, fTip, preF)
				return
			}
			v.Class("junction:file-agrees-with-store-tip")
		}
		if !clean {
			v.Class("defective-file-accepted(harmless)")
		}
		// idempotence
		if err := doImport(bf, ff, c.Batch); err != nil {
			v.Fail("C14/second-import-fails", "repeating a successful import fails: %v", err)
			return
		}
		if d := hdrstore.Compare(env.BS, env.FS, got); d != "" {
			v.Fail("C14/second-import-changes", "repeating a successful import changed the stores: %s", d)
			return
		}
		return
	}
	v.Class("result:failure")
	if clean && c.FailCommit == 0 && !fileFaultFired() && start <= min(preB, preF)+1 && !c.PreBranch {
		// a correct, connecting file was refused
		v.Class("clean-file-refused")
	}
	if preB == preF && bTip != fTip {
		v.Fail("C14/failure-inconsistent", "stores were level (%d) before the failed import and are at %d/%d afterwards", preB, bTip, fTip)
		return
	}
	// nothing unvalidated: every new block header must be a valid extension
	hs := make([]*wire.BlockHeader, bTip+1)
	for i := range hs {
		h := got.Blocks[i]
		hs[i] = &h
	}
	if !c.PreBranch {
		if e := w.Rules.CheckChain(hs, int32(preB+1), nil); e != "" {
			v.Fail("C14/failure-unvalidated", "after the failed import the block store holds headers that are not valid: %s", e)
			return
		}
	}
	// A later correct import must work ("the stores remain usable"). With
	// the two stores at different heights the importer refuses every file
	// that would have to append (its continuity check pairs the file's next
	// header with the block-store tip); that is a refusal, not damage, and
	// the property does not promise that an import succeeds.
	if !c.PreBranch && bTip == fTip {
		var b2, f2 bytes.Buffer
		for h := 0; h < len(main); h++ {
			_ = main[h].Header.Serialize(&b2)
			f2.Write(main[h].FHdr[:])
		}
		bf2, ff2 := filepath.Join(dir, "imp2_block.bin"), filepath.Join(dir, "imp2_filter.bin")
		if writeFile(bf2, b2.Bytes(), w.Params.Net, headerfs.Block, 0) != nil || writeFile(ff2, f2.Bytes(), w.Params.Net, headerfs.RegularFilter, 0) != nil {
			v.Harness = "cannot write the follow-up files"
			return
		}
		if hardH > 0 && !c.HardMatch {
			// the follow-up file is the true chain, which the generated
			// mismatching checkpoint forbids: that is configuration, not
			// damage; the usability of the stores is tested without it
			chainsync.VerifSetFilterHeaderCheckpoints(w.Params.Net, nil)
		}
		if err := doImport(bf2, ff2, 16); err != nil {
			v.Fail("C14/later-import-fails", "a correct import after the failed one fails: %v", err)
			return
		}
		// heights that already held an entry keep it
		full := model(len(main)-1, len(main)-1, func(h int) wire.BlockHeader {
			if h <= bTip {
				return got.Blocks[h]
			}
			return main[h].Header
		}, func(h int) chainhash.Hash {
			if h <= fTip {
				return got.Filters[h]
			}
			return main[h].FHdr
		})
		if d := hdrstore.Compare(env.BS, env.FS, full); d != "" {
			v.Fail("C14/later-import-content", "after a correct import following the failed one: %s", d)
			return
		}
	}
	return
}

func TestC14(t *testing.T) {
	kit.RunProp(t, kit.Prop[Case]{ID: "C14", Name: "import", Gen: genCase, Run: runCase})
}

func TestMain(m *testing.M) {
	code := m.Run()
	netsim.CleanupTemplates()
	os.Exit(code)
}
