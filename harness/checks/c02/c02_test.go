// Package c02: headers the client has accepted are replaced only by a
// strictly heavier, fully valid branch forking at or above the newest
// checkpoint reached; everything else leaves the chain untouched; fully
// valid extensions / heavier branches from a listened-to peer are adopted in
// full (property C02).
package c02

import (
	"fmt"
	"math/big"
	"os"
	"sort"
	"strings"
	"testing"

	"github.com/btcsuite/btcd/chainhash/v2"
	"github.com/btcsuite/btcd/wire/v2"
	"pgregory.net/rapid"

	"verifharness/kit"
	"verifharness/netsim"
)

type oracle struct {
	v        *kit.Verdict
	w        *kit.World
	pre      *netsim.ChainSnap
	current  bool
	forkSeen bool
}

func connected(m []*wire.BlockHeader) bool {
	for i := 1; i < len(m); i++ {
		if m[i].PrevBlock != m[i-1].BlockHash() {
			return false
		}
	}
	return true
}

func work(h []*wire.BlockHeader) *big.Int {
	s := big.NewInt(0)
	for _, x := range h {
		s.Add(s, kit.Work(x.Bits))
	}
	return s
}

// floor is the height of the newest checkpoint at or below tip.
func (o *oracle) floor(tip uint32) uint32 {
	f := uint32(0)
	for h := range o.w.Rules.Checkpoints {
		if uint32(h) <= tip && uint32(h) > f {
			f = uint32(h)
		}
	}
	return f
}

type chain []*wire.BlockHeader

func (c chain) eq(d chain) bool {
	if len(c) != len(d) {
		return false
	}
	for i := range c {
		if c[i].BlockHash() != d[i].BlockHash() {
			return false
		}
	}
	return true
}

func (c chain) tipStr() string {
	h := c[len(c)-1].BlockHash()
	return fmt.Sprintf("%d:%s", len(c)-1, h.String()[:10])
}

// step computes, for model chain S and one delivered message M, the set of
// chains the property allows afterwards, plus a class label.
func (o *oracle) step(S chain, M []*wire.BlockHeader, now int64, current bool) ([]chain, string) {
	if len(M) == 0 {
		return []chain{S}, "empty"
	}
	if !connected(M) {
		return []chain{S}, "keep:unconnected"
	}
	idx := map[chainhash.Hash]int{}
	for i, h := range S {
		idx[h.BlockHash()] = i
	}
	R := M
	for len(R) > 0 {
		if _, ok := idx[R[0].BlockHash()]; !ok {
			break
		}
		R = R[1:]
	}
	if len(R) == 0 {
		return []chain{S}, "keep:known"
	}
	f, ok := idx[R[0].PrevBlock]
	if !ok {
		return []chain{S}, "keep:orphan"
	}
	tip := len(S) - 1
	comb := append(append(chain{}, S[:f+1]...), R...)
	anc := func(h int32) (int64, uint32) { return comb[h].Timestamp.Unix(), comb[h].Bits }
	bad, rule := -1, ""
	for i := range R {
		h := int32(f + 1 + i)
		if e := o.w.Rules.Check(anc, comb[h-1].BlockHash(), h, R[i], now); e != "" {
			bad, rule = i, e
			break
		}
	}
	prefixes := func(min int) []chain {
		var out []chain
		for l := len(S); l >= min+1 && l >= 1; l-- {
			out = append(out, S[:l])
		}
		return out
	}
	fl := int(o.floor(uint32(tip)))
	if f == tip {
		switch {
		case bad == -1:
			outs, l := []chain{comb}, "adopt:extension"
			if c := o.crossing(tip, len(comb)-1); c > 0 {
				outs, l = []chain{comb, comb[:c+1]}, "adopt:extension-crossing-checkpoint"
			}
			if len(R) < len(M) && !current {
				// The batch starts with headers the client already has,
				// so its first header does not connect to the tip; a
				// client that is not listening to this peer may drop it.
				return append(outs, S), "either:overlapping-extension-not-current"
			}
			return outs, l
		case rule == "checkpoint":
			// Headers before the mismatching one may have been taken
			// (the client stops at each checkpoint it passes); the
			// mismatch itself discards back to the previous checkpoint.
			out := prefixes(fl)
			for j := 1; j <= bad; j++ {
				out = append(out, comb[:f+1+j])
			}
			return out, "ckpt:extension"
		default:
			out := []chain{S}
			for j := 1; j <= bad; j++ {
				out = append(out, comb[:f+1+j])
			}
			return out, "either:extension-invalid-at-" + pos(bad, len(R))
		}
	}
	// fork below the tip
	o.forkSeen = true
	depth := tip - f
	dl := "deep"
	if depth <= 2 {
		dl = "shallow"
	} else if depth <= 10 {
		dl = "mid"
	}
	cpRel := "above-cp"
	if f < fl {
		cpRel = "below-cp"
	} else if f == fl && fl > 0 {
		cpRel = "at-cp"
	}
	if tip == fl && fl > 0 {
		cpRel += ",tip-on-cp"
	}
	if bad != -1 {
		if rule == "checkpoint" && f+1+bad > tip {
			// The branch is sane up to a header that contradicts a
			// checkpoint above our tip. The client may take the branch
			// (if it outweighs ours) up to a checkpoint it passes, and
			// discards back to the previous checkpoint at the mismatch.
			out := prefixes(fl)
			if f >= fl && work(R).Cmp(work(S[f+1:])) > 0 {
				for j := 1; j <= bad; j++ {
					out = append(out, comb[:f+1+j])
				}
			}
			return out, fmt.Sprintf("ckpt:fork/%s/%s", dl, cpRel)
		}
		return []chain{S}, fmt.Sprintf("keep:fork-invalid(%s)-at-%s/%s/%s", ruleName(rule), pos(bad, len(R)), dl, cpRel)
	}
	if f < fl {
		return []chain{S}, fmt.Sprintf("keep:fork-below-checkpoint/%s", dl)
	}
	nw, dw := work(R), work(S[f+1:])
	switch nw.Cmp(dw) {
	case -1:
		return []chain{S}, fmt.Sprintf("keep:fork-lighter/%s/%s", dl, cpRel)
	case 0:
		return []chain{S}, fmt.Sprintf("keep:fork-tie/%s/%s", dl, cpRel)
	}
	hv := "heavier-by-length"
	if len(R) <= len(S[f+1:]) {
		hv = "heavier-by-difficulty"
	}
	full := []chain{comb}
	if c := o.crossing(tip, len(comb)-1); c > 0 {
		// The client fetches headers checkpoint by checkpoint: a batch
		// running past the next checkpoint is taken up to it and the
		// rest is requested again.
		full = append(full, comb[:c+1])
	}
	if current {
		return full, fmt.Sprintf("adopt:fork-%s/%s/%s", hv, dl, cpRel)
	}
	return append([]chain{S}, full...), fmt.Sprintf("either:fork-%s-not-current/%s/%s", hv, dl, cpRel)
}

// crossing returns the first checkpoint height c with tip < c < last (a
// batch that runs past the next checkpoint), or 0.
func (o *oracle) crossing(tip, last int) int {
	best := 0
	for h := range o.w.Rules.Checkpoints {
		if int(h) > tip && int(h) < last && (best == 0 || int(h) < best) {
			best = int(h)
		}
	}
	return best
}

func ruleName(r string) string {
	if len(r) >= 4 && r[:4] == "bits" {
		return "bits"
	}
	return r
}

func pos(i, n int) string {
	switch {
	case i == 0:
		return "first"
	case i == n-1:
		return "last"
	}
	return "mid"
}

func (o *oracle) snap(s *netsim.Sim, when string) *netsim.ChainSnap {
	sn, e := netsim.SnapChain(s.CS.BlockHeaders)
	if e != "" {
		o.v.Fail("C02/unreadable", "%s: %s", when, e)
		return nil
	}
	return sn
}

func (o *oracle) Started(s *netsim.Sim) {
	s.TakeHeadersLog()
	o.pre = o.snap(s, "after start")
}

func (o *oracle) Before(s *netsim.Sim, i int, e netsim.Event) {
	if o.v.Violation != "" {
		return
	}
	// Reconnect waits may have changed the store: check them as an
	// event of their own, then take the pre-state of the real event.
	o.evaluate(s, fmt.Sprintf("before event %d (reconnect wait)", i), false)
	o.current = s.CS.IsCurrent()
}

func (o *oracle) After(s *netsim.Sim, d *netsim.Delivered) {
	if o.v.Violation != "" {
		return
	}
	o.evaluate(s, fmt.Sprintf("after event %d (%s)", d.Index, d.Event), true)
}

func (o *oracle) Finished(s *netsim.Sim) {}

func (o *oracle) evaluate(s *netsim.Sim, when string, log bool) {
	raw := s.TakeHeadersLog()
	post := o.snap(s, when)
	if post == nil || o.pre == nil {
		return
	}
	S0, S1 := chain(o.pre.Hdrs), chain(post.Hdrs)
	now := netsim.Now()
	defer func() { o.pre = post }()

	// Empty headers messages are no-ops.
	var msgs []netsim.SentHeaders
	for _, m := range raw {
		if len(m.Hdrs) > 0 {
			msgs = append(msgs, m)
		}
	}

	// Messages of one peer are processed in the order sent; across peers
	// any interleaving is possible. A message that is not the only one of
	// its step may also have gone unprocessed (the client may have closed
	// that connection because of an earlier message), and ADOPT of a fork
	// is only certain for a single message delivered to a current client.
	single := len(msgs) == 1
	var labels []string
	final := map[string]chain{}
	budget := 4000 // model steps
	var rec func(states []chain, rest [][]netsim.SentHeaders, first bool) bool
	rec = func(states []chain, rest [][]netsim.SentHeaders, first bool) bool {
		done := true
		for pi := range rest {
			if len(rest[pi]) == 0 {
				continue
			}
			done = false
			m := rest[pi][0]
			var next []chain
			seen := map[string]bool{}
			add := func(c chain) {
				k := c.tipStr()
				if !seen[k] {
					seen[k] = true
					next = append(next, c)
				}
			}
			for si, st := range states {
				budget--
				if budget < 0 {
					return false
				}
				outs, l := o.step(st, m.Hdrs, now, o.current && single)
				if first && si == 0 {
					labels = append(labels, fmt.Sprintf("p%d:%s(n=%d)", m.Peer, l, len(m.Hdrs)))
					o.v.Class("%s", l)
				}
				for _, c := range outs {
					add(c)
				}
				if !single {
					add(st)
				}
			}
			if len(next) > 256 {
				return false
			}
			nr := make([][]netsim.SentHeaders, len(rest))
			copy(nr, rest)
			nr[pi] = rest[pi][1:]
			// labels are recorded along the first explored order only
			if !rec(next, nr, first && pi == firstNonEmpty(rest)) {
				return false
			}
		}
		if done {
			for _, st := range states {
				final[st.tipStr()] = st
			}
		}
		return true
	}
	byPeer := map[int]int{}
	var queues [][]netsim.SentHeaders
	for _, m := range msgs {
		qi, ok := byPeer[m.Peer]
		if !ok {
			qi = len(queues)
			byPeer[m.Peer] = qi
			queues = append(queues, nil)
		}
		queues[qi] = append(queues[qi], m)
	}
	if len(queues) > 1 {
		o.v.Class("multi-peer-step")
	}
	complete := rec([]chain{S0}, queues, true)
	label := fmt.Sprint(labels)

	if complete {
		okk := false
		for _, st := range final {
			if st.eq(S1) {
				okk = true
			}
		}
		if !okk {
			var allowed []string
			for k := range final {
				allowed = append(allowed, k)
			}
			sort.Strings(allowed)
			kind := "multi"
			if single {
				kind = labels[0][3:]
				if i := strings.IndexByte(kind, '('); i > 0 {
					kind = kind[:i]
				}
				if i := strings.IndexByte(kind, '/'); i > 0 {
					kind = kind[:i]
				}
			}
			o.v.Logf("per-message verdicts: %v", labels)
			o.v.Fail("C02/model/"+kind, "%s: %d headers message(s) delivered %v: store went from %s to %s but the property allows only %v",
				when, len(msgs), labels, S0.tipStr(), S1.tipStr(), allowed)
			return
		}
	} else {
		o.v.Class("model-too-ambiguous")
		// Fallback: history invariants with a liberal checkpoint-failure
		// licence (any delivered world header that contradicts a
		// checkpoint at its height).
		ckptFail := false
		for _, m := range msgs {
			for _, h := range m.Hdrs {
				if n, ok := o.w.ByHash[h.BlockHash()]; ok {
					if cp, ok := o.w.Rules.Checkpoints[n.Height]; ok && cp != n.Hash {
						ckptFail = true
					}
				}
			}
		}
		f := 0
		for f+1 < len(S0) && f+1 < len(S1) && S0[f+1].BlockHash() == S1[f+1].BlockHash() {
			f++
		}
		switch {
		case S0.eq(S1), f == len(S0)-1, ckptFail:
		case f == len(S1)-1:
			o.v.Fail("C02/truncated", "%s: accepted chain was truncated from %s to %s without a checkpoint failure", when, S0.tipStr(), S1.tipStr())
			return
		default:
			nw, dw := work(S1[f+1:]), work(S0[f+1:])
			if nw.Cmp(dw) <= 0 {
				o.v.Fail("C02/not-heavier", "%s: %d accepted headers above height %d (work %v) were replaced by %d headers with work %v (not strictly greater)",
					when, len(S0)-1-f, f, dw, len(S1)-1-f, nw)
				return
			}
			if fl := int(o.floor(uint32(len(S0) - 1))); f < fl {
				o.v.Fail("C02/below-checkpoint", "%s: reorganisation forks at height %d, below the newest checkpoint reached (%d)", when, f, fl)
				return
			}
		}
		if !S0.eq(S1) {
			if e := o.w.Rules.CheckChain(S1, int32(f+1), nil); e != "" {
				o.v.Fail("C02/invalid-adopted", "%s: adopted headers are not valid: %s", when, e)
				return
			}
		}
	}
	if log {
		o.v.Logf("%-70s msgs=%d verdicts=%s current=%v  %s -> %s", when, len(msgs), label, o.current, S0.tipStr(), S1.tipStr())
	}
}

func firstNonEmpty(q [][]netsim.SentHeaders) int {
	for i := range q {
		if len(q[i]) > 0 {
			return i
		}
	}
	return -1
}

func genCase(t *rapid.T) netsim.Script {
	return netsim.GenScript(t, netsim.GenOpts{MaxBase: 50, MaxFuture: 25, MaxBranches: 5, MaxBLen: 30, MaxPeers: 3,
		MinEvents: 3, MaxEvents: 24, Checkpoints: true, Prefill: true, ForkBias: true})
}

func runCase(t *testing.T, sc netsim.Script) kit.Verdict {
	var v kit.Verdict
	w := kit.BuildWorld(sc.World)
	o := &oracle{v: &v, w: w}
	res := netsim.Exec(t, sc, netsim.Config{}, o)
	if res.Harness != "" {
		v.Harness = res.Harness
	}
	if res.Spin != "" {
		v.Class("abandoned:client-busy-loop")
	}
	v.Nontrivial = o.forkSeen
	return v
}

func TestC02(t *testing.T) {
	kit.RunProp(t, kit.Prop[netsim.Script]{ID: "C02", Name: "netsim", Gen: genCase, Run: runCase})
}

func TestMain(m *testing.M) {
	code := m.Run()
	netsim.CleanupTemplates()
	os.Exit(code)
}
