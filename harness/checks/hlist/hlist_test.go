//go:build verif

// Package hlist: the bounded in-memory header list the block manager walks
// when it validates headers and weighs a reorganisation (C02: "any fork depth
// inside the in-memory window") against a plain slice, with small capacities
// so that the ring wraps many times per case. In the client the capacity is
// 10 000, which no generated network world reaches.
package hlist

import (
	"fmt"
	"testing"
	"time"

	"github.com/btcsuite/btcd/wire/v2"
	"github.com/lightninglabs/neutrino/headerlist"
	"pgregory.net/rapid"

	"verifharness/kit"
)

type Op struct {
	Kind string `json:"kind"` // push | reset
	N    int    `json:"n"`    // push: how many; reset: height to reset to
}

type Case struct {
	Cap int  `json:"cap"`
	Ops []Op `json:"ops"`
}

func gen(t *rapid.T) Case {
	c := Case{Cap: kit.Pick(t, "cap", []int{1, 2, 3, 4, 5, 7, 8, 16})}
	c.Ops = rapid.SliceOfN(rapid.Custom(func(t *rapid.T) Op {
		if kit.Uni(t, "kind", 5) == 0 {
			return Op{Kind: "reset", N: kit.Uni(t, "h", 40)}
		}
		return Op{Kind: "push", N: 1 + kit.Uni(t, "n", 2*c.Cap+3)}
	}), 1, 12).Draw(t, "ops")
	return c
}

func hdr(height int32, salt int) wire.BlockHeader {
	return wire.BlockHeader{Version: 4, Nonce: uint32(height)*1000 + uint32(salt), Timestamp: time.Unix(946684800+int64(height)*60, 0), Bits: 0x207fffff}
}

func run(t *testing.T, c Case) (v kit.Verdict) {
	l := headerlist.NewBoundedMemoryChain(uint32(c.Cap))
	var model []headerlist.Node // retained nodes, oldest first
	salt := 0
	wrapped := false
	check := func(where string) bool {
		back, front := l.Back(), l.Front()
		if len(model) == 0 {
			if back != nil || front != nil {
				v.Fail("C02/hlist/empty", "%s: empty list reports Back=%v Front=%v", where, back, front)
				return false
			}
			return true
		}
		want := model[len(model)-1]
		if back == nil || back.Height != want.Height || back.Header.BlockHash() != want.Header.BlockHash() {
			v.Fail("C02/hlist/back", "%s: Back() is %v, expected the node of height %d", where, back, want.Height)
			return false
		}
		if front == nil || front.Height != model[0].Height || front.Header.BlockHash() != model[0].Header.BlockHash() {
			v.Fail("C02/hlist/front", "%s: Front() is %v, expected the node of height %d (retained %d of capacity %d)", where, front, model[0].Height, len(model), c.Cap)
			return false
		}
		// walking Prev() from the back yields exactly the retained nodes
		n := back
		for i := len(model) - 1; i >= 0; i-- {
			if n == nil {
				v.Fail("C02/hlist/prev-short", "%s: the Prev() walk ends after %d nodes, %d are retained", where, len(model)-1-i, len(model))
				return false
			}
			if n.Height != model[i].Height || n.Header.BlockHash() != model[i].Header.BlockHash() {
				v.Fail("C02/hlist/prev-wrong", "%s: the Prev() walk yields height %d where height %d was pushed", where, n.Height, model[i].Height)
				return false
			}
			n = n.Prev()
		}
		if n != nil {
			v.Fail("C02/hlist/prev-long", "%s: the Prev() walk goes on past the oldest retained node (to height %d)", where, n.Height)
			return false
		}
		// Ancestor by height, for retained and not retained heights
		for _, m := range model {
			a := back.Ancestor(m.Height)
			if a == nil || a.Header.BlockHash() != m.Header.BlockHash() {
				v.Fail("C02/hlist/ancestor", "%s: Back().Ancestor(%d) is %v", where, m.Height, a)
				return false
			}
		}
		if a := back.Ancestor(back.Height + 1); a != nil {
			v.Fail("C02/hlist/ancestor-future", "%s: Ancestor above the node's height is %v", where, a)
			return false
		}
		return true
	}
	for i, op := range c.Ops {
		switch op.Kind {
		case "reset":
			salt++
			n := headerlist.Node{Height: int32(op.N), Header: hdr(int32(op.N), salt)}
			l.ResetHeaderState(n)
			model = []headerlist.Node{n}
		case "push":
			for k := 0; k < op.N; k++ {
				h := int32(0)
				if len(model) > 0 {
					h = model[len(model)-1].Height + 1
				}
				n := headerlist.Node{Height: h, Header: hdr(h, salt)}
				got := l.PushBack(n)
				if got == nil || got.Height != h {
					v.Fail("C02/hlist/push-result", "op %d: PushBack returned %v for height %d", i, got, h)
					return
				}
				model = append(model, n)
				if len(model) > c.Cap {
					model = model[1:]
					wrapped = true
				}
			}
		}
		if !check(fmt.Sprintf("after op %d %s(%d)", i, op.Kind, op.N)) {
			return
		}
	}
	v.Nontrivial = wrapped
	return
}

func TestC02HeaderList(t *testing.T) {
	kit.RunProp(t, kit.Prop[Case]{ID: "C02", Name: "headerlist", Gen: gen, Run: run})
}
