// Package c19: emitted chain events mirror exactly how the committed chain
// changed (property C19).
package c19

import (
	"fmt"
	"os"
	"sync"
	"sync/atomic"
	"testing"

	"github.com/btcsuite/btcd/chainhash/v2"
	"github.com/btcsuite/btcd/wire/v2"
	"github.com/btcsuite/btcwallet/walletdb"
	"github.com/lightninglabs/neutrino"
	"github.com/lightninglabs/neutrino/blockntfns"
	"pgregory.net/rapid"

	"verifharness/dbwrap"
	"verifharness/kit"
	"verifharness/netsim"
)

type Case struct {
	Script netsim.Script `json:"script"`
	// Probes: after event Index, subscribe with height FilterTip-Back
	// (clamped to >= 0) and compare the backlog.
	Probes []Probe `json:"probes"`
	// MidProbes: when the observer receives its At-th connected event
	// (i.e. typically in the middle of a batch being announced) a new
	// subscriber asks for the backlog above (that event's height - Back).
	MidProbes []MidProbe `json:"mid_probes,omitempty"`
	// FilterPrefill (checkpointed unit): the filter headers already
	// committed when the client starts (-1: only the genesis entry; 0: as
	// many as block headers).
	FilterPrefill int `json:"filter_prefill,omitempty"`
}

type MidProbe struct {
	At   int `json:"at"`
	Back int `json:"back"`
	// Disc: At counts disconnected events instead of connected ones: the
	// new subscriber arrives in the middle of a rollback and asks for the
	// backlog above (the removed block's height - 1 - Back).
	Disc bool `json:"disc,omitempty"`
	// Sched: At counts the times the block handler reaches the named point
	// between removing a block from the stores and announcing it; the new
	// subscriber is started from there (without holding the rollback up)
	// and asks for the backlog above (filter tip at that moment - 1 - Back).
	Sched bool `json:"sched,omitempty"`
}

type midRun struct {
	h      uint32
	err    error
	sub    *blockntfns.Subscription
	got    []blockntfns.BlockNtfn
	mu     sync.Mutex
	fin    chan struct{}
	ready  chan struct{}
	atSeen int // number of main-stream events received when it was started
}

type Probe struct {
	After int `json:"after"`
	Back  int `json:"back"`
}

type ev struct {
	conn   bool
	height uint32
	hdr    wire.BlockHeader
	tip    wire.BlockHeader
	stamp  int64
}

type commit struct {
	stamp int64
	tip   chainhash.Hash // block hash the filter-header tip key points at
}

type oracle struct {
	v   *kit.Verdict
	w   *kit.World
	// initial: what was committed before the client started
	initial []chainhash.Hash
	seq atomic.Int64

	mu      sync.Mutex
	events  []ev
	commits []commit
	pending map[int64]chainhash.Hash
	done    chan struct{}
	sub     *blockntfns.Subscription

	mids      map[int][]int // connected-event ordinal -> backs
	midsDisc  map[int][]int // disconnected-event ordinal -> backs
	ndisc     int
	midRuns   []*midRun
	nconn     int
	midNT     bool
	cs        *neutrino.ChainService

	checked   int // events already checked by rule (2)/(3)
	crossed   bool
	backlogNT bool
	probes    map[int][]int
}

var (
	indexBucket  = []byte("header-index")
	regFilterTip = []byte("regular")
)

func (o *oracle) wrap(db walletdb.DB) walletdb.DB {
	d := dbwrap.Wrap(db)
	d.TxHook = func(k int64, tx walletdb.ReadWriteTx) {
		b := tx.ReadBucket(indexBucket)
		if b == nil {
			return
		}
		v := b.Get(regFilterTip)
		if len(v) != 32 {
			return
		}
		var h chainhash.Hash
		copy(h[:], v)
		o.mu.Lock()
		o.pending[k] = h
		o.mu.Unlock()
	}
	d.Hook = func(k int64, phase string) {
		if phase != "post" {
			return
		}
		o.mu.Lock()
		if h, ok := o.pending[k]; ok {
			delete(o.pending, k)
			o.commits = append(o.commits, commit{stamp: o.seq.Add(1), tip: h})
		}
		o.mu.Unlock()
	}
	return d
}

func (o *oracle) fail(sym, format string, a ...any) {
	o.v.Fail("C19/"+sym, format, a...)
	o.v.Logf("VIOLATION "+format, a...)
}

func (o *oracle) Started(s *netsim.Sim) {
	if o.v.Harness == "" {
		o.check(s, "after start")
	}
}

// subscribe registers the observer's subscription before any peer session
// exists (netsim.Config.AfterStart).
func (o *oracle) subscribe(s *netsim.Sim) {
	o.cs = s.CS
	src := &neutrino.RescanChainSource{ChainService: s.CS}
	sub, err := src.Subscribe(0)
	if err != nil {
		o.v.Harness = "Subscribe(0): " + err.Error()
		return
	}
	o.sub = sub
	o.done = make(chan struct{})
	go func() {
		defer close(o.done)
		for n := range sub.Notifications {
			e := ev{height: n.Height(), hdr: n.Header(), tip: n.ChainTip(), stamp: o.seq.Add(1)}
			_, e.conn = n.(*blockntfns.Connected)
			o.mu.Lock()
			o.events = append(o.events, e)
			var backs []int
			base := int(e.height)
			if e.conn {
				o.nconn++
				backs = o.mids[o.nconn]
			} else {
				o.ndisc++
				backs = o.midsDisc[o.ndisc]
				base = int(e.height) - 1
			}
			seen := len(o.events)
			o.mu.Unlock()
			for _, b := range backs {
				if base-b >= 1 {
					o.startMid(uint32(base-b), seen)
				}
			}
		}
	}()
}

// startMid launches a subscriber asking for the backlog above h while the
// client is (possibly) in the middle of announcing a batch.
func (o *oracle) startMid(h uint32, seen int) {
	m := &midRun{h: h, fin: make(chan struct{}), ready: make(chan struct{}), atSeen: seen}
	o.mu.Lock()
	o.midRuns = append(o.midRuns, m)
	o.mu.Unlock()
	go func() {
		defer close(m.fin)
		src := &neutrino.RescanChainSource{ChainService: o.cs}
		sub, err := src.Subscribe(h)
		m.mu.Lock()
		m.sub, m.err = sub, err
		m.mu.Unlock()
		close(m.ready)
		if err != nil {
			return
		}
		for n := range sub.Notifications {
			m.mu.Lock()
			m.got = append(m.got, n)
			m.mu.Unlock()
		}
	}()
}

// checkMids evaluates finished mid-flight probes at a quiescent point: with
// no disconnect in flight, backlog + later events replayed on top of the
// committed chain up to h must reproduce the committed chain.
func (o *oracle) checkMids(when string, events []ev, bsn *netsim.ChainSnap, fsn *netsim.FilterSnap) {
	o.mu.Lock()
	runs := o.midRuns
	o.midRuns = nil
	o.mu.Unlock()
	for _, m := range runs {
		<-m.ready
		if m.sub != nil {
			m.sub.Cancel()
		}
		<-m.fin
		o.v.Class("mid-flight-backlog-probe")
		// any disconnect since the probe started makes the probe's
		// starting point ambiguous: skip
		reorg := false
		for _, e := range events[m.atSeen-1:] {
			if !e.conn {
				reorg = true
			}
		}
		for _, n := range m.got {
			if _, ok := n.(*blockntfns.Connected); !ok {
				reorg = true
			}
		}
		if reorg {
			// With a rollback in flight the probe still has a definite
			// starting point if it asked for the backlog above a height
			// below every block removed since: the committed chain up to
			// that height was the same throughout. Backlog and later
			// events, replayed on top of it, must then give the
			// committed chain.
			minDisc := uint32(1 << 31)
			for _, e := range events[m.atSeen-1:] {
				if !e.conn && e.height < minDisc {
					minDisc = e.height
				}
			}
			for _, n := range m.got {
				if _, ok := n.(*blockntfns.Connected); !ok && n.Height() < minDisc {
					minDisc = n.Height()
				}
			}
			if m.h >= minDisc || m.err != nil || int(m.h) > int(fsn.Tip) {
				o.v.Class("mid-flight-probe-skipped(reorg)")
				continue
			}
			o.v.Class("mid-flight-probe-during-rollback-evaluated")
			o.midNT = true
			replay := append([]chainhash.Hash{}, bsn.Hashes[:m.h+1]...)
			for i, n := range m.got {
				hd := n.Header()
				hh := hd.BlockHash()
				if _, ok := n.(*blockntfns.Connected); ok {
					switch {
					case int(n.Height()) == len(replay) && hd.PrevBlock == replay[len(replay)-1]:
						replay = append(replay, hh)
					case int(n.Height()) < len(replay) && replay[n.Height()] == hh:
					default:
						o.fail("mid-backlog/reorg-gap", "%s: subscriber with backlog above %d (asked during a rollback, below every removed block): event %d connected(%d,%v) is neither the child of its tip (height %d) nor held", when, m.h, i, n.Height(), hh, len(replay)-1)
						return
					}
				} else {
					switch {
					case int(n.Height()) == len(replay)-1 && replay[n.Height()] == hh:
						replay = replay[:len(replay)-1]
					case int(n.Height()) > len(replay)-1:
					default:
						o.fail("mid-backlog/reorg-disconnected-not-tip", "%s: subscriber with backlog above %d (asked during a rollback): event %d disconnected(%d,%v) does not name its tip (height %d)", when, m.h, i, n.Height(), hh, len(replay)-1)
						return
					}
				}
			}
			if len(replay)-1 != int(fsn.Tip) {
				o.fail("mid-backlog/reorg-length", "%s: subscriber with backlog above %d (asked during a rollback): backlog and later events give a chain of height %d, the committed filter tip is %d", when, m.h, len(replay)-1, fsn.Tip)
				return
			}
			for h := range replay {
				if replay[h] != bsn.Hashes[h] {
					o.fail("mid-backlog/reorg-content", "%s: subscriber with backlog above %d (asked during a rollback): its chain differs from the committed chain at height %d (it still holds a removed block)", when, m.h, h)
					return
				}
			}
			continue
		}
		if m.err != nil {
			o.fail("mid-backlog/subscribe-error", "%s: a subscriber asking for the backlog above height %d right after connected(>=%d) had been announced was refused: %v", when, m.h, m.h, m.err)
			return
		}
		o.midNT = true
		replay := int(m.h)
		for i, n := range m.got {
			hd := n.Header()
			hh := hd.BlockHash()
			switch {
			case int(n.Height()) == replay+1 && hh == bsn.Hashes[replay+1]:
				replay++
			case int(n.Height()) <= replay && hh == bsn.Hashes[n.Height()]:
			default:
				o.fail("mid-backlog/gap", "%s: subscriber with backlog above %d: event %d is connected(%d) but the replayed chain is at height %d (gap or foreign block)", when, m.h, i, n.Height(), replay)
				return
			}
		}
		if replay != int(fsn.Tip) {
			o.fail("mid-backlog/short", "%s: subscriber with backlog above %d ends at height %d, the committed filter tip is %d", when, m.h, replay, fsn.Tip)
			return
		}
	}
}

func (o *oracle) Finished(s *netsim.Sim) {
	if o.sub != nil {
		o.sub.Cancel()
		<-o.done
	}
}

func (o *oracle) After(s *netsim.Sim, d *netsim.Delivered) {
	if o.v.Violation != "" || o.v.Harness != "" {
		return
	}
	when := fmt.Sprintf("after event %d (%s)", d.Index, d.Event)
	o.check(s, when)
	for _, back := range o.probes[d.Index] {
		if o.v.Violation != "" {
			return
		}
		o.backlog(s, back, when)
	}
}

// check applies rules (1)-(3) at a quiescent point.
func (o *oracle) check(s *netsim.Sim, when string) {
	bsn, e := netsim.SnapChain(s.CS.BlockHeaders)
	if e != "" {
		o.fail("unreadable", "%s: %s", when, e)
		return
	}
	fsn, e := netsim.SnapFilters(s.CS.RegFilterHeaders)
	if e != "" {
		o.fail("unreadable", "%s: %s", when, e)
		return
	}
	o.mu.Lock()
	events := append([]ev{}, o.events...)
	commits := append([]commit{}, o.commits...)
	o.mu.Unlock()

	// (2) per-event content and ordering, (3) after the commitment.
	for i := o.checked; i < len(events); i++ {
		e := events[i]
		n, ok := o.w.ByHash[e.hdr.BlockHash()]
		if ok && uint32(n.Height) != e.height {
			o.fail("wrong-height", "%s: event %d announces block %v with height %d, its height is %d", when, i, n.Hash, e.height, n.Height)
			return
		}
		if e.conn {
			if e.tip.BlockHash() != e.hdr.BlockHash() {
				o.fail("connected-tip", "%s: connected event %d: chain tip is not the connected header", when, i)
				return
			}
			if i > 0 && events[i-1].conn && e.height <= events[i-1].height {
				o.fail("connected-order", "%s: connected(%d) follows connected(%d) without a disconnect in between", when, e.height, events[i-1].height)
				return
			}
			if ok {
				committed := false
				for _, c := range commits {
					if c.stamp > e.stamp {
						break
					}
					if tn, ok := o.w.ByHash[c.tip]; ok && tn.OnPath(n) {
						committed = true
						break
					}
				}
				if !committed {
					o.fail("connected-before-commit", "%s: connected(%d, %v) was received (stamp %d) before any filter-header commit covering that block", when, e.height, n.Hash, e.stamp)
					return
				}
			}
		} else {
			if e.hdr.PrevBlock != e.tip.BlockHash() {
				o.fail("disconnected-tip", "%s: disconnected(%d): the new chain tip carried by the event is not the parent of the removed header", when, e.height)
				return
			}
			if i > 0 && !events[i-1].conn && e.height < events[i-1].height-1 {
				o.fail("disconnected-order", "%s: disconnected(%d) follows disconnected(%d): a height was skipped", when, e.height, events[i-1].height)
				return
			}
		}
	}
	o.checked = len(events)

	// (1) mirror: replay everything received so far.
	// (the subscriber starts with what was committed before the client
	// started: the genesis block, or the pre-filled filter-header chain)
	replay := append([]chainhash.Hash{}, o.initial...)
	for i, e := range events {
		h := e.hdr.BlockHash()
		if e.conn {
			switch {
			case int(e.height) == len(replay) && e.hdr.PrevBlock == replay[len(replay)-1]:
				replay = append(replay, h)
			case int(e.height) < len(replay) && replay[e.height] == h:
				// already held
			default:
				o.fail("mirror/connected-not-child", "%s: event %d connected(%d,%v) is neither the child of the replayed tip (height %d) nor already held", when, i, e.height, h, len(replay)-1)
				return
			}
		} else {
			switch {
			case int(e.height) == len(replay)-1 && replay[e.height] == h:
				replay = replay[:len(replay)-1]
			case int(e.height) > len(replay)-1:
				// a header above what the subscriber holds (its
				// filter header was never committed)
				o.crossed = true
			default:
				o.fail("mirror/disconnected-not-tip", "%s: event %d disconnected(%d,%v) does not name the replayed tip (height %d)", when, i, e.height, h, len(replay)-1)
				return
			}
		}
	}
	if len(replay)-1 != int(fsn.Tip) {
		o.fail("mirror/length", "%s: replaying the %d events gives a chain of height %d, the committed filter tip is %d (block tip %d)", when, len(events), len(replay)-1, fsn.Tip, bsn.Tip)
		return
	}
	for h := range replay {
		if replay[h] != bsn.Hashes[h] {
			o.fail("mirror/content", "%s: replayed chain differs from the committed chain at height %d", when, h)
			return
		}
	}
	o.checkMids(when, events, bsn, fsn)
	o.v.Logf("%-64s events=%d blockTip=%d filterTip=%d", when, len(events), bsn.Tip, fsn.Tip)
}

// backlog subscribes with height filterTip-back and checks rule (4).
func (o *oracle) backlog(s *netsim.Sim, back int, when string) {
	fsn, e := netsim.SnapFilters(s.CS.RegFilterHeaders)
	if e != "" {
		return
	}
	bsn, e := netsim.SnapChain(s.CS.BlockHeaders)
	if e != "" {
		return
	}
	h := int(fsn.Tip) - back
	if h < 0 {
		h = 0
	}
	src := &neutrino.RescanChainSource{ChainService: s.CS}
	sub, err := src.Subscribe(uint32(h))
	if err != nil {
		o.fail("backlog/subscribe-error", "%s: Subscribe(%d) with filter tip %d fails: %v", when, h, fsn.Tip, err)
		return
	}
	var got []blockntfns.BlockNtfn
	var mu sync.Mutex
	fin := make(chan struct{})
	go func() {
		defer close(fin)
		for n := range sub.Notifications {
			mu.Lock()
			got = append(got, n)
			mu.Unlock()
		}
	}()
	s.Settle()
	sub.Cancel()
	<-fin
	o.v.Class("backlog-probe")
	if h == 0 {
		// A height of 0 means "no backlog".
		if len(got) != 0 {
			o.fail("backlog/zero", "%s: Subscribe(0) delivered %d backlog events", when, len(got))
		}
		return
	}
	if h > 0 && h < int(fsn.Tip) {
		o.backlogNT = true
	}
	want := int(fsn.Tip) - h
	if len(got) != want {
		o.fail("backlog/length", "%s: Subscribe(%d) with filter tip %d (block tip %d) delivered %d backlog events, want %d", when, h, fsn.Tip, bsn.Tip, len(got), want)
		return
	}
	for i, n := range got {
		hh := uint32(h + 1 + i)
		c, ok := n.(*blockntfns.Connected)
		var ch chainhash.Hash
		if ok {
			hd := c.Header()
			ch = hd.BlockHash()
		}
		if !ok || c.Height() != hh || ch != bsn.Hashes[hh] {
			o.fail("backlog/content", "%s: Subscribe(%d): backlog event %d is %v, want connected(%d, %v)", when, h, i, n, hh, bsn.Hashes[hh])
			return
		}
	}
}

func genCase(t *rapid.T) Case {
	sc := netsim.GenScript(t, netsim.GenOpts{MaxBase: 40, MaxFuture: 20, MaxBranches: 4, MaxBLen: 20, MaxPeers: 3,
		MinEvents: 3, MaxEvents: 20, Checkpoints: false, Prefill: false, ForkBias: true, Tx: true})
	c := Case{Script: sc}
	c.Probes = rapid.SliceOfN(rapid.Custom(func(t *rapid.T) Probe {
		return Probe{After: rapid.IntRange(0, 19).Draw(t, "after"), Back: rapid.IntRange(0, 12).Draw(t, "back")}
	}), 0, 4).Draw(t, "probes")
	c.MidProbes = rapid.SliceOfN(rapid.Custom(func(t *rapid.T) MidProbe {
		switch kit.Uni(t, "disc", 3) {
		case 1:
			return MidProbe{Sched: true, At: rapid.IntRange(1, 4).Draw(t, "sat"), Back: rapid.IntRange(0, 25).Draw(t, "sback")}
		case 0:
			// (Back reaches below the fork point of most rollbacks)
			return MidProbe{Disc: true, At: rapid.IntRange(1, 6).Draw(t, "dat"), Back: rapid.IntRange(0, 25).Draw(t, "dback")}
		}
		return MidProbe{At: rapid.IntRange(1, 60).Draw(t, "at"), Back: rapid.IntRange(0, 8).Draw(t, "mback")}
	}), 0, 5).Draw(t, "midprobes")
	return c
}

// genCaseBig: chains of 1001-2300 blocks whose block headers are (almost all)
// stored already while the filter headers end anywhere below: the filter
// headers are then committed by the checkpointed path, in whole intervals and
// with a partial first interval, and every block must still be announced
// exactly once, in order, after its commit.
func genCaseBig(t *rapid.T) Case {
	sc := netsim.GenScript(t, netsim.GenOpts{MinBase: 1001, MaxBase: 2300, MaxFuture: 20, MaxBranches: 3, MaxBLen: 20, MaxPeers: 3,
		MinEvents: 2, MaxEvents: 10, Checkpoints: false, Prefill: false, ForkBias: true, Tx: true, FixedParams: true})
	sc.Prefill = sc.World.Base - kit.Pick(t, "blag", []int{0, 0, 1, 7, 40})
	c := Case{Script: sc}
	switch kit.Uni(t, "fpre", 4) {
	case 0:
		c.FilterPrefill = -1
	case 1:
		c.FilterPrefill = rapid.IntRange(1, sc.Prefill).Draw(t, "fp")
	default:
		// a partial first interval
		c.FilterPrefill = max(1, sc.Prefill-rapid.IntRange(1001, 2100).Draw(t, "fplag"))
		if kit.Uni(t, "fpmid", 2) == 0 {
			c.FilterPrefill = max(1, (sc.Prefill/1000)*1000-rapid.IntRange(1, 999).Draw(t, "fpin"))
		}
	}
	c.Probes = rapid.SliceOfN(rapid.Custom(func(t *rapid.T) Probe {
		return Probe{After: rapid.IntRange(0, 9).Draw(t, "after"), Back: kit.Pick(t, "back", []int{0, 1, 5, 400, 1000, 1500})}
	}), 0, 3).Draw(t, "probes")
	c.MidProbes = rapid.SliceOfN(rapid.Custom(func(t *rapid.T) MidProbe {
		return MidProbe{At: rapid.IntRange(1, 2000).Draw(t, "at"), Back: kit.Pick(t, "mback", []int{0, 3, 8, 600})}
	}), 0, 3).Draw(t, "midprobes")
	return c
}

func runCase(t *testing.T, c Case) kit.Verdict {
	var v kit.Verdict
	w := kit.BuildWorld(c.Script.World)
	o := &oracle{v: &v, w: w, pending: map[int64]chainhash.Hash{}, probes: map[int][]int{}, mids: map[int][]int{}, midsDisc: map[int][]int{}}
	schedProbes := map[int][]int{}
	for _, p := range c.MidProbes {
		if p.Sched {
			schedProbes[p.At] = append(schedProbes[p.At], p.Back)
			continue
		}
		if p.Disc {
			o.midsDisc[p.At] = append(o.midsDisc[p.At], p.Back)
			continue
		}
		o.mids[p.At] = append(o.mids[p.At], p.Back)
	}
	for _, p := range c.Probes {
		o.probes[p.After] = append(o.probes[p.After], p.Back)
	}
	o.initial = []chainhash.Hash{w.Genesis.Hash}
	if ft := c.Script.Prefill; ft > 0 {
		if c.FilterPrefill != 0 && c.FilterPrefill < ft {
			ft = max(0, c.FilterPrefill)
		}
		for h := 1; h <= ft; h++ {
			o.initial = append(o.initial, w.Node(0, h).Hash)
		}
	}
	afterStart := o.subscribe
	if len(schedProbes) > 0 {
		afterStart = func(s *netsim.Sim) {
			o.subscribe(s)
			var n atomic.Int64
			netsim.SetSchedHook(func(point string) {
				if point != "sched:rollback:before-ntfn" {
					return
				}
				backs := schedProbes[int(n.Add(1))]
				if len(backs) == 0 {
					return
				}
				_, ft, err := s.CS.RegFilterHeaders.ChainTip()
				if err != nil {
					return
				}
				o.mu.Lock()
				seen := len(o.events)
				o.mu.Unlock()
				for _, b := range backs {
					if h := int(ft) - 1 - b; h >= 1 && seen >= 1 {
						o.startMid(uint32(h), seen)
					}
				}
			})
		}
	}
	res := netsim.Exec(t, c.Script, netsim.Config{WrapDB: o.wrap, AfterStart: afterStart, PrefillFilterTip: c.FilterPrefill}, o)
	if c.Script.World.Base >= 1000 {
		v.Class("world:checkpointed")
	}
	if res.Harness != "" {
		v.Harness = res.Harness
	}
	if res.Spin != "" {
		v.Class("abandoned:client-busy-loop")
	}
	v.Nontrivial = o.crossed || o.backlogNT || o.midNT
	if o.midNT {
		v.Class("mid-flight-backlog-evaluated")
	}
	if o.crossed {
		v.Class("reorg-crossing-filter-tip")
	}
	if o.backlogNT {
		v.Class("backlog-strictly-inside")
	}
	o.mu.Lock()
	v.Count("events", len(o.events))
	v.Count("filter_commits", len(o.commits))
	nd := 0
	for _, e := range o.events {
		if !e.conn {
			nd++
		}
	}
	o.mu.Unlock()
	v.Count("disconnected_events", nd)
	if nd > 0 {
		v.Class("has-disconnects")
	}
	return v
}

func TestC19Big(t *testing.T) {
	kit.RunProp(t, kit.Prop[Case]{ID: "C19", Name: "netsim-checkpointed", Gen: genCaseBig, Run: runCase})
}

func TestC19(t *testing.T) {
	kit.RunProp(t, kit.Prop[Case]{ID: "C19", Name: "netsim", Gen: genCase, Run: runCase})
}

func TestMain(m *testing.M) {
	code := m.Run()
	netsim.CleanupTemplates()
	os.Exit(code)
}
