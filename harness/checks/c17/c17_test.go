// Package c17: Stop always completes and releases every blocked caller
// (property C17).
package c17

import (
	"fmt"
	"os"
	"runtime"
	"strings"
	"sync"
	"sync/atomic"
	"testing"
	"time"

	"github.com/btcsuite/btcd/address/v2"
	"github.com/btcsuite/btcd/btcutil/v2"
	"github.com/btcsuite/btcd/chainhash/v2"
	"github.com/btcsuite/btcd/rpcclient"
	"github.com/btcsuite/btcd/wire/v2"
	"github.com/lightninglabs/neutrino"
	"github.com/lightninglabs/neutrino/headerfs"
	"pgregory.net/rapid"

	"verifharness/kit"
	"verifharness/netsim"
)

type PeerSpec struct {
	// Kind: honest | noblocks | nofilters | silent | slow
	Kind    string `json:"kind"`
	DelayMs int    `json:"delay_ms,omitempty"`
	// Ahead: the peer's view is this many blocks above the base.
	Ahead int `json:"ahead,omitempty"`
	// DropAtMs > 0: the peer closes its connection at that instant (and
	// refuses to be dialled again), so callers may be left waiting for
	// answers nobody is there to give.
	DropAtMs int `json:"drop_at_ms,omitempty"`
}

type Caller struct {
	// Kind: getblock | getcfilter | rescan | getutxo | sendtx | subscribe
	Kind   string `json:"kind"`
	AtMs   int    `json:"at_ms"`
	Height int    `json:"height"`
}

type Case struct {
	World         kit.WorldSpec `json:"world"`
	Prefill       int           `json:"prefill"`
	FilterPrefill int           `json:"filter_prefill"`
	Peers         []PeerSpec    `json:"peers"`
	Callers       []Caller      `json:"callers"`
	StopAtMs      int           `json:"stop_at_ms"`
	// StopRace: what happens in the very instant Stop is called (no
	// quiescence in between): "" | grow (every peer announces N new
	// blocks) | headers (peer 0 sends the next N headers unsolicited) |
	// drop (every peer closes its connection).
	// reorg (every peer switches to the competing branch and announces it).
	StopRace string `json:"stop_race,omitempty"`
	RaceN    int    `json:"race_n,omitempty"`
	// StopOn: Stop is called not at StopAtMs but in the instant a peer puts
	// its StopOnK-th message of this kind on the wire (cfheaders | headers |
	// block | cfilter | cfcheckpt | reorghdr = a headers message sent after
	// the reorganisation of ReorgAtMs began | sched:<prefix> = a client
	// goroutine reaches its StopOnK-th named point with that prefix inside a
	// chain update and is held there), if that happens before StopAtMs: the
	// answer and the shutdown race.
	StopOn  string `json:"stop_on,omitempty"`
	StopOnK int    `json:"stop_on_k,omitempty"`
	// ReorgAtMs > 0: at that instant every peer reorganises to the world's
	// competing (heavier) branch and announces it, so that Stop (above all
	// with StopOn) can fall into the middle of the reorganisation.
	ReorgAtMs int `json:"reorg_at_ms,omitempty"`
	// RollbackStepMs > 0: the rollback of that reorganisation takes virtual
	// time, this many milliseconds per removed block (the block handler
	// sleeps at the named point after each block), so that the stages of
	// Stop can fall between two removed blocks. Only applied when the client
	// is idle at the tip when the reorganisation begins (then nobody else
	// wants the chain-update lock the block handler holds while it sleeps).
	RollbackStepMs int `json:"rollback_step_ms,omitempty"`
	// Restart: after Stop a second client is started on the same directory:
	// "" (no) | plain | assert-holds | assert-fails (Config.AssertFilterHeader
	// with a true / a wrong value).
	Restart string `json:"restart,omitempty"`
}

func genCase(t *rapid.T) Case {
	p := kit.ParamSpec{Retarget: 0, Spacing: 60, Adj: 4, VerFloor: 1}
	base := kit.Pick(t, "base", []int{5, 12, 40, 90, 150})
	if kit.Uni(t, "bigp", 8) == 0 {
		base = 1004
		if kit.Thorough() {
			base = kit.Pick(t, "bigbase", []int{1004, 2100})
		}
	}
	ws := kit.WorldSpec{P: p, Seed: rapid.Uint64Range(0, 3).Draw(t, "wseed"), Base: base, Future: 12, Pace: 1, Tx: true}
	// a competing branch that outweighs everything the peers show before the
	// reorganisation (their views end at base+9 at most)
	ws.Branches = []kit.BranchSpec{{Parent: 0, At: max(1, base-kit.Pick(t, "forkback", []int{1, 3, 3, 6})), Len: 17, Pace: 1}}
	c := Case{World: ws}
	c.Restart = kit.Pick(t, "restart", []string{"", "plain", "plain", "assert-holds", "assert-fails"})
	switch kit.Uni(t, "prefillsel", 3) {
	case 0:
		c.Prefill = 0
	case 1:
		c.Prefill = base
	default:
		// (few distinct values: every distinct pre-fill needs its own
		// store template)
		c.Prefill = base / 2
	}
	c.FilterPrefill = -1
	if c.Prefill > 0 {
		switch kit.Uni(t, "fpsel", 3) {
		case 0:
			c.FilterPrefill = c.Prefill
		case 1:
			c.FilterPrefill = max(1, c.Prefill/2)
		}
	}
	c.Peers = rapid.SliceOfN(rapid.Custom(func(t *rapid.T) PeerSpec {
		ps := PeerSpec{Kind: kit.Pick(t, "pkind", []string{"honest", "honest", "noblocks", "nofilters", "silent", "slow", "slow"})}
		if ps.Kind == "slow" {
			ps.DelayMs = kit.Pick(t, "delay", []int{20, 300, 2500, 9000})
		}
		ps.Ahead = kit.Pick(t, "ahead", []int{0, 0, 3, 9})
		ps.DropAtMs = kit.Pick(t, "dropat", []int{0, 0, 0, 0, 1, 40, 1000, 10000})
		return ps
	}), 1, 3).Draw(t, "peers")
	c.Callers = rapid.SliceOfN(rapid.Custom(func(t *rapid.T) Caller {
		cl := Caller{Kind: kit.Pick(t, "ckind", []string{"getblock", "getcfilter", "rescan", "getutxo", "sendtx", "subscribe"}),
			AtMs: kit.Pick(t, "at", []int{0, 1, 200, 3000, 15000}), Height: rapid.IntRange(1, base).Draw(t, "height")}
		return cl
	}), 0, 5).Draw(t, "callers")
	// GetCFilter serialises its callers on a sync.Mutex held across the
	// network query, and GetUtxo and Rescan fetch filters through it too. A
	// goroutine waiting for a sync.Mutex is not durably blocked; the
	// verif-tag gate in front of that mutex queues the waiters on a channel
	// instead, so any number of filter users can be generated.
	c.StopAtMs = kit.Pick(t, "stopat", []int{0, 1, 50, 500, 2000, 7000, 20000, 45000})
	c.StopRace = kit.Pick(t, "stoprace", []string{"", "grow", "grow", "headers", "drop", "reorg", "reorg"})
	c.ReorgAtMs = kit.Pick(t, "reorgat", []int{0, 0, 0, 1, 40, 400, 1900, 6000})
	c.RaceN = rapid.IntRange(1, 8).Draw(t, "racen")
	if kit.Uni(t, "stoponp", 3) == 0 {
		c.StopOn = kit.Pick(t, "stopon", []string{"cfheaders", "cfheaders", "headers", "block", "cfilter", "cfcheckpt"})
		c.StopOnK = kit.Pick(t, "stoponk", []int{1, 1, 2, 3, 5})
	}
	filterUser := false
	for _, cl := range c.Callers {
		if cl.Kind == "getcfilter" || cl.Kind == "rescan" || cl.Kind == "getutxo" {
			filterUser = true
		}
	}
	if filterUser && kit.Uni(t, "stoponcf", 4) == 0 {
		// Stop while a batch of filters is arriving for a caller: some
		// answered, some not
		c.StopOn = "cfilter"
		c.StopOnK = kit.Pick(t, "stoponcfk", []int{1, 2, 3, 5})
		c.StopAtMs = max(c.StopAtMs, 20000)
		return c
	}
	if c.ReorgAtMs > 60 && kit.Uni(t, "slowrollback", 2) == 0 {
		// Stop's stages after the utxo scanner (which takes 50 ms when it
		// is idle) fall between two blocks of a slow rollback
		c.RollbackStepMs = kit.Pick(t, "stepms", []int{1, 5, 20})
		c.StopAtMs = c.ReorgAtMs - 50 + rapid.IntRange(-2, 6*c.RollbackStepMs).Draw(t, "into")
		c.StopOn = ""
		return c
	}
	if c.ReorgAtMs > 60 && kit.Uni(t, "stopnearreorg", 3) == 0 {
		// Stop takes virtual time (its first stages wait for workers and
		// peers): called a little before the reorganisation, its later
		// stages - subscription manager, block manager - fall into the
		// instant in which the block handler rolls the chain back.
		c.StopAtMs = c.ReorgAtMs - rapid.IntRange(0, 60).Draw(t, "before")
		c.StopOn = ""
	}
	if kit.Uni(t, "stoponsched", 5) == 0 {
		// Stop begins while a client goroutine stands at one of the named
		// points inside a multi-step chain update (filter-header write,
		// rollback, header write after a rollback) and is held there for a
		// while: the shutdown overtakes the operation.
		c.StopOn = kit.Pick(t, "stoponsp", []string{"sched:cfwrite", "sched:cfwrite", "sched:rollback", "sched:headers"})
		c.StopOnK = kit.Pick(t, "stoponsk", []int{1, 1, 2, 3, 4})
	}
	if c.ReorgAtMs > 0 && kit.Uni(t, "stoponreorg", 2) == 0 {
		// Stop in the instant the headers of the competing branch go on
		// the wire: the shutdown races the rollback they cause
		c.StopOn = kit.Pick(t, "stoponr", []string{"reorghdr", "sched:rollback", "sched:rollback", "sched:headers"})
		c.StopOnK = kit.Pick(t, "stoponrk", []int{1, 1, 2, 3})
		c.StopAtMs = max(c.StopAtMs, c.ReorgAtMs+kit.Pick(t, "afterreorg", []int{0, 10, 3000}))
	}
	return c
}

type callerState struct {
	c             Caller
	started       bool
	done          chan struct{}
	result        string
	blockedAtStop bool
}

func runCase(t *testing.T, c Case) kit.Verdict {
	var v kit.Verdict
	w := kit.BuildWorld(c.World)
	base := w.Node(0, c.World.Base)
	path := w.Br[0].Tip().Path()
	cfg := netsim.Config{World: w, NumPeers: len(c.Peers), Prefill: c.Prefill, PrefillFilterTip: c.FilterPrefill, KeepDir: true}
	for i := range c.Peers {
		cfg.Initial = append(cfg.Initial, i)
	}
	// Stop is started once, either by the body at StopAtMs or by a peer's
	// send hook (StopOn); the channel is made inside the bubble.
	var (
		trigMu    sync.Mutex
		trigN     int
		stopOnce  sync.Once
		stopDone  chan struct{}
		stopErr   error
		stopEarly bool
	)
	var startStop func(early bool)
	var reorgStarted atomic.Bool
	var slowRollback atomic.Bool
	cfg.AfterStart = func(s *netsim.Sim) {
		done := make(chan struct{})
		trigMu.Lock()
		stopDone = done
		startStop = func(early bool) {
			stopOnce.Do(func() {
				trigMu.Lock()
				stopEarly = early
				trigMu.Unlock()
				go func() {
					defer close(done)
					err := s.StopClient()
					trigMu.Lock()
					stopErr = err
					trigMu.Unlock()
				}()
			})
		}
		trigMu.Unlock()
		if c.RollbackStepMs > 0 {
			netsim.SetSchedHook(func(point string) {
				if point == "sched:rollback:before-ntfn" && slowRollback.Load() {
					time.Sleep(time.Duration(c.RollbackStepMs) * time.Millisecond)
				}
			})
		}
		if strings.HasPrefix(c.StopOn, "sched:") {
			var n atomic.Int64
			netsim.SetSchedHook(func(point string) {
				if !strings.HasPrefix(point, c.StopOn) || n.Add(1) != int64(c.StopOnK) {
					return
				}
				trigMu.Lock()
				f := startStop
				trigMu.Unlock()
				f(true)
				// hold the operation here while Stop gets going (no
				// sleep: client locks may be held at this point)
				for i := 0; i < 20000; i++ {
					runtime.Gosched()
				}
			})
		}
	}
	setup := func(s *netsim.Sim) {
		for i, ps := range c.Peers {
			p := s.Peers[i]
			if c.StopOn != "" {
				p.OnSend = func(_ *netsim.Peer, m wire.Message) {
					k := ""
					switch m.(type) {
					case *wire.MsgCFHeaders:
						k = "cfheaders"
					case *wire.MsgHeaders:
						k = "headers"
						if c.StopOn == "reorghdr" && reorgStarted.Load() {
							k = "reorghdr"
						}
					case *wire.MsgBlock:
						k = "block"
					case *wire.MsgCFilter:
						k = "cfilter"
					case *wire.MsgCFCheckpt:
						k = "cfcheckpt"
					}
					if k != c.StopOn {
						return
					}
					trigMu.Lock()
					trigN++
					f := startStop
					hit := trigN == c.StopOnK
					trigMu.Unlock()
					if hit && f != nil {
						f(true)
					}
				}
			}
			p.SetView(path[min(len(path)-1, c.World.Base+ps.Ahead)], false)
			switch ps.Kind {
			case "noblocks":
				p.NoBlocks = true
			case "nofilters":
				p.NoFilters = true
			case "silent":
				p.Silent = true
			case "slow":
				p.Delay = time.Duration(ps.DelayMs) * time.Millisecond
			}
		}
	}
	fail := func(sym, format string, a ...any) {
		v.Fail("C17/"+sym, format, a...)
		v.Logf("VIOLATION "+format, a...)
	}
	var dataDir string
	res := netsim.Run(t, cfg, setup, func(s *netsim.Sim) {
		dataDir = s.Dir
		cs := s.CS
		states := make([]*callerState, len(c.Callers))
		var mu sync.Mutex
		start := func(st *callerState) {
			st.started = true
			st.done = make(chan struct{})
			go func() {
				defer close(st.done)
				n := path[min(st.c.Height, len(path)-1)]
				var r string
				switch st.c.Kind {
				case "getblock":
					_, err := cs.GetBlock(n.Hash)
					r = fmt.Sprint(err)
				case "getcfilter":
					// Not asked for a block above the filter tip:
					// prepareCFiltersQuery then computes a negative
					// range as uint32 and the header store allocates
					// a 4 GB buffer before the call fails (observed:
					// sixteen shards doing so exhaust the machine).
					if bb, err := cs.BestBlock(); err != nil || n.Height > bb.Height {
						r = "skipped: above the filter tip"
						break
					}
					_, err := cs.GetCFilter(n.Hash, wire.GCSFilterRegular, neutrino.OptimisticBatch())
					r = fmt.Sprint(err)
				case "getutxo":
					o := n.Created[0]
					_, err := cs.GetUtxo(
						neutrino.WatchInputs(neutrino.InputWithScript{OutPoint: o.Op, PkScript: o.Script}),
						neutrino.StartBlock(&headerfs.BlockStamp{Height: n.Height, Hash: n.Hash}),
					)
					r = fmt.Sprint(err)
				case "sendtx":
					tx := wire.NewMsgTx(2)
					tx.AddTxIn(&wire.TxIn{PreviousOutPoint: n.Created[0].Op, Sequence: wire.MaxTxInSequenceNum, Witness: wire.TxWitness{make([]byte, 71), w.Keys[0].Pub}})
					tx.AddTxOut(&wire.TxOut{Value: 1000, PkScript: w.Keys[1].Script})
					r = fmt.Sprint(cs.SendTransaction(tx))
				case "rescan":
					addr, err := address.NewAddressWitnessPubKeyHash(w.Keys[2].Script[2:], &w.Params)
					if err != nil {
						r = "harness: " + err.Error()
						break
					}
					rs := neutrino.NewRescan(&neutrino.RescanChainSource{ChainService: cs},
						neutrino.StartBlock(&headerfs.BlockStamp{Height: n.Height, Hash: n.Hash}),
						neutrino.WatchAddrs(addr),
						// a rescan needs a quit channel or an end block;
						// this owner never closes its channel, so only the
						// client's shutdown can release the rescan
						neutrino.QuitChan(make(chan struct{})),
						neutrino.NotificationHandlers(rpcclient.NotificationHandlers{
							OnFilteredBlockConnected:    func(int32, *wire.BlockHeader, []*btcutil.Tx) {},
							OnFilteredBlockDisconnected: func(int32, *wire.BlockHeader) {},
						}))
					err = <-rs.Start()
					rs.WaitForShutdown()
					r = fmt.Sprint(err)
				case "subscribe":
					sub, err := (&neutrino.RescanChainSource{ChainService: cs}).Subscribe(uint32(max(0, int(n.Height)-1)))
					if err != nil {
						r = fmt.Sprint(err)
						break
					}
					k := 0
					for range sub.Notifications {
						k++
					}
					r = fmt.Sprintf("channel closed after %d events", k)
				}
				mu.Lock()
				st.result = r
				mu.Unlock()
			}()
		}
		for i, cl := range c.Callers {
			states[i] = &callerState{c: cl}
		}
		// The slow rollback is only armed when the client sits idle at
		// the tip (filter headers level with the block headers): nobody
		// then competes for the lock the sleeping block handler holds.
		armSlowRollback := func() {
			if c.RollbackStepMs == 0 {
				return
			}
			_, bt, e1 := cs.BlockHeaders.ChainTip()
			_, ft, e2 := cs.RegFilterHeaders.ChainTip()
			if e1 == nil && e2 == nil && bt == ft && int(bt) >= c.World.Base {
				slowRollback.Store(true)
				v.Class("slow-rollback-armed")
			}
		}
		// advance to the stop instant, starting callers on the way
		now := 0
		dropped := make([]bool, len(c.Peers))
		reorged := false
		for now <= c.StopAtMs {
			trigMu.Lock()
			early := stopEarly
			trigMu.Unlock()
			if early {
				// Stop is already under way (StopOn): calls made
				// after Stop are not the property's business
				break
			}
			for _, st := range states {
				if !st.started && st.c.AtMs <= now {
					start(st)
				}
			}
			for i, ps := range c.Peers {
				if ps.DropAtMs > 0 && !dropped[i] && ps.DropAtMs <= now {
					dropped[i] = true
					s.Peers[i].SetRefuse(true)
					s.Peers[i].Disconnect()
					v.Class("peer-dropped-before-stop")
				}
			}
			if c.ReorgAtMs > 0 && !reorged && c.ReorgAtMs <= now && len(w.Br) > 1 {
				reorged = true
				reorgStarted.Store(true)
				armSlowRollback()
				for _, p := range s.Peers {
					p.SetView(w.Br[1].Tip(), true)
				}
				v.Class("reorg-before-stop")
			}
			next := c.StopAtMs + 1
			if c.ReorgAtMs > 0 && !reorged && c.ReorgAtMs < next {
				next = c.ReorgAtMs
			}
			for _, st := range states {
				if !st.started && st.c.AtMs < next {
					next = st.c.AtMs
				}
			}
			for i, ps := range c.Peers {
				if ps.DropAtMs > 0 && !dropped[i] && ps.DropAtMs < next {
					next = ps.DropAtMs
				}
			}
			if next > c.StopAtMs {
				if !s.Advance(time.Duration(c.StopAtMs-now) * time.Millisecond) {
					return
				}
				break
			}
			if !s.Advance(time.Duration(next-now) * time.Millisecond) {
				return
			}
			now = next
		}
		s.Settle()
		for _, st := range states {
			if st.started {
				select {
				case <-st.done:
				default:
					st.blockedAtStop = true
					v.Nontrivial = true
					v.Class("blocked-at-stop:%s", st.c.Kind)
				}
			}
		}
		_, bt, _ := cs.BlockHeaders.ChainTip()
		_, ft, _ := cs.RegFilterHeaders.ChainTip()
		v.Logf("at stop (vt=%dms): block tip %d filter tip %d peers %d", c.StopAtMs, bt, ft, len(cs.Peers()))
		switch {
		case int(bt) < c.World.Base:
			v.Class("state:mid-header-sync")
		case ft < bt:
			v.Class("state:mid-filter-header-sync")
		default:
			v.Class("state:idle")
		}
		// Stop, from its own goroutine; everything must be over within
		// two virtual minutes.
		// Activity injected in the very instant of Stop (the client is
		// not quiescent when Stop begins).
		if c.StopRace != "" {
			_, bt, _ := cs.BlockHeaders.ChainTip()
			cur := path[min(int(bt), len(path)-1)]
			to := path[min(len(path)-1, int(cur.Height)+c.RaceN)]
			switch c.StopRace {
			case "grow":
				for _, p := range s.Peers {
					p.SetView(to, true)
				}
			case "headers":
				s.Peers[0].SendHeaders(w.Batch(kit.Segment(cur.Height, to), -1, ""))
			case "drop":
				for _, p := range s.Peers {
					p.SetRefuse(true)
					p.Disconnect()
				}
			case "reorg":
				if len(w.Br) > 1 {
					for _, p := range s.Peers {
						p.SetView(w.Br[1].Tip(), true)
					}
				}
			}
			v.Class("stop-race:%s", c.StopRace)
		}
		trigMu.Lock()
		if stopEarly {
			v.Class("stop-on:%s", c.StopOn)
		}
		trigMu.Unlock()
		startStop(false)
		if c.ReorgAtMs > c.StopAtMs && !reorged && len(w.Br) > 1 && c.ReorgAtMs-c.StopAtMs <= 60 {
			// the reorganisation falls into the time Stop takes
			v.Class("reorg-during-stop")
			d := time.Duration(c.ReorgAtMs-c.StopAtMs) * time.Millisecond
			go func() {
				time.Sleep(d)
				armSlowRollback()
				for _, p := range s.Peers {
					p.SetView(w.Br[1].Tip(), true)
				}
			}()
		}
		t0 := time.Now()
		waitAll := func() bool {
			select {
			case <-stopDone:
			default:
				return false
			}
			for _, st := range states {
				if st.started {
					select {
					case <-st.done:
					default:
						return false
					}
				}
			}
			return true
		}
		for k := 0; k < 120; k++ {
			s.Settle()
			if waitAll() {
				break
			}
			if !s.Advance(time.Second) {
				return
			}
		}
		select {
		case <-stopDone:
		default:
			if os.Getenv("VERIF_TRACE") != "" {
				buf := make([]byte, 4<<20)
				buf = buf[:runtime.Stack(buf, true)]
				for _, g := range strings.Split(string(buf), "\n\n") {
					if strings.Contains(g, "lightninglabs/neutrino") {
						v.Logf("STACK %s", g)
					}
				}
			}
			fail("stop-hangs", "Stop did not return within 120 virtual seconds")
			return
		}
		for _, st := range states {
			if !st.started {
				continue
			}
			select {
			case <-st.done:
				mu.Lock()
				v.Logf("caller %s(height %d, at %dms) returned: %s", st.c.Kind, st.c.Height, st.c.AtMs, st.result)
				if strings.HasPrefix(st.result, "harness:") {
					v.Harness = st.result
				}
				mu.Unlock()
			default:
				fail("caller-not-released/"+st.c.Kind, "%s caller (height %d, started at %dms) is still blocked 120 virtual seconds after Stop began", st.c.Kind, st.c.Height, st.c.AtMs)
				return
			}
		}
		v.Logf("Stop returned after %v virtual (err=%v)", time.Since(t0), stopErr)
	})
	defer func() {
		if dataDir != "" {
			os.RemoveAll(dataDir)
		}
	}()
	if res.Harness != "" {
		v.Harness = res.Harness
		return v
	}
	if res.Spin != "" {
		v.Class("abandoned:client-busy-loop")
		v.Logf("client goroutine busy-loops, case abandoned: %s", res.Spin)
		return v
	}
	if res.Leak != "" && v.Violation == "" {
		// all harness callers have returned: what is left is internal
		v.Class("observation:internal-goroutine-left-after-stop")
		v.Logf("goroutines left blocked in the bubble after Stop: %s", res.Leak)
	}
	if v.Violation != "" || dataDir == "" {
		return v
	}
	if !storeChecks(w, dataDir, fail) {
		return v
	}
	// ... and syncing resumes from it: a second client is started on the
	// directory, with one well-behaved peer it has not met before (the
	// addresses of the first run may be banned) that serves the heaviest
	// chain of the world; within ten virtual minutes its best block must be
	// that chain's tip with the filter headers level, and it must stop.
	if c.Restart != "" {
		restart(t, c, w, dataDir, &v, fail)
		if v.Violation == "" && v.Harness == "" {
			storeChecks(w, dataDir, fail)
		}
	}
	_ = base
	return v
}

// storeChecks reopens the data directory without a client and walks it: the
// C01 / C03 guarantees must hold on what Stop left behind.
func storeChecks(w *kit.World, dataDir string, fail func(sym, format string, a ...any)) bool {
	db, err := netsim.OpenDB(dataDir, false)
	if err != nil {
		fail("reopen/db", "database cannot be reopened after Stop: %v", err)
		return false
	}
	defer db.Close()
	params := w.Params
	bs, err := headerfs.NewBlockHeaderStore(dataDir, db, &params)
	if err != nil {
		fail("reopen/block-store", "block header store cannot be reopened after Stop: %v", err)
		return false
	}
	fs, err := headerfs.NewFilterHeaderStore(dataDir, db, headerfs.RegularFilter, &params, nil)
	if err != nil {
		fail("reopen/filter-store", "filter header store cannot be reopened after Stop: %v", err)
		return false
	}
	bsn, e := netsim.SnapChain(bs)
	if e != "" {
		fail("reopen/unreadable", "after Stop and reopen: %s", e)
		return false
	}
	if e := w.Rules.CheckChain(bsn.Hdrs, 1, nil); e != "" {
		fail("reopen/invalid-chain", "after Stop and reopen the block chain is not valid: %s", e)
		return false
	}
	if e := netsim.CheckLookups(bs, bsn, 0, nil); e != "" {
		fail("reopen/lookups", "after Stop and reopen: %s", e)
		return false
	}
	fsn, e := netsim.SnapFilters(fs)
	if e != "" {
		fail("reopen/unreadable", "after Stop and reopen: %s", e)
		return false
	}
	if fsn.Tip > bsn.Tip {
		fail("reopen/filter-ahead", "after Stop and reopen the filter tip %d is ahead of the block tip %d", fsn.Tip, bsn.Tip)
		return false
	}
	for h := uint32(0); h <= fsn.Tip; h++ {
		n := w.ByHash[bsn.Hashes[h]]
		if n == nil || fsn.Hdrs[h] != n.FHdr {
			fail("reopen/filter-content", "after Stop and reopen the filter header at height %d is not the one of the block stored there", h)
			return false
		}
	}
	_ = chainhash.Hash{}
	return true
}

// restart runs a second client on the directory the first one left behind.
func restart(t *testing.T, c Case, w *kit.World, dataDir string, v *kit.Verdict, fail func(sym, format string, a ...any)) {
	best := w.Br[0].Tip()
	for _, b := range w.Br[1:] {
		if b.Tip().Work.Cmp(best.Work) > 0 {
			best = b.Tip()
		}
	}
	np := len(c.Peers) + 1
	cfg := netsim.Config{World: w, NumPeers: np, Initial: []int{np - 1}, ReuseDir: dataDir}
	if c.Restart == "assert-holds" || c.Restart == "assert-fails" {
		// Config.AssertFilterHeader: a filter header the operator knows
		// (here: of a block every chain of the world shares). A wrong
		// value makes the client purge its filter headers and fetch
		// them again, which must converge just the same.
		n := w.Node(0, min(3, c.World.Base))
		fh := n.FHdr
		if c.Restart == "assert-fails" {
			fh = chainhash.HashH(append([]byte("wrong"), fh[:]...))
		}
		cfg.Tweak = func(nc *neutrino.Config) {
			nc.AssertFilterHeader = &headerfs.FilterHeader{HeaderHash: n.Hash, FilterHash: fh, Height: uint32(n.Height)}
		}
	}
	v.Class("restart:%s", c.Restart)
	res := netsim.Run(t, cfg, func(s *netsim.Sim) {
		s.Peers[np-1].SetView(best, false)
	}, func(s *netsim.Sim) {
		ok := false
		for k := 0; k < 120 && !ok; k++ {
			if !s.Advance(5 * time.Second) {
				return
			}
			bb, err := s.CS.BestBlock()
			ok = err == nil && bb.Hash == best.Hash
		}
		_, bt, _ := s.CS.BlockHeaders.ChainTip()
		_, ft, _ := s.CS.RegFilterHeaders.ChainTip()
		v.Logf("restart (%s): block tip %d filter tip %d, wanted %d, converged=%v", c.Restart, bt, ft, best.Height, ok)
		if !ok {
			fail("restart/no-resume", "a client restarted on the directory (%s) with one well-behaved peer serving the heaviest chain (tip %d) has block tip %d and filter tip %d after ten virtual minutes: syncing did not resume", c.Restart, best.Height, bt, ft)
			return
		}
		done := make(chan struct{})
		go func() { defer close(done); _ = s.StopClient() }()
		for k := 0; k < 120; k++ {
			s.Settle()
			select {
			case <-done:
				return
			default:
			}
			if !s.Advance(time.Second) {
				return
			}
		}
		fail("restart/stop-hangs", "Stop of the restarted client did not return within 120 virtual seconds")
	})
	if res.Harness != "" {
		v.Harness = "restart: " + res.Harness
	}
}

func TestC17(t *testing.T) {
	kit.RunProp(t, kit.Prop[Case]{ID: "C17", Name: "netsim", Gen: genCase, Run: runCase})
}

func TestMain(m *testing.M) {
	code := m.Run()
	netsim.CleanupTemplates()
	os.Exit(code)
}
