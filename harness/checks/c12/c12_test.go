// Package c12: each batch of requests handed to the query dispatcher gets
// exactly one verdict, and success means every request was answered
// (property C12).
//
// Engine: the real query.NewWorkManager with the real query.NewWorker and the
// real query.NewPeerRanking (behind a recording pass-through wrapper), driven
// through the public API only, with generated mock query.Peer implementations,
// inside a testing/synctest bubble.  All times in a Case are multiples of one
// tick (500 ms), so everything in the bubble happens at tick instants and the
// main goroutine can inspect a quiescent system after every tick.
//
// Observation points (all public API): QueueMessageWithEncoding calls on the
// mock peers (a request was issued to a peer), the HandleResp callbacks
// (progress / answer, and - by means of an irrelevant "probe" message that a
// peer is always allowed to send - which request a worker is currently working
// on), the calls the dispatcher makes on the PeerRanking (a job failed by
// timeout = Punish, by disconnect = ResetRanking), and the values arriving on
// the channels returned by Query.
//
// The dispatcher is internally non-deterministic (map iteration, select among
// several ready channels), so the oracle is not a step-for-step model but a set
// of invariants over the observed history; wherever two orders of things that
// happen at the same virtual instant are possible both are accepted.
//
// What is asserted (signature in brackets):
//   - after Stop every channel returned by Query has delivered exactly one
//     value, whether or not the caller reads it [no-verdict, double-verdict];
//     Stop returns and no goroutine stays blocked [stop-does-not-return,
//     goroutines-blocked-after-stop];
//   - nil only if every request's handler returned Finished
//     [success-with-unanswered-request];
//   - an error is one of the documented ones and its trigger is in the
//     history: Stop was called; the batch's cancel channel was closed; the
//     hard or the idle timeout had elapsed; a request of the batch had just
//     failed for the max(1,NumRetries)-th time (never with NoRetryMax) and
//     the error is that failure's [unjustified-error/*, undocumented-error];
//   - while a batch has no verdict (checked at every quiescent tick): not all
//     of its requests are answered [no-verdict-after-all-answered]; none of
//     its unanswered requests is left lying while a connected peer is idle
//     [unanswered-request-not-reissued]; its idle timeout has not elapsed
//     [idle-timeout-missed]; no peer works on it after its cancel channel
//     was closed [cancel-ignored]; when a request fails for the last allowed
//     time the batch ends there and then [retry-cap-not-enforced]; when a job
//     of it ends after the hard deadline the batch ends there and then
//     [hard-timeout-not-enforced]; an answered request is not sent again
//     [answered-request-reissued];
//   - when the dispatcher had the choice between idle peers it did not take
//     one with a strictly worse score [worse-ranked-peer-preferred];
//   - the dispatcher never stops taking Query calls and peers
//     [dispatcher-stuck/*], and a probe batch launched at an arbitrary moment
//     (or after all scripted batches have ended) succeeds
//     [later-batch-blocked, later-batch-fails].
//
// Tolerances (documented behaviour of the code, see workmanager.go): the hard
// deadline is only looked at when a result for the batch arrives, and a cancel
// channel is only watched by workers holding a job of the batch, so with no
// peer (or no job in flight) such a batch legitimately waits - in the extreme
// until Stop; nothing is asserted about how soon these two verdicts come
// beyond the rules above.  Requests of a batch that ended because another of
// its requests ran out of retries are still sent to peers once each: counted
// (class request-issued-after-batch-verdict), not asserted.
package c12

import (
	"encoding/json"
	"fmt"
	"io"
	"os"
	"runtime"
	"sort"
	"strings"
	"sync"
	"testing"
	"testing/synctest"
	"time"

	"github.com/btcsuite/btcd/wire/v2"
	"github.com/lightninglabs/neutrino/query"
	"pgregory.net/rapid"

	"verifharness/kit"
)

const (
	tick = 500 * time.Millisecond
	// scriptTicks bounds the scripted phase: after that many ticks the
	// probe phase starts even if batches are still in flight.
	scriptTicks = 170
	// probeTicks bounds the time the probe batch may take.  Every scripted
	// reply script is finite and every batch has a hard timeout (the API
	// cannot switch it off), so everything queued ahead of the probe
	// drains; the bound is generous and only reached when the dispatcher
	// is stuck.
	probeTicks = 3600

	// documented constants of the query package
	minJobTimeout  = 2 * time.Second  // minQueryTimeout
	defaultTimeout = 30 * time.Second // defaultQueryTimeout
	defaultRetries = 2                // defaultNumRetries
	defaultScore   = 4
	bestScore      = 0
	worstScore     = 8
)

// ---------------------------------------------------------------------------
// Case

// Outcome says what a peer does with one attempt of a request.
type Outcome struct {
	Kind  string `json:"kind"`  // answer | silent | drop (peer disconnects)
	Delay int    `json:"delay"` // ticks before the final action
	Prog  int    `json:"prog"`  // progress messages sent first
	Gap   int    `json:"gap"`   // ticks before each progress message
	Noise bool   `json:"noise"` // also send an irrelevant message and a foreign answer
}

// ReqSpec: attempt i of the request (i-th time it is queued to any peer) gets
// Attempts[i]; later attempts repeat the last one if Stubborn, and are
// answered after one tick otherwise.
type ReqSpec struct {
	Attempts []Outcome `json:"attempts"`
	Stubborn bool      `json:"stubborn"`
}

type BatchSpec struct {
	At      int       `json:"at"` // tick of the Query call
	Reqs    []ReqSpec `json:"reqs"`
	Retry   int       `json:"retry"`   // -2 no option (default 2), n>=0 NumRetries(n)
	NoMax   bool      `json:"no_max"`  // NoRetryMax() ("If this is set then NumRetries has no effect")
	Timeout int       `json:"timeout"` // -1 no option (30s), n>=0 Timeout(n ticks); Timeout(0) is documented as "fire immediately"
	Idle    int       `json:"idle"`    // 0 no option, n>0 ProgressTimeout(n ticks)
	Cancel  int       `json:"cancel"`  // -2 no Cancel option, -1 channel never closed, n>=0 closed at tick n (absolute)
	Unread  bool      `json:"unread"`  // the caller does not read the result channel until the very end
}

type PeerSpec struct {
	At   int  `json:"at"`   // tick of connect
	Disc int  `json:"disc"` // tick of disconnect, -1 never
	Mute bool `json:"mute"` // never replies to anything
	Lag  int  `json:"lag"`  // extra ticks before it starts replying
	// Reuse = k > 0: this peer is a reconnect of the address of peer k-1 of
	// the list, ReuseGap ticks after the last peer with that address has
	// left (At is set accordingly by the generator).  0: a new address.
	Reuse    int `json:"reuse"`
	ReuseGap int `json:"reuse_gap"`

	// sturdy is set only for the peer of the probe phase: it never drops
	// the connection (a scripted "drop" is played as "silent").
	sturdy bool
}

type Case struct {
	Peers   []PeerSpec  `json:"peers"`
	Batches []BatchSpec `json:"batches"`
	StopAt  int         `json:"stop_at"` // -1: Stop at the end; n>=0: Stop at tick n
	// ProbeAt: when the probe (one more well-behaved peer, one more batch
	// that must succeed) is launched.  -1: once every scripted batch has its
	// verdict (or after scriptTicks); n>=0: at tick n, whatever is going on.
	// No probe once Stop has been called.
	ProbeAt int `json:"probe_at"`
}

// An address reconnects at least one tick after the previous peer with that
// address has left, i.e. after the dispatcher has dealt with the old worker's
// last result.  A reconnect in the very instant of the disconnect (gap 0: the
// new peer is announced while the old worker's "peer disconnected" result is
// still in flight) is outside the generated domain: the dispatcher keys its
// workers by address and the unchanged code can then dereference a nil worker
// (workmanager.go, "r := workers[result.peer.Addr()]; r.activeJob = nil"),
// which kills the test process.  C12_SAME_TICK_RECONNECT=1 adds gap 0 for
// experiments.
var reuseGaps = func() []int {
	if os.Getenv("C12_SAME_TICK_RECONNECT") != "" {
		return []int{0, 0, 1, 2, 5, 11}
	}
	return []int{1, 1, 2, 5, 11}
}()

func genOutcome(t *rapid.T) Outcome {
	return Outcome{
		Kind:  rapid.SampledFrom([]string{"answer", "answer", "answer", "answer", "answer", "silent", "drop"}).Draw(t, "kind"),
		Delay: rapid.SampledFrom([]int{0, 0, 1, 1, 1, 2, 2, 3, 4, 5, 6, 8, 12, 20}).Draw(t, "delay"),
		Prog:  rapid.SampledFrom([]int{0, 0, 0, 1, 2, 3}).Draw(t, "prog"),
		Gap:   rapid.IntRange(0, 5).Draw(t, "gap"),
		Noise: rapid.Bool().Draw(t, "noise"),
	}
}

func genCase(t *rapid.T) Case {
	var c Case
	c.Peers = rapid.SliceOfN(rapid.Custom(func(t *rapid.T) PeerSpec {
		p := PeerSpec{Disc: -1}
		if rapid.IntRange(0, 9).Draw(t, "late") >= 6 {
			p.At = rapid.IntRange(1, 40).Draw(t, "at")
		}
		if rapid.IntRange(0, 9).Draw(t, "leaves") >= 6 {
			p.Disc = p.At + rapid.IntRange(0, 50).Draw(t, "disc")
		}
		p.Mute = rapid.IntRange(0, 9).Draw(t, "mute") >= 8
		if rapid.IntRange(0, 9).Draw(t, "lagging") >= 8 {
			p.Lag = rapid.IntRange(1, 6).Draw(t, "lag")
		}
		if rapid.IntRange(0, 9).Draw(t, "reconnect") >= 6 {
			p.Reuse = rapid.IntRange(1, 4).Draw(t, "reuse")
			p.ReuseGap = rapid.SampledFrom(reuseGaps).Draw(t, "reusegap")
		}
		return p
	}), rapid.SampledFrom([]int{0, 1, 1, 1, 2, 2, 3}).Draw(t, "minpeers"), 5).Draw(t, "peers")
	// Normalise reconnects: an address is only reused once every earlier
	// peer with that address has (been scheduled to) disconnect.
	root := make([]int, len(c.Peers))
	for i := range c.Peers {
		p := &c.Peers[i]
		root[i] = i
		j := p.Reuse - 1
		if j < 0 || j >= i {
			p.Reuse, p.ReuseGap = 0, 0
			continue
		}
		last, ok := -1, true
		for k := 0; k < i; k++ {
			if root[k] == root[j] {
				if c.Peers[k].Disc < 0 {
					ok = false
				} else if c.Peers[k].Disc > last {
					last = c.Peers[k].Disc
				}
			}
		}
		if !ok {
			p.Reuse, p.ReuseGap = 0, 0
			continue
		}
		root[i] = root[j]
		stay := -1
		if p.Disc >= 0 {
			stay = p.Disc - p.At
		}
		p.At = last + p.ReuseGap
		if stay >= 0 {
			p.Disc = p.At + stay
		}
	}
	c.Batches = rapid.SliceOfN(rapid.Custom(func(t *rapid.T) BatchSpec {
		b := BatchSpec{}
		b.At = rapid.IntRange(0, 30).Draw(t, "at")
		b.Reqs = rapid.SliceOfN(rapid.Custom(func(t *rapid.T) ReqSpec {
			return ReqSpec{Attempts: rapid.SliceOfN(rapid.Custom(genOutcome), 1, 4).Draw(t, "attempts"),
				Stubborn: rapid.IntRange(0, 9).Draw(t, "stubborn") >= 7}
		}), 1, 6).Draw(t, "reqs")
		b.Retry = rapid.SampledFrom([]int{-2, -2, 0, 1, 2, 3, 4}).Draw(t, "retry")
		b.NoMax = rapid.IntRange(0, 9).Draw(t, "nomax") >= 7
		b.Timeout = rapid.SampledFrom([]int{-1, -1, -1, -1, -1, 70, 40, 20, 10, 6, 2, 0}).Draw(t, "timeout")
		b.Idle = rapid.SampledFrom([]int{0, 0, 0, 0, 0, 0, 0, 0, 0, 40, 20, 10, 6, 4, 3, 2, 1}).Draw(t, "idle")
		b.Cancel = -2
		switch rapid.IntRange(0, 9).Draw(t, "cancelmode") {
		case 6:
			b.Cancel = -1
		case 7, 8, 9:
			b.Cancel = rapid.IntRange(0, 50).Draw(t, "cancel")
		}
		b.Unread = rapid.IntRange(0, 9).Draw(t, "unread") >= 8
		return b
	}), rapid.SampledFrom([]int{1, 2, 2, 3}).Draw(t, "minbatches"), 4).Draw(t, "batches")
	c.StopAt = -1
	if rapid.IntRange(0, 9).Draw(t, "stopearly") >= 8 {
		c.StopAt = rapid.IntRange(0, 80).Draw(t, "stop")
	}
	c.ProbeAt = -1
	if rapid.Bool().Draw(t, "probeearly") {
		c.ProbeAt = rapid.IntRange(0, 60).Draw(t, "probe")
	}
	return c
}

// ---------------------------------------------------------------------------
// messages

const (
	kReq = iota
	kFinal
	kProgress
	kNoise
	kProbe
)

// tmsg is the only wire.Message the harness uses; it is never serialised.
type tmsg struct {
	Kind int
	Req  int // request id (kReq, kFinal, kProgress)
	Peer int // sending peer (replies)
	Seq  int // probe sequence number
}

func (*tmsg) BtcDecode(io.Reader, uint32, wire.MessageEncoding) error { return nil }
func (*tmsg) BtcEncode(io.Writer, uint32, wire.MessageEncoding) error { return nil }
func (*tmsg) Command() string                                         { return "c12" }
func (*tmsg) MaxPayloadLength(uint32) uint32                          { return 0 }

// ---------------------------------------------------------------------------
// harness state

type verdictRec struct {
	t   time.Duration
	err error
}

type failEvt struct {
	t         time.Duration
	p         *mockPeer
	kind      string // punish (job timeout) | reset (peer disconnected)
	r         *reqState
	ambiguous bool // attribution of the failure to r is not certain
	hiAfter   int  // r.failsHi after this failure
}

type reqState struct {
	id         int
	b          *batchState
	spec       ReqSpec
	issues     int // QueueMessage calls
	failsLo    int // failures certainly attributed to this request
	failsHi    int // ... including uncertain attributions
	finished   bool
	finishedAt time.Duration
}

func (r *reqState) outcome(att int) Outcome {
	if att >= len(r.spec.Attempts) {
		if !r.spec.Stubborn {
			return Outcome{Kind: "answer", Delay: 1}
		}
		att = len(r.spec.Attempts) - 1
	}
	return r.spec.Attempts[att]
}

type batchState struct {
	idx   int
	name  string
	spec  BatchSpec
	probe bool
	reqs  []*reqState

	noMax bool
	capN  int           // failures of one request that end the batch
	hardT time.Duration // effective hard timeout
	idleP time.Duration // 0 = none

	cancel       chan struct{}
	cancelClosed bool
	cancelAt     time.Duration

	submitted bool // Query call started
	submitAt  time.Duration
	returned  bool // Query returned the channel
	ch        chan error

	verdicts []verdictRec  // drain mode: everything read from ch
	seen     bool          // unread mode: len(ch) > 0 observed
	seenAt   time.Duration //
	finishes []time.Duration
	capEvt   *failEvt
	resEvts  []time.Duration // certain job results processed by the dispatcher for this batch
}

// alive: accepted by the dispatcher and no verdict observed yet.
func (b *batchState) alive() bool {
	return b.returned && len(b.verdicts) == 0 && !b.seen
}

// firstVerdictAt returns the time of the first verdict, if any.
func (b *batchState) firstVerdictAt() (time.Duration, bool) {
	if len(b.verdicts) > 0 {
		return b.verdicts[0].t, true
	}
	if b.seen {
		return b.seenAt, true
	}
	return 0, false
}

type sub struct {
	ch        chan wire.Message
	cancel    chan struct{}
	cancelled bool
}

type mockPeer struct {
	h    *harness
	idx  int
	addr string
	spec PeerSpec
	quit chan struct{}

	// guarded by h.mu
	subs         []*sub
	offered      bool
	accepted     bool
	disconnected bool
	discAt       time.Duration
	lastReq      *reqState
	lastIssueAt  time.Duration
	nIssues      int
	probeHit     *reqState
	offeredAt    time.Duration
}

type issueRec struct {
	p *mockPeer
	r *reqState
}

type snapshot struct {
	idle      map[int]bool
	nIssues   map[int]int
	nRankEvts map[int]int
	score     map[int]int
	verdicts  int
	cancels   int
	submits   int
}

type harness struct {
	c     Case
	v     *kit.Verdict
	start time.Time
	done  chan struct{}
	wm    query.WorkManager

	peerCh chan query.Peer

	mu           sync.Mutex
	peers        []*mockPeer
	byAddr       map[string][]*mockPeer // incarnations of an address, in list order
	rankEvts     map[string]int         // Reward/Punish/ResetRanking calls per address
	batches      []*batchState
	reqs         []*reqState
	score        map[string]int
	failEvts     []failEvt
	issueLog     []issueRec // since the last full checkpoint
	activity     int
	nVerdicts    int
	nCancels     int
	nSubmits     int
	probeSeq     int
	stopCalled   bool
	stopAt       time.Duration
	stopReturned bool
	prev         *snapshot
	maxTries     int

	// evidence
	retried      bool
	overlap      bool
	zombie       bool
	rankDecisive bool
	probeAmidst  bool // the probe was launched while scripted batches were in flight
	// a peer connected in the very tick in which the previous peer with the
	// same address disconnected
	sameInstantReuse bool
	rankChecked      bool
	lazy             bool
}

func (h *harness) now() time.Duration { return time.Since(h.start) }

func ts(d time.Duration) string {
	if d%tick == 0 {
		return fmt.Sprintf("t%03d", int(d/tick))
	}
	return fmt.Sprintf("t%03d+%v", int(d/tick), d%tick)
}

// logf and fail must be called with h.mu held.
func (h *harness) logf(format string, a ...any) {
	h.v.Logf("%s %s", ts(h.now()), fmt.Sprintf(format, a...))
}

func (h *harness) fail(sig, format string, a ...any) {
	if h.sameInstantReuse && strings.HasPrefix(sig, "C12/dispatcher-stuck/") {
		// only reachable with C12_SAME_TICK_RECONNECT (see reuseGaps)
		sig = "C12/address-reconnects-in-disconnect-instant/" + strings.TrimPrefix(sig, "C12/")
	}
	if h.v.Violation == "" {
		h.v.Logf("%s VIOLATION %s: %s", ts(h.now()), sig, fmt.Sprintf(format, a...))
	}
	h.v.Fail(sig, format, a...)
}

// ---------------------------------------------------------------------------
// mock peer (implements query.Peer)

func (p *mockPeer) Addr() string                  { return p.addr }
func (p *mockPeer) OnDisconnect() <-chan struct{} { return p.quit }

func (p *mockPeer) SubscribeRecvMsg() (<-chan wire.Message, func()) {
	s := &sub{ch: make(chan wire.Message), cancel: make(chan struct{})}
	h := p.h
	h.mu.Lock()
	p.subs = append(p.subs, s)
	h.mu.Unlock()
	return s.ch, func() {
		h.mu.Lock()
		if !s.cancelled {
			s.cancelled = true
			close(s.cancel)
		}
		h.mu.Unlock()
	}
}

func (p *mockPeer) QueueMessageWithEncoding(m wire.Message, doneChan chan<- struct{}, _ wire.MessageEncoding) {
	h := p.h
	rm, ok := m.(*tmsg)
	h.mu.Lock()
	if !ok || rm.Kind != kReq || rm.Req < 0 || rm.Req >= len(h.reqs) {
		h.v.Harness = fmt.Sprintf("peer %s asked to send an unknown message %T", p.addr, m)
		h.mu.Unlock()
		return
	}
	r := h.reqs[rm.Req]
	now := h.now()
	att := r.issues
	r.issues++
	if att >= 1 {
		h.retried = true
	}
	// "Unanswered requests are re-issued": an answered one is not.
	if r.finished && r.finishedAt < now {
		h.fail("C12/answered-request-reissued", "request %d of %s was answered at %s and is sent to peer %s again",
			r.id, r.b.name, ts(r.finishedAt), p.addr)
	}
	if vt, ok := r.b.firstVerdictAt(); ok && vt < now {
		// Requests of a batch that already has its verdict are still
		// handed to peers (once each) when the batch ended because one
		// of its requests ran out of retries.  Wasteful but not
		// excluded by the property: not asserted, only counted.
		h.zombie = true
	}
	p.lastReq, p.lastIssueAt = r, now
	p.nIssues++
	h.activity++
	h.issueLog = append(h.issueLog, issueRec{p, r})
	oc := r.outcome(att)
	h.logf("peer %s <- request %d (%s) attempt %d: %s", p.addr, r.id, r.b.name, att, ocString(oc, p.spec))
	h.mu.Unlock()
	if doneChan != nil {
		close(doneChan)
	}
	go p.play(r, oc)
}

func ocString(oc Outcome, ps PeerSpec) string {
	if ps.Mute {
		return "mute peer, no reply"
	}
	s := ""
	if ps.Lag > 0 {
		s += fmt.Sprintf("lag %d, ", ps.Lag)
	}
	if oc.Prog > 0 {
		s += fmt.Sprintf("%d progress msgs every %d, ", oc.Prog, oc.Gap)
	}
	if oc.Noise {
		s += "noise, "
	}
	return s + fmt.Sprintf("%s after %d", oc.Kind, oc.Delay)
}

func (p *mockPeer) sleep(ticks int) bool {
	if ticks <= 0 {
		select {
		case <-p.quit:
			return false
		case <-p.h.done:
			return false
		default:
			return true
		}
	}
	tm := time.NewTimer(time.Duration(ticks) * tick)
	defer tm.Stop()
	select {
	case <-tm.C:
		return true
	case <-p.quit:
		return false
	case <-p.h.done:
		return false
	}
}

// send delivers a message to every subscriber, like a real peer: it waits
// until the subscriber takes it or cancels its subscription.
func (p *mockPeer) send(m *tmsg) {
	h := p.h
	h.mu.Lock()
	subs := append([]*sub(nil), p.subs...)
	h.mu.Unlock()
	for _, s := range subs {
		select {
		case s.ch <- m:
		case <-s.cancel:
		case <-p.quit:
			return
		case <-h.done:
			return
		}
	}
}

func (p *mockPeer) play(r *reqState, oc Outcome) {
	if p.spec.Mute {
		return
	}
	if !p.sleep(p.spec.Lag) {
		return
	}
	for i := 0; i < oc.Prog; i++ {
		if !p.sleep(oc.Gap) {
			return
		}
		p.send(&tmsg{Kind: kProgress, Req: r.id, Peer: p.idx})
	}
	if oc.Noise {
		p.send(&tmsg{Kind: kNoise, Peer: p.idx})
		// the answer to some other request must not satisfy this one
		p.send(&tmsg{Kind: kFinal, Req: -1, Peer: p.idx})
	}
	if !p.sleep(oc.Delay) {
		return
	}
	switch oc.Kind {
	case "answer":
		p.send(&tmsg{Kind: kFinal, Req: r.id, Peer: p.idx})
	case "drop":
		if !p.spec.sturdy {
			p.disconnect("drops the connection while serving")
		}
	}
}

func (p *mockPeer) disconnect(why string) {
	h := p.h
	h.mu.Lock()
	defer h.mu.Unlock()
	if p.disconnected {
		return
	}
	p.disconnected = true
	p.discAt = h.now()
	h.activity++
	h.logf("peer %s %s", p.addr, why)
	close(p.quit)
}

// tryProbe offers an irrelevant message to the worker of the peer without
// blocking.  It must be called at quiescence: a worker that is waiting for
// messages (idle or on a job) then takes it at once.
func (p *mockPeer) tryProbe(seq int) (consumed, gone bool) {
	h := p.h
	h.mu.Lock()
	subs := append([]*sub(nil), p.subs...)
	p.probeHit = nil
	gone = len(subs) > 0
	for _, s := range subs {
		if !s.cancelled {
			gone = false
		}
	}
	h.mu.Unlock()
	m := &tmsg{Kind: kProbe, Peer: p.idx, Seq: seq}
	for _, s := range subs {
		select {
		case s.ch <- m:
			consumed = true
		default:
		}
	}
	return
}

// ---------------------------------------------------------------------------
// response handler of a request

func (h *harness) handler(r *reqState) func(req, resp wire.Message, peer string) query.Progress {
	return func(req, resp wire.Message, peerAddr string) query.Progress {
		m, ok := resp.(*tmsg)
		if !ok {
			return query.Progress{}
		}
		h.mu.Lock()
		defer h.mu.Unlock()
		switch {
		case m.Kind == kProbe:
			if m.Peer < len(h.peers) {
				h.peers[m.Peer].probeHit = r
			}
		case m.Kind == kFinal && m.Req == r.id:
			h.activity++
			if !r.finished {
				r.finished = true
				r.finishedAt = h.now()
				r.b.finishes = append(r.b.finishes, r.finishedAt)
			}
			h.logf("request %d (%s) answered by %s", r.id, r.b.name, peerAddr)
			return query.Progress{Finished: true, Progressed: true}
		case m.Kind == kProgress && m.Req == r.id:
			h.activity++
			return query.Progress{Progressed: true}
		}
		return query.Progress{}
	}
}

// ---------------------------------------------------------------------------
// recording pass-through around the real ranking

type rankRec struct {
	inner query.PeerRanking
	h     *harness
}

func (r *rankRec) AddPeer(p string)      { r.inner.AddPeer(p); r.h.onRank("add", p) }
func (r *rankRec) Reward(p string)       { r.inner.Reward(p); r.h.onRank("reward", p) }
func (r *rankRec) Punish(p string)       { r.inner.Punish(p); r.h.onRank("punish", p) }
func (r *rankRec) ResetRanking(p string) { r.inner.ResetRanking(p); r.h.onRank("reset", p) }
func (r *rankRec) Order(peers []string)  { r.inner.Order(peers) }

func (h *harness) onRank(kind, addr string) {
	h.mu.Lock()
	defer h.mu.Unlock()
	now := h.now()
	h.activity++
	s, known := h.score[addr]
	switch kind {
	case "add":
		if !known {
			h.score[addr] = defaultScore
		}
		return
	case "reward":
		if s > bestScore {
			s--
		}
	case "punish":
		if s < worstScore {
			s++
		}
	case "reset":
		s = defaultScore
	}
	if known {
		h.score[addr] = s
	}
	h.rankEvts[addr]++
	if kind == "reward" {
		return
	}
	// Which peer with that address?  Results are processed in the instant
	// they arise, so it is the one that is connected, or that disconnected
	// just now; only when an address reconnects in the very tick of the
	// disconnect are there two candidates.
	var cands []*mockPeer
	for _, q := range h.byAddr[addr] {
		if !q.offered {
			continue
		}
		switch kind {
		case "reset":
			if q.disconnected && q.discAt == now {
				cands = append(cands, q)
			}
		case "punish":
			if (!q.disconnected || q.discAt == now) && q.lastReq != nil && now-q.lastIssueAt >= minJobTimeout {
				cands = append(cands, q)
			}
		}
	}
	if len(cands) == 0 {
		for _, q := range h.byAddr[addr] {
			if q.offered {
				cands = append(cands[:0], q) // the latest, to have a name in the message
			}
		}
		if len(cands) == 0 {
			h.v.Harness = "ranking call for unknown peer " + addr
			return
		}
	}
	p := cands[len(cands)-1]

	// A job failed on peer p and the dispatcher took note of it (it only
	// does so for batches that have no verdict yet).
	//
	// Attribution.  A worker runs one job at a time and the dispatcher
	// processes its result before handing it the next, so a timed-out job
	// is the one most recently queued to the peer (a job that is handed to
	// a worker with its cancel channel already closed is not queued to the
	// peer, but such a job cannot time out: it ends at once).  A
	// disconnect result, however, can also come from such a never-queued
	// job (cancel and disconnect both ready, the worker's select picks
	// one); that requires a batch without verdict whose cancel channel is
	// closed, and then the attribution is marked ambiguous.
	r := p.lastReq
	fe := failEvt{t: now, p: p, kind: kind, r: r, ambiguous: len(cands) > 1}
	switch kind {
	case "punish":
		if r == nil || now-p.lastIssueAt < minJobTimeout {
			h.fail("C12/failure-without-cause", "a job on peer %s was failed with a timeout at %s although no request had been outstanding there for %v",
				addr, ts(now), minJobTimeout)
		}
	case "reset":
		if !p.disconnected || p.discAt != now {
			h.fail("C12/failure-without-cause", "a job on peer %s was failed as 'peer disconnected' at %s but no peer with that address disconnected then", addr, ts(now))
		}
		for _, b := range h.batches {
			if vt, ok := b.firstVerdictAt(); b.cancelClosed && b.returned && (!ok || vt >= now) {
				fe.ambiguous = true
			}
		}
	}
	if r == nil {
		fe.ambiguous = true
	} else {
		b := r.b
		r.failsHi++
		fe.hiAfter = r.failsHi
		if !fe.ambiguous {
			r.failsLo++
			b.resEvts = append(b.resEvts, now)
			if !b.noMax && r.failsLo >= b.capN && b.capEvt == nil {
				c := fe
				b.capEvt = &c
			}
		}
		h.logf("dispatcher: job on %s failed (%s), request %d (%s) failures %d%s", addr, kind, r.id, b.name, r.failsHi,
			map[bool]string{true: " [attribution uncertain]", false: ""}[fe.ambiguous])
	}
	h.failEvts = append(h.failEvts, fe)
}

// ---------------------------------------------------------------------------
// driver

type event struct {
	tick, kind, idx int
}

const (
	evConnect = iota
	evSubmit
	evCancel
	evDisconnect
	evStop
)

func (h *harness) connectedPeers() (<-chan query.Peer, func(), error) {
	return h.peerCh, func() {}, nil
}

func (h *harness) newPeer(spec PeerSpec) *mockPeer {
	p := &mockPeer{h: h, idx: len(h.peers), spec: spec, quit: make(chan struct{})}
	p.addr = fmt.Sprintf("p%d", p.idx)
	if spec.Reuse > 0 {
		p.addr = h.peers[spec.Reuse-1].addr
	}
	h.peers = append(h.peers, p)
	h.byAddr[p.addr] = append(h.byAddr[p.addr], p)
	return p
}

func (h *harness) newBatch(spec BatchSpec, probe bool) *batchState {
	b := &batchState{idx: len(h.batches), spec: spec, probe: probe}
	b.name = fmt.Sprintf("batch%d", b.idx)
	if probe {
		b.name = "probe-batch"
	}
	for _, rs := range spec.Reqs {
		r := &reqState{id: len(h.reqs), b: b, spec: rs}
		h.reqs = append(h.reqs, r)
		b.reqs = append(b.reqs, r)
	}
	b.noMax = spec.NoMax
	b.capN = spec.Retry
	if spec.Retry == -2 {
		b.capN = defaultRetries
	}
	if b.capN < 1 {
		// NumRetries(0): the first failure already reaches the cap.
		b.capN = 1
	}
	switch {
	case spec.Timeout < 0:
		b.hardT = defaultTimeout
	case spec.Timeout == 0:
		b.hardT = 1 // documented: Timeout(<=0) is normalised to 1ns = "fire immediately"
	default:
		b.hardT = time.Duration(spec.Timeout) * tick
	}
	b.idleP = time.Duration(spec.Idle) * tick
	if spec.Cancel != -2 {
		b.cancel = make(chan struct{})
	}
	h.batches = append(h.batches, b)
	return b
}

func (h *harness) connect(p *mockPeer) {
	h.mu.Lock()
	p.offered = true
	p.offeredAt = h.now()
	h.activity++
	for _, q := range h.byAddr[p.addr] {
		if q != p && q.offered && (!q.disconnected || q.discAt == p.offeredAt) {
			// (the scheduled disconnect of q is issued in this same tick)
			h.sameInstantReuse = true
		}
	}
	h.logf("peer %s (#%d) connects%s", p.addr, p.idx, map[bool]string{true: " (mute)", false: ""}[p.spec.Mute])
	h.mu.Unlock()
	go func() {
		select {
		case h.peerCh <- p:
			h.mu.Lock()
			p.accepted = true
			h.mu.Unlock()
		case <-h.done:
		}
	}()
}

func (h *harness) submit(b *batchState) {
	var reqs []*query.Request
	for _, r := range b.reqs {
		reqs = append(reqs, &query.Request{Req: &tmsg{Kind: kReq, Req: r.id}, HandleResp: h.handler(r)})
	}
	var opts []query.QueryOption
	sp := b.spec
	if sp.NoMax {
		opts = append(opts, query.NoRetryMax())
	}
	if sp.Retry >= 0 {
		opts = append(opts, query.NumRetries(uint8(sp.Retry)))
	}
	if sp.Timeout >= 0 {
		opts = append(opts, query.Timeout(time.Duration(sp.Timeout)*tick))
	}
	if sp.Idle > 0 {
		opts = append(opts, query.ProgressTimeout(time.Duration(sp.Idle)*tick))
	}
	if b.cancel != nil {
		opts = append(opts, query.Cancel(b.cancel))
	}
	h.mu.Lock()
	b.submitted = true
	b.submitAt = h.now()
	h.nSubmits++
	h.activity++
	h.logf("Query(%s: %d requests, retry=%d nomax=%v timeout=%v idle=%v cancel=%d unread=%v)", b.name, len(reqs), sp.Retry, sp.NoMax, b.hardT, b.idleP, sp.Cancel, sp.Unread)
	h.mu.Unlock()
	go func() {
		ch := h.wm.Query(reqs, opts...)
		h.mu.Lock()
		b.ch = ch
		b.returned = true
		h.mu.Unlock()
		if sp.Unread {
			return
		}
		for {
			select {
			case err := <-ch:
				h.mu.Lock()
				b.verdicts = append(b.verdicts, verdictRec{h.now(), err})
				h.nVerdicts++
				h.activity++
				h.logf("%s verdict: %v", b.name, errName(err))
				h.mu.Unlock()
			case <-h.done:
				return
			}
		}
	}()
}

func errName(err error) string {
	if err == nil {
		return "nil (success)"
	}
	return err.Error()
}

func (h *harness) cancelBatch(b *batchState) {
	h.mu.Lock()
	defer h.mu.Unlock()
	if b.cancel == nil || b.cancelClosed {
		return
	}
	b.cancelClosed = true
	b.cancelAt = h.now()
	h.nCancels++
	h.activity++
	h.logf("cancel channel of %s closed", b.name)
	close(b.cancel)
}

func (h *harness) stop() {
	h.mu.Lock()
	h.stopCalled = true
	h.stopAt = h.now()
	h.activity++
	h.logf("Stop()")
	h.mu.Unlock()
	go func() {
		_ = h.wm.Stop()
		h.mu.Lock()
		h.stopReturned = true
		h.logf("Stop returned")
		h.mu.Unlock()
	}()
}

// pollUnread notes the arrival of a verdict on channels nobody reads.
// Must be called with h.mu held, at quiescence.
func (h *harness) pollUnread() {
	for _, b := range h.batches {
		if b.spec.Unread && b.returned && !b.seen && len(b.ch) > 0 {
			b.seen = true
			b.seenAt = h.now()
			h.nVerdicts++
			h.logf("%s: a verdict is waiting in its (unread) channel", b.name)
		}
	}
}

// checkpoint inspects the quiescent system.  The caller has just called
// synctest.Wait.
func (h *harness) checkpoint() {
	now := h.now()
	h.mu.Lock()
	h.pollUnread()
	if h.stopCalled || h.v.Violation != "" {
		h.prev = nil
		h.issueLog = h.issueLog[:0]
		h.mu.Unlock()
		return
	}

	// The dispatcher must be responsive: every Query call has returned and
	// every connecting peer has been taken.
	for _, b := range h.batches {
		if b.submitted && !b.returned {
			h.fail("C12/dispatcher-stuck/query-call-blocks", "the Query call for %s (made at %s) has not returned although nothing else is running", b.name, ts(b.submitAt))
		}
	}
	var targets []*mockPeer
	for _, p := range h.peers {
		if p.offered && !p.accepted {
			h.fail("C12/dispatcher-stuck/peer-not-taken", "peer %s connected but the dispatcher does not take it although nothing else is running", p.addr)
		}
		if p.accepted && !p.disconnected {
			targets = append(targets, p)
		}
	}
	h.probeSeq++
	seq := h.probeSeq
	h.mu.Unlock()

	consumed := map[int]bool{}
	gone := map[int]bool{}
	for _, p := range targets {
		consumed[p.idx], gone[p.idx] = p.tryProbe(seq)
	}
	synctest.Wait()

	h.mu.Lock()
	defer h.mu.Unlock()
	idle := map[int]bool{}
	busy := map[*reqState]*mockPeer{}
	for _, p := range targets {
		switch {
		case p.disconnected:
			// dropped the connection meanwhile (cannot happen at quiescence)
		case !consumed[p.idx]:
			h.fail("C12/dispatcher-stuck/worker-not-listening", "the worker of connected peer %s takes no messages although nothing else is running (exited=%v)", p.addr, gone[p.idx])
		case p.probeHit != nil:
			busy[p.probeHit] = p
		default:
			idle[p.idx] = true
		}
	}
	var idleNames []string
	for _, p := range targets {
		if idle[p.idx] {
			idleNames = append(idleNames, p.addr)
		}
	}

	nAlive := 0
	for _, b := range h.batches {
		if !b.alive() {
			continue
		}
		if !b.probe {
			nAlive++
		}
		allDone := true
		var pending []int
		for _, r := range b.reqs {
			if r.finished {
				continue
			}
			allDone = false
			if p := busy[r]; p != nil {
				// A worker waits on the cancel channel of its job, so a
				// closed channel ends the job - and the batch - at once.
				if b.cancelClosed {
					h.fail("C12/cancel-ignored", "%s was cancelled at %s but peer %s still works on its request %d and the batch has no verdict",
						b.name, ts(b.cancelAt), p.addr, r.id)
				}
				continue
			}
			pending = append(pending, r.id)
		}
		if allDone {
			h.fail("C12/no-verdict-after-all-answered", "every request of %s has been answered (last at %s) but the batch has no verdict", b.name, ts(lastOf(b.finishes)))
		}
		// "Unanswered requests are re-issued to an available peer".
		if len(pending) > 0 && len(idleNames) > 0 {
			h.fail("C12/unanswered-request-not-reissued", "requests %v of %s (no verdict yet) are neither answered nor with any peer, while peers %v are connected and idle",
				pending, b.name, idleNames)
		}
		// ProgressTimeout: "The batch is canceled if no successful query
		// completes within this duration."  The timer is (re)armed at
		// submission and at every success.
		if b.idleP > 0 {
			arm := b.submitAt
			if n := len(b.finishes); n > 0 && b.finishes[n-1] > arm {
				arm = b.finishes[n-1]
			}
			if now >= arm+b.idleP {
				h.fail("C12/idle-timeout-missed", "%s has ProgressTimeout %v, its last success (or submission) was at %s, and it has no verdict at %s",
					b.name, b.idleP, ts(arm), ts(now))
			}
		}
		// Lazy outcomes (documented: the hard deadline is looked at when a
		// result for the batch arrives; a cancel channel is watched by the
		// workers, not by the dispatcher).  Counted, not asserted.
		if now > b.submitAt+b.hardT || b.cancelClosed {
			h.lazy = true
		}
	}
	if nAlive >= 2 {
		h.overlap = true
	}

	// Preference for the better record.  Between the previous checkpoint and
	// this one, a request was queued to peer P.  Peer Q was connected and
	// idle at both checkpoints, was queued nothing in between, and neither
	// score changed in between.  If no job can have ended without trace in
	// between (no verdict, no cancellation, so no job is handed out with a
	// closed cancel channel) Q was a free worker when the dispatcher chose
	// P, so Q must not have a strictly better score than P.
	sn := &snapshot{idle: idle, nIssues: map[int]int{}, nRankEvts: map[int]int{}, score: map[int]int{},
		verdicts: h.nVerdicts, cancels: h.nCancels, submits: h.nSubmits}
	for _, p := range h.peers {
		sn.nIssues[p.idx] = p.nIssues
		sn.nRankEvts[p.idx] = h.rankEvts[p.addr]
		sn.score[p.idx] = h.score[p.addr]
	}
	if pv := h.prev; pv != nil && pv.verdicts == sn.verdicts && pv.cancels == sn.cancels {
		clean := true
		for _, b := range h.batches {
			if b.cancelClosed && b.alive() {
				clean = false
			}
		}
		for _, is := range h.issueLog {
			p := is.p
			if !clean || !pv.idle[p.idx] || pv.nRankEvts[p.idx] != sn.nRankEvts[p.idx] {
				continue
			}
			for _, q := range h.peers {
				if q == p || !pv.idle[q.idx] || !idle[q.idx] || pv.nIssues[q.idx] != sn.nIssues[q.idx] ||
					pv.nRankEvts[q.idx] != sn.nRankEvts[q.idx] {
					continue
				}
				h.rankChecked = true
				sp, sq := pv.score[p.idx], pv.score[q.idx]
				if sp != sq {
					h.rankDecisive = true
				}
				if sq < sp {
					h.fail("C12/worse-ranked-peer-preferred", "request %d was given to peer %s (score %d) while peer %s with the better score %d was connected and idle",
						is.r.id, p.addr, sp, q.addr, sq)
				}
			}
		}
	}
	h.prev = sn
	h.issueLog = h.issueLog[:0]
}

func lastOf(d []time.Duration) time.Duration {
	if len(d) == 0 {
		return 0
	}
	return d[len(d)-1]
}

func (h *harness) run() {
	c := h.c
	h.start = time.Now()
	h.done = make(chan struct{})
	h.peerCh = make(chan query.Peer)
	h.byAddr = map[string][]*mockPeer{}
	h.rankEvts = map[string]int{}
	h.score = map[string]int{}

	var evs []event
	for i, ps := range c.Peers {
		h.newPeer(ps)
		evs = append(evs, event{ps.At, evConnect, i})
		if ps.Disc >= 0 {
			evs = append(evs, event{ps.Disc, evDisconnect, i})
		}
	}
	for i, bs := range c.Batches {
		h.newBatch(bs, false)
		evs = append(evs, event{bs.At, evSubmit, i})
		if bs.Cancel >= 0 {
			evs = append(evs, event{bs.Cancel, evCancel, i})
		}
	}
	if c.StopAt >= 0 {
		evs = append(evs, event{c.StopAt, evStop, 0})
	}
	sort.SliceStable(evs, func(i, j int) bool {
		if evs[i].tick != evs[j].tick {
			return evs[i].tick < evs[j].tick
		}
		return evs[i].kind < evs[j].kind
	})

	h.wm = query.NewWorkManager(&query.Config{
		ConnectedPeers: h.connectedPeers,
		NewWorker:      query.NewWorker,
		Ranking:        &rankRec{inner: query.NewPeerRanking(), h: h},
		OnMaxTries: func(query.Peer) {
			h.mu.Lock()
			h.maxTries++
			h.mu.Unlock()
		},
	})
	if err := h.wm.Start(); err != nil {
		h.v.Harness = "Start: " + err.Error()
		return
	}

	var probe *batchState
	probeStart := 0
	next := 0
	for tk := 0; ; tk++ {
		// All events of one tick are issued back to back, i.e. they are
		// concurrent as far as the dispatcher is concerned.
		for next < len(evs) && evs[next].tick <= tk {
			e := evs[next]
			next++
			switch e.kind {
			case evConnect:
				h.connect(h.peers[e.idx])
			case evDisconnect:
				h.peers[e.idx].disconnect("disconnects")
			case evSubmit:
				h.submit(h.batches[e.idx])
			case evCancel:
				h.cancelBatch(h.batches[e.idx])
			case evStop:
				h.stop()
			}
		}
		synctest.Wait()
		h.checkpoint()

		h.mu.Lock()
		failed := h.v.Violation != "" || h.v.Harness != ""
		stopped := h.stopCalled
		quiet := true
		for _, b := range h.batches {
			if !b.probe && b.submitted && b.alive() {
				quiet = false
			}
		}
		h.mu.Unlock()
		over := next == len(evs) && (quiet || tk >= scriptTicks)
		if failed {
			break
		}
		if !stopped && probe == nil && (over || (c.ProbeAt >= 0 && tk >= c.ProbeAt)) {
			// Probe: "a finished, cancelled or timed-out batch never blocks
			// later batches".  One more peer connects (it never drops the
			// connection) and one more batch, whose single request every
			// peer answers at once, is submitted; it must succeed.
			h.mu.Lock()
			pp := h.newPeer(PeerSpec{Disc: -1, sturdy: true})
			probe = h.newBatch(BatchSpec{Reqs: []ReqSpec{{Attempts: []Outcome{{Kind: "answer"}}}},
				Retry: -2, NoMax: true, Timeout: 4 * probeTicks, Cancel: -2}, true)
			h.mu.Unlock()
			if !quiet {
				h.probeAmidst = true
			}
			h.connect(pp)
			probeStart = tk
			h.submit(probe)
			synctest.Wait()
			h.checkpoint()
		}
		probeDone := false
		if probe != nil {
			h.mu.Lock()
			probeDone = !probe.alive() && probe.returned
			failed = h.v.Violation != "" || h.v.Harness != ""
			h.mu.Unlock()
		}
		if failed || (stopped && next == len(evs)) || (probeDone && over) {
			break
		}
		if probe != nil && !probeDone && tk-probeStart > probeTicks {
			h.mu.Lock()
			h.fail("C12/later-batch-blocked", "the probe batch submitted at %s, with a fresh well-behaved peer connected, has no verdict %d ticks later",
				ts(probe.submitAt), probeTicks)
			h.mu.Unlock()
			break
		}
		time.Sleep(tick)
	}

	// Shutdown.
	h.mu.Lock()
	stopped := h.stopCalled
	h.mu.Unlock()
	if !stopped {
		h.stop()
	}
	synctest.Wait()
	h.mu.Lock()
	h.pollUnread()
	h.mu.Unlock()
	time.Sleep(10 * tick)
	synctest.Wait()
	h.final()

	// Release every harness goroutine.  Whatever is still blocked when the
	// bubble ends belongs to the code under test (reported by runCase).
	close(h.done)
	for _, b := range h.batches {
		if b.ch != nil && b.spec.Unread {
			// free a dispatcher that hangs on a second send
			go func(ch chan error) {
				tm := time.NewTimer(tick)
				defer tm.Stop()
				for {
					select {
					case <-ch:
					case <-tm.C:
						return
					}
				}
			}(b.ch)
		}
	}
	time.Sleep(2 * tick)
	synctest.Wait()
}

// final evaluates the rules over the whole history, after Stop.
func (h *harness) final() {
	h.mu.Lock()
	defer h.mu.Unlock()
	v := h.v
	now := h.now()

	if !h.stopReturned {
		h.fail("C12/stop-does-not-return", "Stop() called at %s has not returned %v later", ts(h.stopAt), now-h.stopAt)
	}

	for _, b := range h.batches {
		if !b.submitted {
			continue
		}
		if !b.returned {
			h.fail("C12/dispatcher-stuck/query-call-blocks", "the Query call for %s (made at %s) never returned", b.name, ts(b.submitAt))
			continue
		}
		// Collect what an unread channel holds.
		if b.spec.Unread {
			at := now
			if b.seen {
				at = b.seenAt
			}
			for i := 0; i < 3; i++ {
				select {
				case err := <-b.ch:
					b.verdicts = append(b.verdicts, verdictRec{at, err})
					h.logf("%s verdict (read at the end, arrived by %s): %v", b.name, ts(at), errName(err))
				default:
				}
			}
		}
		switch len(b.verdicts) {
		case 1:
		case 0:
			h.fail("C12/no-verdict", "%s (submitted at %s) never got a verdict, not even after Stop", b.name, ts(b.submitAt))
			continue
		default:
			h.fail("C12/double-verdict", "%s got %d verdicts: %v at %s, then %v at %s", b.name, len(b.verdicts),
				errName(b.verdicts[0].err), ts(b.verdicts[0].t), errName(b.verdicts[1].err), ts(b.verdicts[1].t))
			continue
		}
		vt, err := b.verdicts[0].t, b.verdicts[0].err

		hardElapsed := vt >= b.submitAt+b.hardT
		idleElapsed := false
		if b.idleP > 0 {
			// the binding timer is the one armed by the last success
			// strictly before the verdict (a success at the same instant
			// may or may not have been seen first)
			arm := b.submitAt
			for _, f := range b.finishes {
				if f < vt && f > arm {
					arm = f
				}
			}
			idleElapsed = vt >= arm+b.idleP
		}
		// a request of the batch ran out of retries at this very instant
		capBy := func(kind string) bool {
			if b.noMax {
				return false
			}
			for _, fe := range h.failEvts {
				if fe.t != vt || fe.kind != kind {
					continue
				}
				if fe.r != nil && fe.r.b == b && fe.hiAfter >= b.capN {
					return true
				}
				if fe.ambiguous && b.cancelClosed && b.cancelAt <= vt {
					return true
				}
			}
			return false
		}

		cls := ""
		switch err {
		case nil:
			cls = "success"
			for _, r := range b.reqs {
				if r.issues > 1 {
					cls = "success-after-retry"
				}
			}
			for _, r := range b.reqs {
				if !r.finished || r.finishedAt > vt {
					h.fail("C12/success-with-unanswered-request", "%s reported success at %s but its request %d had not been answered", b.name, ts(vt), r.id)
				}
			}
		case query.ErrWorkManagerShuttingDown:
			cls = "shutdown"
			if !h.stopCalled || h.stopAt > vt {
				h.fail("C12/unjustified-error/shutdown", "%s got %q at %s but Stop had not been called", b.name, err, ts(vt))
			} else if b.submitAt >= h.stopAt {
				cls = "shutdown-at-submit"
			}
		case query.ErrJobCanceled:
			cls = "cancelled"
			if !b.cancelClosed || b.cancelAt > vt {
				h.fail("C12/unjustified-error/cancelled", "%s got %q at %s but its cancel channel was not closed", b.name, err, ts(vt))
			}
		case query.ErrQueryTimeout:
			switch {
			case capBy("punish"):
				cls = "retries-exhausted(timeout)"
			case idleElapsed:
				cls = "idle-timeout"
			case hardElapsed:
				cls = "hard-timeout"
			default:
				h.fail("C12/unjustified-error/timeout", "%s got %q at %s: its hard timeout (%v from %s) had not elapsed, nor its idle timeout (%v), and no request of it had just failed its last allowed attempt by timing out",
					b.name, err, ts(vt), b.hardT, ts(b.submitAt), b.idleP)
			}
		case query.ErrPeerDisconnected:
			cls = "retries-exhausted(disconnect)"
			if !capBy("reset") {
				h.fail("C12/unjustified-error/disconnected", "%s got %q at %s but no request of it had just failed its last allowed attempt by a disconnect", b.name, err, ts(vt))
			}
		default:
			h.fail("C12/undocumented-error", "%s got the undocumented error %q", b.name, err)
		}
		if b.probe {
			if err != nil && !(err == query.ErrWorkManagerShuttingDown && h.c.StopAt >= 0) {
				h.fail("C12/later-batch-fails", "the probe batch (NoRetryMax, no cancel, timeout %v, every peer answers it at once) ended with %q", b.hardT, err)
			}
			v.Class("probe-batch:%s", cls)
		} else if cls != "" {
			v.Class("verdict:%s", cls)
		}

		// Retry cap: when a request fails for the last allowed time the
		// batch ends there and then, with that error.
		if ce := b.capEvt; ce != nil {
			want := query.ErrQueryTimeout
			if ce.kind == "reset" {
				want = query.ErrPeerDisconnected
			}
			if vt > ce.t || (vt == ce.t && err != want) {
				h.fail("C12/retry-cap-not-enforced", "request %d of %s failed for the %d. time at %s (cap %d) but the batch verdict is %v at %s",
					ce.r.id, b.name, ce.r.failsLo, ts(ce.t), b.capN, errName(err), ts(vt))
			}
		}
		// Hard timeout: looked at whenever a result for the batch arrives.
		for _, t := range append(append([]time.Duration{}, b.resEvts...), b.finishes...) {
			if t > b.submitAt+b.hardT && vt > t {
				h.fail("C12/hard-timeout-not-enforced", "a job of %s ended at %s, after the batch's hard deadline %s, but the batch went on (verdict at %s)",
					b.name, ts(t), ts(b.submitAt+b.hardT), ts(vt))
			}
		}
		// All answered => verdict at that instant at the latest.
		all := true
		for _, r := range b.reqs {
			all = all && r.finished
		}
		if all && vt > lastOf(b.finishes) {
			h.fail("C12/no-verdict-after-all-answered", "every request of %s was answered by %s but the verdict only came at %s", b.name, ts(lastOf(b.finishes)), ts(vt))
		}
	}
}

func runCase(t *testing.T, c Case) (v kit.Verdict) {
	h := &harness{c: c, v: &v}
	if os.Getenv("VERIF_DEBUG") == "cases" {
		// a panic in a dispatcher goroutine kills the process: leave a trail
		b, _ := json.Marshal(c)
		fmt.Fprintf(os.Stderr, "CASE %s\n", b)
	}
	defer func() {
		if r := recover(); r != nil {
			msg := fmt.Sprint(r)
			if strings.Contains(msg, "deadlock") {
				v.Logf("bubble ended with blocked goroutines: %s", msg)
				v.Fail("C12/goroutines-blocked-after-stop", "after Stop and after releasing every harness goroutine, goroutines of the dispatcher are still blocked: %s", msg)
				return
			}
			buf := make([]byte, 1<<14)
			buf = buf[:runtime.Stack(buf, false)]
			v.Harness = "panic: " + msg + "\n" + string(buf)
		}
	}()
	synctest.Test(t, func(t *testing.T) { h.run() })

	v.Nontrivial = h.retried && h.overlap
	v.Class("peers=%d", len(c.Peers))
	v.Class("batches=%d", len(c.Batches))
	if h.retried {
		v.Class("retried")
	}
	if h.overlap {
		v.Class("overlapping-batches")
	}
	if h.zombie {
		v.Class("request-issued-after-batch-verdict")
	}
	if h.lazy {
		v.Class("verdict-deferred(deadline-or-cancel-not-yet-noticed)")
	}
	for _, p := range c.Peers {
		if p.Reuse > 0 {
			v.Class("address-reconnects")
			break
		}
	}
	if h.rankChecked {
		v.Class("rank-choice-observed")
	}
	if h.rankDecisive {
		v.Class("rank-choice-observed/distinct-scores")
	}
	if c.StopAt >= 0 {
		v.Class("stop-early")
	}
	if h.probeAmidst {
		v.Class("probe-launched-amid-live-batches")
	}
	for _, b := range c.Batches {
		if b.Unread {
			v.Class("batch-option:result-channel-never-read")
		}
		if b.NoMax {
			v.Class("batch-option:no-retry-max")
		}
		if b.Timeout == 0 {
			v.Class("batch-option:timeout(0)")
		}
		if b.Idle > 0 {
			v.Class("batch-option:progress-timeout")
		}
		if b.Cancel >= 0 {
			v.Class("batch-option:cancel")
		}
	}
	if h.maxTries > 0 {
		v.Class("on-max-tries-called")
	}
	// every class at most once per case
	seen := map[string]bool{}
	uniq := v.Classes[:0]
	for _, cl := range v.Classes {
		if !seen[cl] {
			seen[cl] = true
			uniq = append(uniq, cl)
		}
	}
	v.Classes = uniq
	if os.Getenv("VERIF_DEBUG") != "" && v.Violation != "" {
		fmt.Println(strings.Join(v.Trace, "\n"))
	}
	return v
}

func TestC12(t *testing.T) {
	kit.RunProp(t, kit.Prop[Case]{ID: "C12", Name: "query", Gen: genCase, Run: runCase})
}
