// Package c01: the stored block-header chain is always fully valid, whatever
// peers send (property C01).
package c01

import (
	"fmt"
	"os"
	"strings"
	"testing"

	"github.com/btcsuite/btcd/chainhash/v2"
	"github.com/lightninglabs/neutrino/headerfs"
	"pgregory.net/rapid"

	"verifharness/kit"
	"verifharness/netsim"
)

type oracle struct {
	v       *kit.Verdict
	w       *kit.World
	prev    *netsim.ChainSnap
	seen    map[chainhash.Hash]int64 // hash -> virtual time first seen in the store
	badSeen bool                     // an invalid / forked / out-of-order batch was delivered
	after   bool                     // ... and a header was accepted afterwards
	dangling bool                    // a batch with a valid prefix and an invalid tail was delivered
	last    string
}

func (o *oracle) check(s *netsim.Sim, bs headerfs.BlockHeaderStore, when string) bool {
	sn, e := netsim.SnapChain(bs)
	if e != "" {
		o.fail("unreadable", "%s: %s", when, e)
		return false
	}
	now := netsim.Now()
	for _, h := range sn.Hashes {
		if _, ok := o.seen[h]; !ok {
			o.seen[h] = now
			if o.badSeen && o.prev != nil {
				o.after = true
			}
		}
	}
	if e := o.w.Rules.CheckChain(sn.Hdrs, 1, func(h chainhash.Hash) int64 { return o.seen[h] }); e != "" {
		o.fail("invalid-chain", "%s: stored chain (tip %d) is not valid: %s", when, sn.Tip, e)
		return false
	}
	for h, want := range o.w.Rules.Checkpoints {
		if uint32(h) <= sn.Tip && sn.Hashes[h] != want {
			o.fail("checkpoint", "%s: height %d differs from the checkpoint", when, h)
			return false
		}
	}
	gone := map[chainhash.Hash]bool{}
	cur := map[chainhash.Hash]bool{}
	for _, h := range sn.Hashes {
		cur[h] = true
	}
	for h := range o.seen {
		if !cur[h] {
			gone[h] = true
		}
	}
	if e := netsim.CheckLookups(bs, sn, 0, gone); e != "" {
		o.fail("lookup-disagree", "%s: %s", when, e)
		return false
	}
	o.prev = sn
	return true
}

func (o *oracle) fail(symptom, format string, a ...any) {
	sig := "C01/" + symptom
	if o.dangling {
		sig = "C01/dangling-valid-prefix/" + symptom
	}
	o.v.Fail(sig, format, a...)
	o.v.Logf("VIOLATION %s", fmt.Sprintf(format, a...))
}

func (o *oracle) Started(s *netsim.Sim) {
	o.check(s, s.CS.BlockHeaders, "after start")
	o.api(s, "after start")
}

func (o *oracle) api(s *netsim.Sim, when string) {
	if o.v.Violation != "" || o.prev == nil {
		return
	}
	bb, err := s.CS.BestBlock()
	if err != nil {
		o.fail("bestblock", "%s: BestBlock fails: %v", when, err)
		return
	}
	if uint32(bb.Height) > o.prev.Tip || o.prev.Hashes[bb.Height] != bb.Hash {
		o.fail("bestblock", "%s: BestBlock (%d,%v) is not the stored header at that height", when, bb.Height, bb.Hash)
		return
	}
	for _, h := range []uint32{0, o.prev.Tip / 2, o.prev.Tip} {
		hash, err := s.CS.GetBlockHash(int64(h))
		if err != nil || *hash != o.prev.Hashes[h] {
			o.fail("getblockhash", "%s: GetBlockHash(%d) = %v, %v", when, h, hash, err)
			return
		}
		hdr, err := s.CS.GetBlockHeader(hash)
		if err != nil || hdr.BlockHash() != *hash {
			o.fail("getblockheader", "%s: GetBlockHeader(hash of %d) fails: %v", when, h, err)
			return
		}
	}
}

func (o *oracle) After(s *netsim.Sim, d *netsim.Delivered) {
	if o.v.Violation != "" {
		return
	}
	e := d.Event
	if d.Sent && (e.Kind == "headers" || e.Kind == "lie") {
		role := "other"
		if lp := s.LastHeadersPeer(); lp != nil && lp.Idx == e.Peer {
			role = "asked"
		}
		if e.Mut != "" || e.Mode != "" {
			o.badSeen = true
			pos := "mid"
			if e.K == 0 {
				pos = "first"
			} else if e.K == e.Len-1 {
				pos = "last"
			}
			o.v.Class("bad:%s%s/%s/%s", e.Mut, e.Mode, role, pos)
			if e.Mut != "" && e.K > 0 && e.Mut != kit.MutPrev {
				o.dangling = true
			}
		} else if e.Kind == "headers" {
			o.v.Class("honest-batch/%s", role)
		}
	}
	if d.Sent && e.Kind == "view" && e.To.B > 0 {
		o.badSeen = true
		o.v.Class("fork-view")
	}
	tipBefore := uint32(0)
	if o.prev != nil {
		tipBefore = o.prev.Tip
	}
	when := fmt.Sprintf("after event %d (%s)", d.Index, e)
	ok := o.check(s, s.CS.BlockHeaders, when)
	o.api(s, when)
	if ok {
		o.v.Logf("%-60s sent=%v tip %d -> %d", e.String(), d.Sent, tipBefore, o.prev.Tip)
	}
}

func (o *oracle) Finished(s *netsim.Sim) {
	if o.v.Violation != "" {
		return
	}
	s.Shutdown(nil)
	// Reopen the data directory and repeat the walk on fresh store objects.
	db, err := netsim.OpenDB(s.Dir, false)
	if err != nil {
		o.v.Harness = "reopen db: " + err.Error()
		return
	}
	defer db.Close()
	params := o.w.Params
	bs, err := headerfs.NewBlockHeaderStore(s.Dir, db, &params)
	if err != nil {
		o.fail("reopen", "block header store cannot be reopened after Stop: %v", err)
		return
	}
	prevTip := o.prev
	if o.check(s, bs, "after reopen") && prevTip != nil {
		if o.prev.Tip != prevTip.Tip || o.prev.Hashes[o.prev.Tip] != prevTip.Hashes[prevTip.Tip] {
			o.fail("reopen", "chain after reopen (tip %d) differs from chain before Stop (tip %d)", o.prev.Tip, prevTip.Tip)
		}
	}
}

func genCase(t *rapid.T) netsim.Script {
	return netsim.GenScript(t, netsim.GenOpts{MaxBase: 60, MaxFuture: 40, MaxBranches: 3, MaxBLen: 25, MaxPeers: 4,
		MinEvents: 4, MaxEvents: 30, Checkpoints: true, Prefill: true})
}

func runCase(t *testing.T, sc netsim.Script) kit.Verdict {
	var v kit.Verdict
	w := kit.BuildWorld(sc.World)
	o := &oracle{v: &v, w: w, seen: map[chainhash.Hash]int64{}}
	res := netsim.Exec(t, sc, netsim.Config{}, o)
	if res.Harness != "" {
		v.Harness = res.Harness
	}
	if res.Spin != "" {
		v.Class("abandoned:client-busy-loop")
		v.Logf("client goroutine busy-loops, case abandoned: %s", res.Spin)
		if os.Getenv("VERIF_DEBUG") != "" {
			fmt.Println(strings.Join(v.Trace, "\n"))
		}
	}
	v.Nontrivial = o.badSeen && o.after
	p := sc.World.P
	v.Class("params:retarget=%d,mindiff=%v,bip94=%v", p.Retarget, p.MinDiff, p.BIP94)
	v.Class("checkpoints=%d", len(sc.World.Checkpoints))
	v.Class("peers=%d", sc.NPeers)
	return v
}

func TestC01(t *testing.T) {
	kit.RunProp(t, kit.Prop[netsim.Script]{ID: "C01", Name: "netsim", Gen: genCase, Run: runCase})
}

func TestMain(m *testing.M) {
	code := m.Run()
	netsim.CleanupTemplates()
	os.Exit(code)
}
