// Package c10: GetUtxo reports the true fate of an outpoint, exactly once
// (property C10).
//
// A case is a chain with births, spends and respends (c10_world_test.go), a
// set of GetUtxo requests and a script of events. The real ChainService runs
// in a synctest bubble against scripted peers. The peers WITHHOLD every answer
// to getcfilters and getdata(block) until the script releases it, which is
// the scripted response delay that paces the batch scan one network step at a
// time: after every event the bubble is brought to quiescence, so a running
// scan is then parked at a known height waiting for a filter or a block, and
// the next event (a new request, a duplicate, a new block, a cancel, Stop,
// the passing of time) arrives exactly there. The requests are made through
// the public ChainService.GetUtxo from goroutines of their own.
//
// Oracle. For every call that returns a report: the report must equal the
// reference fate (refFate, computed from the serialised blocks) of the
// outpoint from the request's start height on a chain that ends at some height
// between the client's best block when the call was made and the highest
// block announced when it returned (blocks may arrive during the scan and
// the property does not say which of them the scan still has to see). For
// every call that returns an error: an error is accepted only if the client
// was stopped, the request was cancelled, or some network answer was withheld
// from the client for at least its shortest query timeout (2 s) while the
// request was outstanding; where an error is allowed a correct report is
// accepted too (a timed-out fetch is retried and may succeed). Every call
// must have returned when the script is over, all answers are let through
// and 1000 virtual seconds have passed, or when Stop has returned. Requests
// whose start height is above the client's best block when they are made are
// a separately counted class without a liveness assertion (the scanner keeps
// them queued and polls; the verif-tag yield hook turns that poll into a
// 250 ms virtual sleep); if they are answered the answer is checked.
//
// Not covered: GetUtxoRequest.Result cannot be read twice through the public
// API (GetUtxo reads it once and the request object is not exposed).
package c10

import (
	"crypto/sha256"
	"errors"
	"fmt"
	"os"
	"strings"
	"sync"
	"testing"
	"time"

	"github.com/btcsuite/btcd/chainhash/v2"
	"github.com/btcsuite/btcd/wire/v2"
	"github.com/lightninglabs/neutrino"
	"github.com/lightninglabs/neutrino/headerfs"
	"pgregory.net/rapid"

	"verifharness/kit"
	"verifharness/netsim"
)

// Req selects an outpoint and a start height; selections are resolved against
// the chain when the case runs.
type Req struct {
	// Kind: unspent | spent | sameblock | respent | multi | badindex | never
	Kind string `json:"kind"`
	Sel  int    `json:"sel"`
	// Start: birth | zero | before | mid | spend | between | after | tip | any | above
	Start string `json:"start"`
	Arg   int    `json:"arg"`
	// Rel relates the request to the earlier request Ref (mod its index):
	// dup (same outpoint, same start) | diffstart (same outpoint, own start)
	// | sibling (another output index of the same transaction).
	Rel string `json:"rel,omitempty"`
	Ref int    `json:"ref,omitempty"`
}

// Ev is one step of the script; the bubble is settled after each.
type Ev struct {
	// Op: req (issue the next request) | rel (release N withheld answers;
	// what is not used up lets the next answers pass at once) | block (all
	// peers announce the next block) | blockrel (announce and release N
	// without settling in between) | adv (N virtual milliseconds pass) |
	// cancel (close the quit channel of issued request N) | stop
	Op string `json:"op"`
	N  int    `json:"n,omitempty"`
}

// Fail makes a block unobtainable: no peer ever serves the block at the start
// height (At=start) or at the first spend at or after the start height
// (At=spend) of request Req.
type Fail struct {
	Req int    `json:"req"`
	At  string `json:"at"`
}

type Case struct {
	Seed  uint64 `json:"seed"`
	Base  int    `json:"base"`
	Peers int    `json:"peers"`
	Reqs  []Req  `json:"reqs"`
	Evs   []Ev   `json:"evs"`
	Fail  []Fail `json:"fail,omitempty"`
}

var bases = []int{6, 12, 24}

func genCase(t *rapid.T) Case {
	c := Case{
		Seed:  uint64(kit.Uni(t, "wseed", 5)),
		Base:  kit.Pick(t, "base", bases),
		Peers: 1 + kit.Uni(t, "peers", 2),
	}
	kinds := []string{"unspent", "spent", "spent", "sameblock", "respent", "respent", "multi", "badindex", "never"}
	starts := []string{"birth", "birth", "birth", "birth", "zero", "before", "mid", "spend", "between", "between", "after", "tip", "any"}
	reqGen := rapid.Custom(func(t *rapid.T) Req {
		r := Req{Kind: kit.Pick(t, "kind", kinds), Sel: rapid.IntRange(0, 400).Draw(t, "sel"),
			Start: kit.Pick(t, "start", starts), Arg: rapid.IntRange(0, 40).Draw(t, "arg")}
		if kit.Uni(t, "above", 25) == 0 {
			r.Start = "above"
		}
		switch kit.Uni(t, "rel", 10) {
		case 0, 1:
			r.Rel = "dup"
		case 2, 3, 4:
			r.Rel = "diffstart"
		case 5, 6:
			r.Rel = "sibling"
		}
		if r.Rel != "" {
			r.Ref = rapid.IntRange(0, 5).Draw(t, "ref")
		}
		return r
	})
	c.Reqs = rapid.SliceOfN(reqGen, 1, 6).Draw(t, "reqs")
	ops := []string{"req", "req", "req", "req", "req", "rel", "rel", "rel", "rel", "rel", "rel", "adv", "adv", "block", "blockrel", "cancel"}
	evGen := rapid.Custom(func(t *rapid.T) Ev {
		e := Ev{Op: kit.Pick(t, "op", ops)}
		if kit.Uni(t, "stop", 40) == 0 {
			e.Op = "stop"
		}
		switch e.Op {
		case "rel", "blockrel":
			e.N = kit.Pick(t, "n", []int{1, 1, 1, 1, 1, 2, 2, 3, 50})
		case "adv":
			e.N = kit.Pick(t, "ms", []int{100, 1500, 2500, 7000, 35000})
		case "cancel":
			e.N = rapid.IntRange(0, 5).Draw(t, "which")
		}
		return e
	})
	c.Evs = rapid.SliceOfN(evGen, 0, 24).Draw(t, "evs")
	if kit.Uni(t, "faulty", 6) == 0 {
		failGen := rapid.Custom(func(t *rapid.T) Fail {
			return Fail{Req: rapid.IntRange(0, 5).Draw(t, "freq"), At: kit.Pick(t, "fat", []string{"start", "spend", "spend"})}
		})
		c.Fail = rapid.SliceOfN(failGen, 1, 2).Draw(t, "fail")
	}
	return c
}

// ---------------------------------------------------------------- reference

// fate is the reference answer for (outpoint, start height, last scanned height).
type fate struct {
	Kind string // spend | output | empty
	// spend
	Txid   chainhash.Hash
	In     uint32
	Height uint32
	// output
	Value   int64
	Script  string
	BHash   chainhash.Hash
	BHeight uint32
	BIndex  uint32
}

func (f fate) String() string {
	switch f.Kind {
	case "spend":
		return fmt.Sprintf("spent by input %d of %v at height %d", f.In, f.Txid, f.Height)
	case "output":
		return fmt.Sprintf("unspent output (value %d) of transaction %d of block %d", f.Value, f.BIndex, f.BHeight)
	}
	return "empty report"
}

// refFate scans the serialised blocks start..end of the chain: the earliest
// (block, transaction, input) spending op; else the output if the start block
// creates it; else the empty report.
func refFate(path []*kit.Node, op wire.OutPoint, start, end int) fate {
	for h := start; h <= end && h < len(path); h++ {
		for _, tx := range path[h].Block.Transactions {
			for i, in := range tx.TxIn {
				if in.PreviousOutPoint == op {
					return fate{Kind: "spend", Txid: tx.TxHash(), In: uint32(i), Height: uint32(h)}
				}
			}
		}
	}
	if start < len(path) {
		for ti, tx := range path[start].Block.Transactions {
			if tx.TxHash() == op.Hash && op.Index < uint32(len(tx.TxOut)) {
				o := tx.TxOut[op.Index]
				return fate{Kind: "output", Value: o.Value, Script: string(o.PkScript), BHash: path[start].Hash,
					BHeight: uint32(start), BIndex: uint32(ti)}
			}
		}
	}
	return fate{Kind: "empty"}
}

// gotFate turns a SpendReport into the same shape ("" = well-formed).
func gotFate(r *neutrino.SpendReport) (fate, string) {
	switch {
	case r == nil:
		return fate{Kind: "empty"}, ""
	case r.SpendingTx != nil && r.Output != nil:
		return fate{}, "report carries both a spending transaction and an unspent output"
	case r.SpendingTx != nil:
		return fate{Kind: "spend", Txid: r.SpendingTx.TxHash(), In: r.SpendingInputIndex, Height: r.SpendingTxHeight}, ""
	case r.Output != nil:
		f := fate{Kind: "output", Value: r.Output.Value, Script: string(r.Output.PkScript), BHeight: r.BlockHeight, BIndex: r.BlockIndex}
		if r.BlockHash != nil {
			f.BHash = *r.BlockHash
		}
		return f, ""
	}
	return fate{}, "non-nil report with neither a spending transaction nor an output"
}

// ---------------------------------------------------------------- resolving

type rreq struct {
	op     wire.OutPoint
	script []byte
	start  int
	info   *outInfo // nil: outpoint does not exist
	txH    int      // height of the block holding the transaction (0: none)
	desc   string

	// run state (guarded by run.mu)
	issued      bool
	done        bool
	rep         *neutrino.SpendReport
	err         error
	te, tr      time.Time
	tipLo       int // client's best height when the request was made
	tipHi       int // highest announced height when the call returned
	cancel      chan struct{}
	cancelled   bool
	cancelledAt time.Time
	afterStop   bool
	duringScan  bool
}

func clamp(x, lo, hi int) int {
	if x < lo {
		return lo
	}
	if x > hi {
		return hi
	}
	return x
}

func resolve(c Case, wi *worldIndex) []*rreq {
	base := c.Base
	byOp := map[wire.OutPoint]*outInfo{}
	for _, oi := range wi.Outs {
		byOp[oi.Op] = oi
	}
	var out []*rreq
	for i, q := range c.Reqs {
		r := &rreq{}
		var ref *rreq
		if q.Rel != "" && i > 0 {
			ref = out[q.Ref%i]
		}
		pickStart := true
		switch {
		case ref != nil && q.Rel == "dup":
			r.op, r.script, r.info, r.txH, r.start = ref.op, ref.script, ref.info, ref.txH, ref.start
			r.desc = "dup"
			pickStart = false
		case ref != nil && q.Rel == "diffstart":
			r.op, r.script, r.info, r.txH = ref.op, ref.script, ref.info, ref.txH
			r.desc = "diffstart"
		case ref != nil && q.Rel == "sibling" && ref.txH > 0:
			r.op = wire.OutPoint{Hash: ref.op.Hash, Index: ref.op.Index + 1}
			if q.Arg%3 == 0 && ref.op.Index > 0 {
				r.op.Index = ref.op.Index - 1
			}
			r.script, r.txH = ref.script, ref.txH
			if oi := byOp[r.op]; oi != nil {
				r.info, r.script = oi, oi.Script
			}
			r.desc = "sibling"
			if q.Arg%2 == 0 {
				// most siblings are asked for from the same block
				r.start = ref.start
				pickStart = false
			}
		default:
			list := wi.Unspent
			switch q.Kind {
			case "spent":
				list = wi.Spent
			case "sameblock":
				list = wi.SameBlock
			case "respent":
				list = wi.Respent
			case "multi":
				list = wi.Multi
			case "badindex":
				list = wi.Multi
			}
			if len(list) == 0 {
				list = wi.Unspent
			}
			switch q.Kind {
			case "never":
				h := sha256.Sum256([]byte(fmt.Sprintf("never-%d", q.Sel)))
				r.op = wire.OutPoint{Hash: chainhash.Hash(h), Index: uint32(q.Arg % 2)}
				r.script = wi.W.Keys[q.Sel%len(wi.W.Keys)].Script
				r.txH = 0
			case "badindex":
				oi := wi.Outs[list[q.Sel%len(list)]]
				r.op = wire.OutPoint{Hash: oi.Op.Hash, Index: uint32(oi.NOuts + q.Arg%3)}
				r.script, r.txH = oi.Script, oi.Height
			default:
				oi := wi.Outs[list[q.Sel%len(list)]]
				r.op, r.script, r.info, r.txH = oi.Op, oi.Script, oi, oi.Height
			}
			r.desc = q.Kind
		}
		if pickStart {
			b := r.txH
			if b == 0 {
				b = 1 + q.Sel%base
			}
			var sp []int
			if r.info != nil {
				sp = r.info.Spends
			}
			a := q.Arg
			st := b
			switch q.Start {
			case "zero":
				st = 0
			case "before":
				st = b - 1 - a%3
			case "mid":
				if len(sp) > 0 && sp[0]-b >= 2 {
					st = b + 1 + a%(sp[0]-b-1)
				} else if len(sp) == 0 {
					st = b + a%(base-b+1)
				}
			case "spend":
				if len(sp) > 0 {
					st = sp[0]
				}
			case "between":
				if len(sp) >= 2 {
					st = sp[0] + 1
					if sp[1] > sp[0] {
						st = sp[0] + 1 + a%(sp[1]-sp[0])
					}
				} else if len(sp) == 1 {
					st = sp[0] + 1
				}
			case "after":
				if len(sp) > 0 {
					st = sp[len(sp)-1] + 1
				} else {
					st = b + 1 + a%3
				}
			case "tip":
				st = base
			case "any":
				st = a % (base + 1)
			}
			r.start = clamp(st, 0, base)
			if q.Start == "above" {
				r.start = base + 1 + a%(worldFuture+1)
			}
			r.desc += "/" + q.Start
		}
		out = append(out, r)
	}
	return out
}

// ---------------------------------------------------------------- running

type netReq struct {
	peer     *netsim.Peer
	msg      wire.Message
	what     string
	height   int
	isData   bool
	recv     time.Time
	answered bool
	ans      time.Time
	dropped  bool
}

const minQueryTimeout = 2 * time.Second // query.minQueryTimeout: below this no query can fail

func runCase(t *testing.T, c Case) kit.Verdict {
	var v kit.Verdict
	wi := getWorld(c.Seed, c.Base)
	w, path := wi.W, wi.Path
	rs := resolve(c, wi)

	var mu sync.Mutex
	var held []*netReq
	var netlog []*netReq
	credit := 0
	auto := false
	announced := c.Base
	lastScanH := -1
	stopped := false
	var stopAt time.Time
	failH := map[int]bool{}
	for _, f := range c.Fail {
		r := rs[f.Req%len(rs)]
		h := r.start
		if f.At == "spend" {
			ft := refFate(path, r.op, r.start, len(path)-1)
			if ft.Kind != "spend" {
				continue
			}
			h = int(ft.Height)
		}
		if h >= 0 && h < len(path) {
			failH[h] = true
		}
	}

	// All violations of a case are collected; the verdict reports the first
	// one that is not one of the narrowly described ones (see the end of
	// runCase), so that those do not hide anything else in the same case.
	type violation struct{ sig, msg string }
	var violations []violation
	fail := func(sig, format string, a ...any) {
		violations = append(violations, violation{"C10/" + sig, fmt.Sprintf(format, a...)})
		v.Logf("VIOLATION [%s] "+format, append([]any{sig}, a...)...)
	}

	cfg := netsim.Config{World: w, NumPeers: c.Peers, Prefill: c.Base}
	for i := 0; i < c.Peers; i++ {
		cfg.Initial = append(cfg.Initial, i)
	}
	setup := func(s *netsim.Sim) {
		for _, p := range s.Peers {
			p.SetView(path[c.Base], false)
			p.Override = func(p *netsim.Peer, m wire.Message) bool {
				nr := &netReq{peer: p, msg: m, recv: time.Now()}
				h := -1
				switch g := m.(type) {
				case *wire.MsgGetCFilters:
					h = int(g.StartHeight)
					nr.what = fmt.Sprintf("getcfilters from %d", h)
				case *wire.MsgGetData:
					for _, iv := range g.InvList {
						if n := w.ByHash[iv.Hash]; n != nil {
							h = int(n.Height)
						}
					}
					nr.what = fmt.Sprintf("getdata block %d", h)
				default:
					return false
				}
				_, nr.isData = m.(*wire.MsgGetData)
				nr.height = h
				mu.Lock()
				netlog = append(netlog, nr)
				lastScanH = h
				if nr.isData && failH[h] {
					nr.dropped = true
					mu.Unlock()
					return true
				}
				if auto || credit > 0 {
					if !auto {
						credit--
					}
					nr.answered, nr.ans = true, nr.recv
					mu.Unlock()
					p.Answer(m)
					return true
				}
				held = append(held, nr)
				mu.Unlock()
				return true
			}
		}
	}
	release := func(n int) {
		mu.Lock()
		k := min(n, len(held))
		items := held[:k:k]
		held = held[k:]
		credit = n - k // what is not used up lets the next answers pass; it does not add up
		now := time.Now()
		for _, it := range items {
			it.answered, it.ans = true, now
		}
		mu.Unlock()
		for _, it := range items {
			it.peer.Answer(it.msg)
		}
	}

	spun := false
	ended := false // the script is over; what returns during the harness's own shutdown does not count
	hashAt := func(h int) chainhash.Hash {
		if h >= 0 && h < len(path) {
			return path[h].Hash
		}
		return chainhash.Hash{}
	}
	next := 0 // next request to issue
	issue := func(s *netsim.Sim) {
		if next >= len(rs) {
			return
		}
		i := next
		next++
		r := rs[i]
		tip := 0
		mu.Lock()
		isStopped := stopped
		tip = announced
		mu.Unlock()
		if !isStopped {
			// The client's own view of the tip; it is what the scan is
			// entitled to stop at.
			if bb, err := s.CS.BestBlock(); err == nil {
				tip = int(bb.Height)
			}
		}
		mu.Lock()
		r.issued, r.te, r.tipLo, r.afterStop = true, time.Now(), tip, isStopped
		r.cancel = make(chan struct{})
		pos := "idle"
		// A scan is running iff an earlier request is outstanding and the
		// scanner is parked on a network answer that is being withheld
		// (the bubble was settled before this event).
		parked := len(held) > 0 || (len(netlog) > 0 && netlog[len(netlog)-1].dropped)
		for j := 0; j < i; j++ {
			o := rs[j]
			if o.issued && !o.done && o.start <= tip && !isStopped && parked {
				r.duringScan = true
			}
		}
		if r.duringScan {
			switch {
			case lastScanH < r.start:
				pos = "scan-below"
			case lastScanH == r.start:
				pos = "scan-at"
			default:
				pos = "scan-above"
			}
		}
		mu.Unlock()
		v.Class("arrive:%s", pos)
		v.Logf("  request %d: outpoint %v:%d (%s) from height %d; client tip %d; %s", i, r.op.Hash.String()[:8], r.op.Index, r.desc, r.start, tip, pos)
		go func() {
			rep, err := s.CS.GetUtxo(
				neutrino.WatchInputs(neutrino.InputWithScript{OutPoint: r.op, PkScript: r.script}),
				neutrino.StartBlock(&headerfs.BlockStamp{Height: int32(r.start), Hash: hashAt(r.start)}),
				neutrino.QuitChan(r.cancel),
			)
			mu.Lock()
			if !ended {
				r.done, r.rep, r.err, r.tr, r.tipHi = true, rep, err, time.Now(), announced
			}
			mu.Unlock()
		}()
	}
	announce := func(s *netsim.Sim) bool {
		mu.Lock()
		if announced >= len(path)-1 {
			mu.Unlock()
			return false
		}
		announced++
		h := announced
		mu.Unlock()
		for _, p := range s.Peers {
			p.SetView(path[h], true)
		}
		return true
	}
	status := func(s *netsim.Sim) string {
		mu.Lock()
		defer mu.Unlock()
		var d []string
		for i, r := range rs {
			if r.done {
				d = append(d, fmt.Sprint(i))
			}
		}
		var hs []string
		for _, it := range held {
			hs = append(hs, it.what)
		}
		return fmt.Sprintf("withheld=[%s] credit=%d returned=[%s] announced=%d", strings.Join(hs, "; "), credit, strings.Join(d, ","), announced)
	}
	allDone := func() bool {
		mu.Lock()
		defer mu.Unlock()
		for _, r := range rs {
			// a request above everything announced cannot be answered
			// and is not waited for
			if r.issued && !r.done && r.start <= announced {
				return false
			}
		}
		return true
	}
	var stopRes netsim.Result
	behind := false

	res := netsim.Run(t, cfg, setup, func(s *netsim.Sim) {
		settle := func() bool {
			if !s.Settle() {
				spun = true
				return false
			}
			return true
		}
		if !settle() {
			return
		}
		for ei, e := range c.Evs {
			mu.Lock()
			isStopped := stopped
			mu.Unlock()
			if isStopped && e.Op != "req" && e.Op != "adv" {
				continue
			}
			switch e.Op {
			case "req":
				issue(s)
			case "rel":
				release(e.N)
			case "block":
				mu.Lock()
				scanning := len(held) > 0
				mu.Unlock()
				if announce(s) && scanning {
					v.Class("block-arrives:scan-parked")
				}
			case "blockrel":
				if announce(s) {
					v.Class("block-arrives:scan-moving")
				}
				release(e.N)
			case "adv":
				if !s.Advance(time.Duration(e.N) * time.Millisecond) {
					spun = true
					return
				}
			case "cancel":
				mu.Lock()
				var r *rreq
				if next > 0 {
					r = rs[e.N%next]
				}
				if r != nil && !r.cancelled {
					r.cancelled, r.cancelledAt = true, time.Now()
					close(r.cancel)
					if !r.done {
						v.Class("cancel:outstanding")
					}
				}
				mu.Unlock()
			case "stop":
				mu.Lock()
				stopped, stopAt = true, time.Now()
				auto = true // the peers answer from now on
				for _, it := range held {
					it.dropped = true // what is withheld now is never answered
				}
				held = nil
				outstanding := false
				for _, r := range rs {
					if r.issued && !r.done {
						outstanding = true
					}
				}
				mu.Unlock()
				if outstanding {
					v.Class("stop:outstanding")
				} else {
					v.Class("stop:idle")
				}
				s.Shutdown(&stopRes)
			}
			if !settle() {
				return
			}
			if !isStopped && e.Op != "stop" {
				bt, _ := s.CS.BestBlock()
				_, fh, _ := s.CS.RegFilterHeaders.ChainTip()
				if bt != nil && int32(fh) < bt.Height {
					behind = true
				}
			}
			v.Logf("ev %d %s %d -> %s", ei, e.Op, e.N, status(s))
		}
		// Final phase: everything not yet asked is asked now, the peers
		// answer at once from here on, and time passes until every call
		// has returned.
		mu.Lock()
		credit = 0
		mu.Unlock()
		for next < len(rs) {
			issue(s)
			if !settle() {
				return
			}
		}
		mu.Lock()
		auto = true
		mu.Unlock()
		release(1 << 20)
		for k := 0; k < 500; k++ {
			if !settle() {
				return
			}
			if allDone() {
				break
			}
			if !s.Advance(2 * time.Second) {
				spun = true
				return
			}
		}
		v.Logf("end -> %s", status(s))
		mu.Lock()
		ended = true
		mu.Unlock()
	})
	if res.Harness != "" {
		v.Harness = res.Harness
		return v
	}
	if (stopRes.Leak != "" || res.Leak != "") && !spun && res.Spin == "" {
		v.Class("goroutines-left-after-stop")
		if os.Getenv("VERIF_DEBUG") != "" {
			fmt.Println("LEAK", c, stopRes.Leak, res.Leak, strings.Join(v.Trace, "\n"))
		}
	}

	// ------------------------------------------------------------ verdict
	mu.Lock()
	defer mu.Unlock()
	finalTip := announced
	if spun || res.Spin != "" {
		// A client goroutine was found looping without ever blocking and
		// the case was abandoned there. The one known loop of this kind
		// (the batch manager polling for a queued request, answered or
		// cancelled, whose start height is above the best block) is turned
		// into a 250 ms virtual sleep by the verif-tag yield hook, so this
		// is not expected; it is counted, not judged.
		v.Class("abandoned:client-busy-loop")
		v.Logf("client goroutine busy-loops, case abandoned: %s", firstLines(res.Spin, 12))
	}
	txs := map[chainhash.Hash]int{}
	for i, r := range rs {
		if !r.issued {
			continue
		}
		txs[r.op.Hash]++
		if r.duringScan {
			v.Nontrivial = true
		}
		if !r.done {
			switch {
			case spun || res.Spin != "":
				v.Class("result:abandoned")
			case stopped:
				fail("caller-left-waiting/after-stop", "request %d (%s, start %d) has not returned although the client was stopped", i, r.desc, r.start)
			case r.start > r.tipLo:
				// Start height above the client's best block when the
				// request was made: counted, no liveness assertion
				// (the scanner keeps it queued and polls until the
				// chain gets there).
				v.Class("result:above-tip-still-waiting")
			default:
				// Did the fetch of the request's own start block fail
				// (answer withheld for at least the shortest query
				// timeout) while it was outstanding? The scanner has
				// then taken the request off its queue but not yet
				// handed it to the batch's reporter, and
				// FailRemaining does not reach it.
				sig := "caller-left-waiting"
				for _, q := range netlog {
					if q.isData && q.height == r.start && !q.recv.Before(r.te) &&
						(!q.answered || q.ans.Sub(q.recv) >= minQueryTimeout) {
						sig = "caller-left-waiting/start-block-fetch-failed"
					}
				}
				fail(sig, "request %d (%s, start %d <= tip %d) has not returned after 1000 virtual seconds with peers that answer at once", i, r.desc, r.start, finalTip)
			}
			continue
		}
		if r.err != nil {
			why := ""
			switch {
			case r.afterStop || (stopped && !r.tr.Before(stopAt)):
				why = "shutdown"
			case r.cancelled && !r.tr.Before(r.cancelledAt):
				why = "cancel"
			default:
				// a network answer was withheld for at least the
				// client's shortest query timeout while the request
				// was outstanding
				for _, q := range netlog {
					until := r.tr
					if q.answered && q.ans.Before(until) {
						until = q.ans
					}
					if !q.recv.After(r.tr) && !until.Before(r.te) && until.Sub(q.recv) >= minQueryTimeout {
						why = "fetch-failure"
					}
				}
			}
			v.Class("result:error/%s", orStr(why, "unexplained"))
			v.Logf("request %d -> error %v (%s)", i, r.err, why)
			if why == "" {
				sig := "error-without-fault"
				if strings.Contains(r.err.Error(), "filter header") {
					sig = "error-without-fault/filter-headers-behind-new-block"
				}
				fail(sig, "request %d (%s, start %d) returned error %q although no fetch failed, it was not cancelled and the client was not stopped", i, r.desc, r.start, r.err)
			}
			if why == "cancel" && !errors.Is(r.err, neutrino.ErrGetUtxoCancelled) && !errors.Is(r.err, neutrino.ErrShuttingDown) {
				// any error is an allowed outcome for a cancelled request
				v.Class("result:error/cancel-other-error")
			}
			continue
		}
		if r.start > r.tipLo {
			v.Class("result:above-tip-answered-once-the-chain-got-there")
		}
		got, bad := gotFate(r.rep)
		if bad != "" {
			fail("malformed-report", "request %d (%s, start %d): %s", i, r.desc, r.start, bad)
			continue
		}
		v.Class("result:%s", got.Kind)
		v.Logf("request %d -> %s", i, got)
		// The chain as finally scanned ends somewhere between the
		// client's tip when the request was made and the highest block
		// announced when the call returned; every such end is accepted.
		lo, hi := max(r.tipLo, r.start), r.tipHi
		if lo > hi {
			fail("answered-before-start-block", "request %d (%s) starts at height %d but returned %s when only %d blocks had been announced", i, r.desc, r.start, got, r.tipHi)
			continue
		}
		ok := false
		var want fate
		for e := lo; e <= hi; e++ {
			want = refFate(path, r.op, r.start, e)
			if want == got {
				ok = true
				break
			}
		}
		if ok {
			continue
		}
		want = refFate(path, r.op, r.start, lo)
		// Does the answer belong to another request for the same
		// outpoint with a different start height that was outstanding
		// at the same time?
		sig := fmt.Sprintf("wrong-answer/want-%s-got-%s", want.Kind, got.Kind)
		for j, o := range rs {
			if j == i || !o.issued || o.op != r.op || o.start == r.start {
				continue
			}
			// (a cancelled request has returned to its caller but stays
			// in the scanner's queue)
			gone := o.done && !(o.cancelled && o.err != nil) && o.tr.Before(r.te)
			if gone || r.tr.Before(o.te) {
				continue
			}
			for e := max(o.start, min(o.tipLo, r.tipLo)); e <= finalTip; e++ {
				if refFate(path, o.op, o.start, e) == got {
					// One root cause (the scanner keeps ONE initial
					// output per outpoint for all requests of a
					// batch, whatever their start heights), two
					// symptoms with a signature each.
					switch {
					case want.Kind == "output" && got.Kind == "empty":
						sig = "same-outpoint-different-start/output-lost"
					case want.Kind == "empty" && got.Kind == "output":
						sig = "same-outpoint-different-start/output-of-other-start"
					default:
						sig = fmt.Sprintf("same-outpoint-different-start/want-%s-got-%s", want.Kind, got.Kind)
					}
				}
			}
		}
		fail(sig, "request %d (%s): outpoint %v from height %d (client tip %d..%d): want %s, got %s", i, r.desc, r.op, r.start, r.tipLo, r.tipHi, want, got)
	}
	for _, n := range txs {
		if n >= 2 {
			v.Nontrivial = true
			v.Class("several-requests-for-one-transaction")
			break
		}
	}
	if len(failH) > 0 {
		v.Class("fault:unobtainable-block")
	}
	if behind {
		v.Class("filter-headers-behind-at-quiescence")
	}
	if v.Nontrivial {
		v.Class("nontrivial")
	}
	for pass := 0; pass < 2 && v.Violation == ""; pass++ {
		for _, x := range violations {
			if pass == 1 || !narrowSigs[x.sig] {
				v.Fail(x.sig, "%s", x.msg)
				break
			}
		}
	}
	if os.Getenv("VERIF_DEBUG") != "" && v.Violation != "" {
		fmt.Println(strings.Join(v.Trace, "\n"))
	}
	return v
}

// narrowSigs are the signatures of specific, explained failures.
var narrowSigs = map[string]bool{
	"C10/same-outpoint-different-start/output-lost":           true,
	"C10/same-outpoint-different-start/output-of-other-start": true,
	"C10/caller-left-waiting/start-block-fetch-failed":        true,
}

func orStr(a, b string) string {
	if a != "" {
		return a
	}
	return b
}

func firstLines(s string, n int) string {
	l := strings.Split(s, "\n")
	if len(l) > n {
		l = l[:n]
	}
	return strings.Join(l, " | ")
}

func TestC10(t *testing.T) {
	kit.RunProp(t, kit.Prop[Case]{ID: "C10", Name: "netsim", Gen: genCase, Run: runCase})
}

func TestMain(m *testing.M) {
	code := m.Run()
	netsim.CleanupTemplates()
	os.Exit(code)
}
