package c10

import (
	"encoding/binary"
	"fmt"
	"math/big"
	"math/rand/v2"
	"sort"
	"sync"
	"time"

	"github.com/btcsuite/btcd/btcutil/v2/gcs/builder"
	"github.com/btcsuite/btcd/chainhash/v2"
	"github.com/btcsuite/btcd/wire/v2"

	"verifharness/kit"
)

// The chains of this check are built here rather than taken from kit's
// Tx-worlds: GetUtxo does not validate transactions, and the property speaks
// of the EARLIEST spend of an outpoint, which only means something when the
// scanned chain spends an outpoint more than once. These chains therefore
// also contain "respends" (a later transaction, in the same or a later
// block, spending an outpoint that is already spent), besides ordinary
// spends, create-and-spend inside one block and transactions with several
// outputs. Headers (timestamps, bits, genesis, parameters) come from the kit
// world of the same spec, so they are valid for the client; blocks pass
// CheckBlockSanity and carry a correct witness commitment, filters are the
// correct basic filters. The chain is a pure function of (seed, base).

// worldFuture is the number of blocks beyond the pre-filled base that can
// arrive during a case.
const worldFuture = 4

var paramSpec = kit.ParamSpec{Retarget: 0, Spacing: 60, Adj: 4, VerFloor: 1}

type utxo struct {
	op     wire.OutPoint
	script []byte
	value  int64
	key    int
}

// outInfo is the ground-truth life of one created output.
type outInfo struct {
	Op      wire.OutPoint
	Script  []byte
	Value   int64
	Height  int // creating block
	TxIndex int
	NOuts   int   // outputs of the creating transaction
	NReal   int   // ... of which not OP_RETURN
	Spends  []int // heights of the blocks spending it, ascending (repeats possible)
}

type worldIndex struct {
	W    *kit.World
	Path []*kit.Node
	Outs []*outInfo
	// selections by shape (indices into Outs)
	Unspent, Spent, SameBlock, Respent, Multi []int
}

var (
	wmu    sync.Mutex
	worlds = map[string]*worldIndex{}
)

func getWorld(seed uint64, base int) *worldIndex {
	key := fmt.Sprintf("%d/%d", seed, base)
	wmu.Lock()
	defer wmu.Unlock()
	if wi, ok := worlds[key]; ok {
		return wi
	}
	wi := buildWorld(seed, base)
	worlds[key] = wi
	return wi
}

func buildWorld(seed uint64, base int) *worldIndex {
	spec0 := kit.WorldSpec{P: paramSpec, Seed: seed, Base: base, Future: worldFuture, Pace: 1}
	w0 := kit.BuildWorld(spec0)
	path0 := w0.Br[0].Tip().Path()

	// A spec whose key cannot collide with a kit world (template cache).
	spec := spec0
	spec.Seed = seed | 0xC10<<32
	spec.Tx = true
	w := &kit.World{Spec: spec, Params: w0.Params, Rules: w0.Rules, Genesis: w0.Genesis,
		ByHash: map[chainhash.Hash]*kit.Node{}, Keys: w0.Keys}
	w.ByHash[w.Genesis.Hash] = w.Genesis
	main := &kit.Branch{Idx: 0}
	w.Br = []*kit.Branch{main}

	rng := rand.New(rand.NewPCG(seed, 0xC10C10))
	var live []utxo  // unspent wallet outputs
	var dead []utxo  // outputs that are already spent (respend candidates)
	tag := uint32(0) // makes every transaction unique

	parent := w.Genesis
	for h := 1; h < len(path0); h++ {
		n := &kit.Node{Branch: main, Parent: parent, Height: int32(h)}
		tag++
		cb := wire.NewMsgTx(2)
		script := make([]byte, 13)
		script[0] = 12
		binary.LittleEndian.PutUint32(script[1:], uint32(h))
		binary.LittleEndian.PutUint32(script[5:], tag)
		binary.LittleEndian.PutUint32(script[9:], uint32(seed)^0xC10)
		cb.AddTxIn(&wire.TxIn{
			PreviousOutPoint: *wire.NewOutPoint(&chainhash.Hash{}, wire.MaxPrevOutIndex),
			SignatureScript:  script, Sequence: wire.MaxTxInSequenceNum,
			Witness: wire.TxWitness{make([]byte, 32)},
		})
		cbKey := rng.IntN(len(w.Keys))
		cb.AddTxOut(&wire.TxOut{Value: 50e8, PkScript: w.Keys[cbKey].Script})
		txs := []*wire.MsgTx{cb}
		var prevScripts [][]byte
		var inBlock []utxo // wallet outputs created by earlier transactions of this block

		ntx := rng.IntN(4)
		if h%5 == 0 {
			ntx++
		}
		for t := 0; t < ntx; t++ {
			tag++
			tx := wire.NewMsgTx(2)
			tx.LockTime = tag
			used := map[wire.OutPoint]bool{}
			var total int64
			addIn := func(o utxo) {
				used[o.op] = true
				sig := make([]byte, 71)
				sig[0] = 0x30
				tx.AddTxIn(&wire.TxIn{PreviousOutPoint: o.op, Sequence: wire.MaxTxInSequenceNum - 1,
					Witness: wire.TxWitness{sig, w.Keys[o.key].Pub}})
				n.Spent = append(n.Spent, kit.SpendRef{Op: o.op, TxIndex: len(txs), In: len(tx.TxIn) - 1, Script: o.script, Key: o.key})
				prevScripts = append(prevScripts, o.script)
				total += o.value
			}
			takeLive := func() bool {
				// prefer an output of this very block now and then
				if len(inBlock) > 0 && rng.IntN(3) == 0 {
					o := inBlock[len(inBlock)-1]
					inBlock = inBlock[:len(inBlock)-1]
					for i := range live {
						if live[i].op == o.op {
							live = append(live[:i:i], live[i+1:]...)
							break
						}
					}
					addIn(o)
					dead = append(dead, o)
					return true
				}
				if len(live) == 0 {
					return false
				}
				i := rng.IntN(len(live))
				o := live[i]
				live = append(live[:i:i], live[i+1:]...)
				for j := range inBlock {
					if inBlock[j].op == o.op {
						inBlock = append(inBlock[:j:j], inBlock[j+1:]...)
						break
					}
				}
				addIn(o)
				dead = append(dead, o)
				return true
			}
			takeDead := func() bool {
				if len(dead) == 0 {
					return false
				}
				// recent ones more often, so that respends fall close to
				// the first spend as well as far from it
				i := rng.IntN(len(dead))
				if rng.IntN(2) == 0 {
					i = len(dead) - 1 - rng.IntN(min(len(dead), 4))
				}
				o := dead[i]
				if used[o.op] {
					return false
				}
				addIn(o)
				return true
			}
			switch rng.IntN(4) {
			case 0: // respend, possibly together with an ordinary input
				if !takeDead() {
					takeLive()
				} else if rng.IntN(3) == 0 {
					takeLive()
				}
			default:
				if takeLive() && rng.IntN(4) == 0 {
					if rng.IntN(3) == 0 {
						takeDead()
					} else {
						takeLive()
					}
				}
			}
			if len(tx.TxIn) == 0 {
				break
			}
			nout := 1 + rng.IntN(3)
			for k := 0; k < nout; k++ {
				key := rng.IntN(len(w.Keys))
				tx.AddTxOut(&wire.TxOut{Value: total/int64(nout+1) + int64(k), PkScript: w.Keys[key].Script})
			}
			if rng.IntN(5) == 0 {
				tx.AddTxOut(&wire.TxOut{Value: 0, PkScript: []byte{0x6a, 0x04, byte(tag), byte(tag >> 8), byte(t), 0x01}})
			}
			txs = append(txs, tx)
			th := tx.TxHash()
			for k, o := range tx.TxOut {
				key := -1
				for ki := range w.Keys {
					if string(w.Keys[ki].Script) == string(o.PkScript) {
						key = ki
					}
				}
				ref := kit.OutRef{Op: wire.OutPoint{Hash: th, Index: uint32(k)}, Script: o.PkScript, Value: o.Value, Key: key}
				n.Created = append(n.Created, ref)
				if key >= 0 {
					u := utxo{ref.Op, ref.Script, ref.Value, key}
					live = append(live, u)
					inBlock = append(inBlock, u)
				}
			}
		}
		wroot := kit.WitnessMerkleRoot(txs)
		var pre [64]byte
		copy(pre[:32], wroot[:])
		commit := chainhash.DoubleHashH(pre[:])
		cb.AddTxOut(&wire.TxOut{Value: 0, PkScript: append([]byte{0x6a, 0x24, 0xaa, 0x21, 0xa9, 0xed}, commit[:]...)})
		cbh := cb.TxHash()
		cbRef := kit.OutRef{Op: wire.OutPoint{Hash: cbh, Index: 0}, Script: cb.TxOut[0].PkScript, Value: 50e8, Key: cbKey}
		n.Created = append([]kit.OutRef{cbRef}, n.Created...)
		live = append(live, utxo{cbRef.Op, cbRef.Script, cbRef.Value, cbKey})

		blk := &wire.MsgBlock{Header: wire.BlockHeader{Version: 4, PrevBlock: parent.Hash,
			Timestamp: time.Unix(path0[h].Header.Timestamp.Unix(), 0), Bits: path0[h].Header.Bits}}
		for _, tx := range txs {
			_ = blk.AddTransaction(tx)
		}
		blk.Header.MerkleRoot = kit.MerkleRoot(txs)
		kit.Mine(&blk.Header)
		n.Header = blk.Header
		n.Block = blk
		n.Hash = blk.Header.BlockHash()
		f, err := builder.BuildBasicFilter(blk, prevScripts)
		if err != nil {
			panic(err)
		}
		n.Filter = f
		n.FBytes, _ = f.NBytes()
		n.FHash = chainhash.DoubleHashH(n.FBytes)
		n.FHdr = chainhash.DoubleHashH(append(n.FHash[:], parent.FHdr[:]...))
		n.Work = new(big.Int).Add(parent.Work, kit.Work(blk.Header.Bits))
		w.ByHash[n.Hash] = n
		main.Nodes = append(main.Nodes, n)
		parent = n
	}

	wi := &worldIndex{W: w, Path: main.Tip().Path()}
	// Ground truth, derived from the serialised blocks only.
	byOp := map[wire.OutPoint]*outInfo{}
	for h := 1; h < len(wi.Path); h++ {
		for ti, tx := range wi.Path[h].Block.Transactions {
			th := tx.TxHash()
			nreal := 0
			for _, o := range tx.TxOut {
				if len(o.PkScript) > 0 && o.PkScript[0] != 0x6a {
					nreal++
				}
			}
			for k, o := range tx.TxOut {
				if len(o.PkScript) > 0 && o.PkScript[0] == 0x6a {
					continue
				}
				oi := &outInfo{Op: wire.OutPoint{Hash: th, Index: uint32(k)}, Script: o.PkScript, Value: o.Value,
					Height: h, TxIndex: ti, NOuts: len(tx.TxOut), NReal: nreal}
				byOp[oi.Op] = oi
				wi.Outs = append(wi.Outs, oi)
			}
		}
	}
	for h := 1; h < len(wi.Path); h++ {
		for _, tx := range wi.Path[h].Block.Transactions {
			for _, in := range tx.TxIn {
				if oi := byOp[in.PreviousOutPoint]; oi != nil {
					oi.Spends = append(oi.Spends, h)
				}
			}
		}
	}
	for i, oi := range wi.Outs {
		sort.Ints(oi.Spends)
		// shapes are judged on the pre-filled part of the chain so that a
		// selection means the same thing whether or not blocks arrive
		var sp []int
		for _, s := range oi.Spends {
			if s <= base {
				sp = append(sp, s)
			}
		}
		if oi.Height > base {
			continue
		}
		switch {
		case len(sp) == 0:
			wi.Unspent = append(wi.Unspent, i)
		case len(sp) >= 2:
			wi.Respent = append(wi.Respent, i)
			fallthrough
		default:
			wi.Spent = append(wi.Spent, i)
			if sp[0] == oi.Height {
				wi.SameBlock = append(wi.SameBlock, i)
			}
		}
		if oi.NReal >= 2 {
			wi.Multi = append(wi.Multi, i)
		}
	}
	return wi
}
