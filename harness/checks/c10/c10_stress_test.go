//go:build verif

package c10

// Unit "scanner-stress" (C10, and C18 under the race detector): the real
// UtxoScanner with plain functions as collaborators (verif-tag constructor,
// no network, no virtual time) on a static generated chain. Several
// goroutines enqueue requests while scans are running: each one waits for a
// generated number of heights visited by the running scans, yields the processor
// a generated number of times and then calls Enqueue; the collaborator
// callbacks yield as well. The chain does not change, so whatever the batching
// every request must be answered with exactly the reference fate of (outpoint,
// start height, tip), and every caller must get its answer.

import (
	"fmt"
	"runtime"
	"sync"
	"sync/atomic"
	"testing"
	"time"

	"github.com/btcsuite/btcd/btcutil/v2"
	"github.com/btcsuite/btcd/chainhash/v2"
	"github.com/lightninglabs/neutrino"
	"github.com/lightninglabs/neutrino/headerfs"
	"pgregory.net/rapid"

	"verifharness/kit"
)

type StressReq struct {
	Sel   int `json:"sel"`   // which output of the world
	Start int `json:"start"` // start height selector: 0 birth, 1 genesis+1, 2 before birth, 3 after birth, 4 any
	Arg   int `json:"arg"`
	// AfterFetches: enqueue once the scanner has visited this many heights
	// (0 = at once); Yields: processor yields before the call.
	AfterFetches int `json:"after_fetches"`
	Yields       int `json:"yields"`
}

type StressCase struct {
	Seed     uint64      `json:"seed"`
	Base     int         `json:"base"`
	Reqs     []StressReq `json:"reqs"`
	CBYields int         `json:"cb_yields"` // yields inside every collaborator call
	AllMatch bool        `json:"all_match"` // the filter matches every block
	// HashFails: the block-hash lookups with these ordinal numbers (0-based,
	// counted over the whole case) fail once each, as a lookup does when the
	// height is momentarily not available. A request may then be answered
	// with an error, but it must be answered; without an error the report
	// must be the reference one.
	HashFails []int `json:"hash_fails,omitempty"`
}

func genStress(t *rapid.T) StressCase {
	c := StressCase{Seed: uint64(kit.Uni(t, "wseed", 5)), Base: kit.Pick(t, "base", []int{12, 24, 24}),
		CBYields: kit.Pick(t, "cby", []int{0, 0, 1, 5, 40}), AllMatch: kit.Uni(t, "allmatch", 3) > 0}
	c.Reqs = rapid.SliceOfN(rapid.Custom(func(t *rapid.T) StressReq {
		return StressReq{Sel: kit.Uni(t, "sel", 400), Start: kit.Uni(t, "start", 5), Arg: kit.Uni(t, "arg", 30),
			AfterFetches: kit.Pick(t, "after", []int{0, 0, 1, 2, 3, 5, 8, 13}), Yields: kit.Pick(t, "yields", []int{0, 0, 1, 10, 200})}
	}), 2, 10).Draw(t, "reqs")
	if kit.Uni(t, "hashfailp", 3) == 0 {
		c.HashFails = rapid.SliceOfNDistinct(rapid.IntRange(0, 40), 1, 3, rapid.ID[int]).Draw(t, "hashfails")
	}
	return c
}

func runStress(t *testing.T, c StressCase) (v kit.Verdict) {
	wi := getWorld(c.Seed, c.Base)
	path := wi.Path[:c.Base+1]
	tip := len(path) - 1
	if len(wi.Outs) == 0 {
		v.Harness = "world without outputs"
		return
	}
	yield := func(n int) {
		for i := 0; i < n; i++ {
			runtime.Gosched()
		}
	}
	var fetches atomic.Int64
	var injected atomic.Int64
	failAt := map[int64]bool{}
	for _, k := range c.HashFails {
		failAt[int64(k)] = true
	}
	byHash := map[chainhash.Hash]*kit.Node{}
	for _, n := range path {
		byHash[n.Hash] = n
	}
	scanner := neutrino.NewVerifUtxoScanner(
		func() (*headerfs.BlockStamp, error) {
			yield(c.CBYields)
			n := path[tip]
			return &headerfs.BlockStamp{Height: n.Height, Hash: n.Hash, Timestamp: n.Header.Timestamp}, nil
		},
		func(h int64) (*chainhash.Hash, error) {
			k := fetches.Add(1) - 1
			yield(c.CBYields)
			if failAt[k] {
				injected.Add(1)
				return nil, fmt.Errorf("injected: no block hash for height %d at the moment", h)
			}
			if h < 0 || int(h) > tip {
				return nil, fmt.Errorf("no block at height %d", h)
			}
			hh := path[h].Hash
			return &hh, nil
		},
		func(scripts [][]byte, bh *chainhash.Hash) (bool, error) {
			yield(c.CBYields)
			n := byHash[*bh]
			if n == nil {
				return false, fmt.Errorf("unknown block %v", bh)
			}
			if c.AllMatch || n.Filter == nil || len(scripts) == 0 {
				return true, nil
			}
			key := [16]byte{}
			copy(key[:], bh[:16])
			return n.Filter.MatchAny(key, scripts)
		},
		func(h chainhash.Hash) (*btcutil.Block, error) {
			yield(c.CBYields)
			n := byHash[h]
			if n == nil {
				return nil, fmt.Errorf("unknown block %v", h)
			}
			b := btcutil.NewBlock(n.Block)
			b.SetHeight(n.Height)
			return b, nil
		},
	)
	if err := scanner.Start(); err != nil {
		v.Harness = "scanner start: " + err.Error()
		return
	}
	type outcome struct {
		rep *neutrino.SpendReport
		err error
	}
	res := make([]outcome, len(c.Reqs))
	want := make([]fate, len(c.Reqs))
	desc := make([]string, len(c.Reqs))
	var wg sync.WaitGroup
	cancel := make(chan struct{})
	midScan := atomic.Int64{}
	for i, rq := range c.Reqs {
		o := wi.Outs[rq.Sel%len(wi.Outs)]
		if o.Height > tip {
			o = wi.Outs[0]
		}
		start := o.Height
		switch rq.Start {
		case 1:
			start = 1
		case 2:
			start = clamp(o.Height-1-rq.Arg%4, 1, tip)
		case 3:
			start = clamp(o.Height+1+rq.Arg%6, 1, tip)
		case 4:
			start = clamp(1+rq.Arg, 1, tip)
		}
		want[i] = refFate(path, o.Op, start, tip)
		desc[i] = fmt.Sprintf("request %d (output created at %d, start %d, enqueued after %d fetches)", i, o.Height, start, rq.AfterFetches)
		wg.Add(1)
		go func(i int, rq StressReq, o *outInfo, start int) {
			defer wg.Done()
			deadline := time.Now().Add(30 * time.Millisecond)
			for fetches.Load() < int64(rq.AfterFetches) && time.Now().Before(deadline) {
				runtime.Gosched()
			}
			if fetches.Load() > 0 {
				midScan.Add(1)
			}
			yield(rq.Yields)
			req, err := scanner.Enqueue(&neutrino.InputWithScript{OutPoint: o.Op, PkScript: o.Script}, uint32(start), nil)
			if err != nil {
				res[i] = outcome{nil, err}
				return
			}
			rep, err := req.Result(cancel)
			res[i] = outcome{rep, err}
		}(i, rq, o, start)
	}
	done := make(chan struct{})
	go func() { wg.Wait(); close(done) }()
	select {
	case <-done:
	case <-time.After(30 * time.Second):
		close(cancel)
		<-done
		for i := range res {
			if res[i].err != nil {
				v.Fail("C10/stress/caller-left-waiting", "%s was not answered within 30 s on a static chain (then cancelled: %v)", desc[i], res[i].err)
				break
			}
		}
		if v.Violation == "" {
			v.Harness = "stress: callers returned only after cancellation but none reports an error"
		}
		_ = scanner.Stop()
		return
	}
	if err := scanner.Stop(); err != nil {
		v.Fail("C10/stress/stop-error", "Stop: %v", err)
		return
	}
	for i := range res {
		v.Logf("%s -> %v (want %v)", desc[i], res[i].err, want[i])
		if res[i].err != nil {
			if injected.Load() > 0 {
				v.Class("answered-with-error-after-injected-lookup-failure")
				continue
			}
			v.Fail("C10/stress/request-error", "%s failed on a static, fully served chain: %v", desc[i], res[i].err)
			return
		}
		got, bad := gotFate(res[i].rep)
		if bad != "" {
			v.Fail("C10/stress/malformed-report", "%s: %s", desc[i], bad)
			return
		}
		if got != want[i] {
			v.Fail("C10/stress/wrong-report", "%s: got %v, the blocks %d..%d say %v", desc[i], got, 0, tip, want[i])
			return
		}
		v.Class("fate:%s", want[i].Kind)
	}
	v.Count("enqueued_mid_scan", int(midScan.Load()))
	if injected.Load() > 0 {
		v.Class("lookup-failure-injected")
	}
	v.Nontrivial = midScan.Load() > 0
	return
}

func TestC10Stress(t *testing.T) {
	kit.RunProp(t, kit.Prop[StressCase]{ID: "C10", Name: "scanner-stress", Gen: genStress, Run: runStress})
}
