package hdrstore

import (
	"errors"
	"fmt"
	"reflect"
	"unsafe"

	"github.com/lightninglabs/neutrino/headerfs"
)

// faultFile wraps the flat file of a header store so that a write can be made
// to fail after a number of bytes. The stores keep the file in an unexported
// field; the harness reaches it by reflection (a layout change is reported as
// a harness error, never as a violation).
type faultFile struct {
	headerfs.File
	// failAfter >= 0 arms the next Write: that many bytes are written,
	// then an error is returned.
	failAfter int
	armed     bool
	// skip: number of writes to let through before the armed one.
	skip int
	// syncFail: every Sync fails (the data written before it stays where it
	// is, as after a real fsync error); syncFired records that one did.
	syncFail  bool
	syncFired bool
}

func (f *faultFile) Sync() error {
	if f.syncFail {
		f.syncFired = true
		return errFileInjected
	}
	return f.File.Sync()
}

// ArmSyncFault makes every Sync of the store's flat file fail until disarmed;
// the returned function disarms it and tells whether a Sync was attempted.
func ArmSyncFault(store any) (disarm func() bool, err error) {
	ff, err := injectFile(store)
	if err != nil {
		return nil, err
	}
	ff.syncFail, ff.syncFired = true, false
	return func() bool { ff.syncFail = false; return ff.syncFired }, nil
}

var errFileInjected = errors.New("verif: injected file write failure")

func (f *faultFile) Write(p []byte) (int, error) {
	if !f.armed {
		return f.File.Write(p)
	}
	if f.skip > 0 {
		f.skip--
		return f.File.Write(p)
	}
	f.armed = false
	n := f.failAfter
	if n > len(p) {
		n = len(p)
	}
	if n > 0 {
		if m, err := f.File.Write(p[:n]); err != nil {
			return m, err
		}
	}
	return n, errFileInjected
}

// injectFile replaces the store's file by a faultFile and returns it.
func injectFile(store any) (ff *faultFile, err error) {
	defer func() {
		if r := recover(); r != nil {
			err = fmt.Errorf("cannot reach the store's file field: %v", r)
		}
	}()
	v := reflect.ValueOf(store)
	for v.Kind() == reflect.Interface || v.Kind() == reflect.Ptr {
		v = v.Elem()
	}
	// blockHeaderStore{*headerStore} / filterHeaderStore{*headerStore}
	hs := v.Field(0).Elem()
	hf := hs.FieldByName("headerFile").Elem()
	fld := hf.FieldByName("file")
	fld = reflect.NewAt(fld.Type(), unsafe.Pointer(fld.UnsafeAddr())).Elem()
	cur, ok := fld.Interface().(headerfs.File)
	if !ok {
		return nil, fmt.Errorf("file field has unexpected type %v", fld.Type())
	}
	if already, ok := cur.(*faultFile); ok {
		return already, nil
	}
	ff = &faultFile{File: cur}
	fld.Set(reflect.ValueOf(headerfs.File(ff)))
	return ff, nil
}

// ArmFileFault makes the nth write (1 = the next one) to the flat file of the
// given header store fail after cut bytes (cut is taken modulo the length of
// that write plus one by the caller's choice of values; a cut beyond the
// write's length fails after the whole write). It returns a function telling
// whether the fault has fired.
func ArmFileFault(store any, nth, cut int) (fired func() bool, err error) {
	ff, err := injectFile(store)
	if err != nil {
		return nil, err
	}
	if nth < 1 {
		nth = 1
	}
	ff.failAfter, ff.skip, ff.armed = cut, nth-1, true
	return func() bool { return !ff.armed }, nil
}

// DisarmFileFault removes a fault that has not fired.
func DisarmFileFault(store any) {
	if ff, err := injectFile(store); err == nil {
		ff.armed = false
	}
}
