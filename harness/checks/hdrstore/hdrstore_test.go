package hdrstore

import (
	"fmt"
	"os"
	"path/filepath"
	"testing"

	"github.com/btcsuite/btcd/chainhash/v2"
	"github.com/btcsuite/btcd/wire/v2"
	"github.com/lightninglabs/neutrino/headerfs"
	"pgregory.net/rapid"

	"verifharness/kit"
	"verifharness/netsim"
)

type Case struct {
	Seed uint64 `json:"seed"`
	Ops  []Op   `json:"ops"`
}

func genCase(maxOps int, crash bool) func(t *rapid.T) Case {
	return func(t *rapid.T) Case {
		kinds := []string{"appendB", "appendB", "appendF", "appendF", "rollback", "rollbackB", "reopen", "failB", "failF", "reappend", "ffailB", "ffailF", "sfailB", "sfailF"}
		if crash {
			kinds = []string{"appendB", "appendB", "appendF", "appendF", "rollback", "rollbackB", "reappend", "reopen"}
		}
		op := rapid.Custom(func(t *rapid.T) Op {
			o := Op{Kind: kit.Pick(t, "kind", kinds)}
			switch o.Kind {
			case "ffailB", "ffailF":
				o.N = rapid.IntRange(1, 12).Draw(t, "n")
				o.Cut = rapid.IntRange(0, 1000).Draw(t, "cut")
			case "appendB", "failB", "reappend", "sfailB":
				o.N = rapid.IntRange(0, 12).Draw(t, "n")
				if !crash && rapid.IntRange(0, 9).Draw(t, "big") == 0 {
					o.N = rapid.IntRange(13, 50).Draw(t, "nbig")
				}
			case "appendF", "failF", "sfailF":
				o.N = rapid.IntRange(0, 15).Draw(t, "n")
			case "rollback":
				o.N = rapid.IntRange(0, 6).Draw(t, "n")
			case "reopen":
				o.Assert = kit.Pick(t, "assert", []string{"", "", "holds", "holds", "beyond", "fails"})
				o.N = rapid.IntRange(0, 6).Draw(t, "back")
			case "rollbackB":
				o.N = rapid.IntRange(0, 8).Draw(t, "n")
				if rapid.IntRange(0, 7).Draw(t, "far") == 0 {
					o.N = rapid.IntRange(9, 80).Draw(t, "nfar")
				}
			}
			return o
		})
		return Case{Seed: rapid.Uint64Range(0, 1000).Draw(t, "seed"), Ops: rapid.SliceOfN(op, 1, maxOps).Draw(t, "ops")}
	}
}

// genBigCase: histories with thousands of headers - batch appends of more
// than a headers message (2 000) and rollbacks of more than that in one call,
// as the header import does when it compensates a failed filter batch. Size
// thresholds inside the stores (chunked transactions, buffer limits) only
// show at this scale.
func genBigCase(t *rapid.T) Case {
	c := Case{Seed: rapid.Uint64Range(0, 1000).Draw(t, "seed")}
	n1 := 2050 + kit.Uni(t, "n1", 1200)
	c.Ops = append(c.Ops, Op{Kind: "appendB", N: n1})
	if kit.Uni(t, "f", 2) == 0 {
		// (few filter headers: the composite rollback removes them one
		// call at a time, each call a primitive with its own crash
		// images)
		c.Ops = append(c.Ops, Op{Kind: "appendF", N: kit.Pick(t, "nf", []int{1, 2, 5})})
	}
	tail := rapid.SliceOfN(rapid.Custom(func(t *rapid.T) Op {
		switch kit.Uni(t, "kind", 6) {
		case 0, 1, 2:
			return Op{Kind: "rollbackB", N: kit.Pick(t, "n", []int{1999, 2000, 2001, 2002, 2048, 2049 + kit.Uni(t, "nx", 900), n1, n1 + 1})}
		case 3:
			return Op{Kind: "appendB", N: kit.Pick(t, "n", []int{1, 1999, 2000, 2001, 2500})}
		case 4:
			return Op{Kind: "reappend", N: 3000}
		}
		return Op{Kind: "reopen"}
	}), 1, 3).Draw(t, "tail")
	c.Ops = append(c.Ops, tail...)
	return c
}

// prim describes one primitive store call: how it changes the model if it
// succeeds, and how to perform it.
type prim struct {
	name   string
	do     func() error
	update func(m *Model)
	// expectErr: the call is expected to fail and leave everything as is.
	expectErr bool
	// either: the call may fail or succeed (a fault is armed that the code
	// under test may never run into); whichever it reports must be true.
	either bool
}

type runner struct {
	e *Env
	m *Model
	v *kit.Verdict
	// onPrim, if set, wraps the execution of each primitive (C08 uses it
	// to capture crash images with the before/after models).
	onPrim func(p prim, before, after *Model, exec func() error) error
	// stats
	rolledThenAppended bool
	sawRollback        bool
	reopenAfterMut     bool
	mutated            bool
	faults             int
	fileFaults         int
}

func (r *runner) run(p prim) bool {
	before := r.m
	after := r.m.clone()
	after.ctr, after.seed, after.Stash = r.m.ctr, r.m.seed, r.m.Stash
	if p.either {
		if err := p.do(); err == nil {
			p.update(after)
			r.m = after
		}
		return true
	}
	if !p.expectErr {
		p.update(after)
	}
	exec := p.do
	var err error
	if r.onPrim != nil {
		err = r.onPrim(p, before, after, exec)
	} else {
		err = exec()
	}
	switch {
	case p.expectErr && err == nil:
		r.v.Fail("C07/"+p.name+"/no-error", "%s was expected to fail (injected fault or invalid argument) but returned nil", p.name)
		return false
	case !p.expectErr && err != nil:
		r.v.Fail("C07/"+p.name+"/error", "%s failed: %v", p.name, err)
		return false
	}
	r.m = after
	return true
}

func (r *runner) blocksBatch(hdrs []wire.BlockHeader, from int) []headerfs.BlockHeader {
	out := make([]headerfs.BlockHeader, len(hdrs))
	for i := range hdrs {
		h := hdrs[i]
		out[i] = headerfs.BlockHeader{BlockHeader: &h, Height: uint32(from + i)}
	}
	return out
}

func (r *runner) appendBlocks(hdrs []wire.BlockHeader, fail bool, name string) bool {
	return r.appendBlocksCut(hdrs, fail, name, -1)
}

// armFile makes the next write to the store's flat file fail after cut bytes.
func (r *runner) armFile(store any, cut, total int) error {
	ff, err := injectFile(store)
	if err != nil {
		r.v.Harness = err.Error()
		return err
	}
	ff.failAfter = cut % total
	ff.armed = true
	return nil
}

func (r *runner) appendBlocksCut(hdrs []wire.BlockHeader, fail bool, name string, cut int) bool {
	from := len(r.m.Blocks)
	batch := r.blocksBatch(hdrs, from)
	return r.run(prim{name: name, expectErr: fail, do: func() error {
		if fail && cut >= 0 {
			if err := r.armFile(r.e.BS, cut, 80*len(hdrs)); err != nil {
				return nil
			}
		} else if fail {
			r.e.DB.SetFailNext(1)
			defer r.e.DB.SetFailNext(0)
		}
		return r.e.BS.WriteHeaders(batch...)
	}, update: func(m *Model) {
		m.Blocks = append(m.Blocks, hdrs...)
		for _, h := range hdrs {
			delete(m.Gone, h.BlockHash())
		}
	}})
}

func (r *runner) applySyncFault(op Op) bool {
	m := r.m
	tip := len(m.Blocks) - 1
	ftip := len(m.Filters) - 1
	if op.Kind == "sfailB" {
		if op.N == 0 {
			return true
		}
		var hdrs []wire.BlockHeader
		tmp := m.clone()
		tmp.ctr, tmp.seed = m.ctr, m.seed
		for i := 0; i < op.N; i++ {
			h := tmp.newHeader()
			tmp.Blocks = append(tmp.Blocks, h)
			hdrs = append(hdrs, h)
		}
		m.ctr = tmp.ctr
		batch := r.blocksBatch(hdrs, len(m.Blocks))
		r.faults++
		r.mutated = true
		return r.run(prim{name: op.Kind, either: true, do: func() error {
			disarm, err := ArmSyncFault(r.e.BS)
			if err != nil {
				r.v.Harness = err.Error()
				return nil
			}
			err = r.e.BS.WriteHeaders(batch...)
			if disarm() {
				r.v.Class("sync-fault-fired")
			}
			return err
		}, update: func(m *Model) {
			m.Blocks = append(m.Blocks, hdrs...)
			for _, h := range hdrs {
				delete(m.Gone, h.BlockHash())
			}
		}})
	}
	n := min(op.N, tip-ftip)
	if n <= 0 {
		return true
	}
	var fhs []chainhash.Hash
	var batch []headerfs.FilterHeader
	for i := 1; i <= n; i++ {
		f := m.newFilter(ftip + i)
		fhs = append(fhs, f)
		fh := headerfs.FilterHeader{FilterHash: f}
		if i == n {
			fh.HeaderHash = m.Blocks[ftip+i].BlockHash()
			fh.Height = uint32(ftip + i)
		}
		batch = append(batch, fh)
	}
	r.faults++
	r.mutated = true
	return r.run(prim{name: op.Kind, either: true, do: func() error {
		disarm, err := ArmSyncFault(r.e.FS)
		if err != nil {
			r.v.Harness = err.Error()
			return nil
		}
		err = r.e.FS.WriteHeaders(batch...)
		if disarm() {
			r.v.Class("sync-fault-fired")
		}
		return err
	}, update: func(m *Model) { m.Filters = append(m.Filters, fhs...) }})
}

func (r *runner) apply(op Op) bool {
	m := r.m
	tip := len(m.Blocks) - 1
	ftip := len(m.Filters) - 1
	switch op.Kind {
	case "sfailB", "sfailF":
		// an append while every Sync of the flat file fails: whether the
		// store runs into it or not, what it reports must be true
		return r.applySyncFault(op)
	case "appendB", "failB", "ffailB":
		var hdrs []wire.BlockHeader
		tmp := m.clone()
		tmp.ctr, tmp.seed = m.ctr, m.seed
		for i := 0; i < op.N; i++ {
			h := tmp.newHeader()
			tmp.Blocks = append(tmp.Blocks, h)
			hdrs = append(hdrs, h)
		}
		m.ctr = tmp.ctr
		fail := op.Kind != "appendB" && op.N > 0
		if fail {
			r.faults++
		}
		if r.sawRollback && !fail && op.N > 0 {
			r.rolledThenAppended = true
		}
		if op.N > 0 && !fail {
			r.mutated = true
		}
		if op.Kind == "ffailB" {
			r.fileFaults++
			return r.appendBlocksCut(hdrs, fail, op.Kind, op.Cut)
		}
		return r.appendBlocks(hdrs, fail, op.Kind)
	case "reappend":
		n := op.N
		if n > len(m.Stash) {
			n = len(m.Stash)
		}
		// only re-append if the stash still connects to the tip
		if n == 0 || m.Stash[0].PrevBlock != m.tipHash() {
			return true
		}
		hdrs := append([]wire.BlockHeader{}, m.Stash[:n]...)
		m.Stash = nil
		r.rolledThenAppended = true
		r.mutated = true
		return r.appendBlocks(hdrs, false, "reappend")
	case "appendF", "failF", "ffailF":
		n := op.N
		if n > tip-ftip {
			n = tip - ftip
		}
		var fhs []chainhash.Hash
		var batch []headerfs.FilterHeader
		for i := 1; i <= n; i++ {
			f := m.newFilter(ftip + i)
			fhs = append(fhs, f)
			fh := headerfs.FilterHeader{FilterHash: f}
			if i == n {
				fh.HeaderHash = m.Blocks[ftip+i].BlockHash()
				fh.Height = uint32(ftip + i)
			}
			batch = append(batch, fh)
		}
		fail := op.Kind != "appendF" && n > 0
		if fail {
			r.faults++
		}
		if n > 0 && !fail {
			r.mutated = true
		}
		cut := op.Cut
		return r.run(prim{name: op.Kind, expectErr: fail, do: func() error {
			if fail && op.Kind == "ffailF" {
				r.fileFaults++
				if err := r.armFile(r.e.FS, cut, 32*n); err != nil {
					return nil
				}
			} else if fail {
				r.e.DB.SetFailNext(1)
				defer r.e.DB.SetFailNext(0)
			}
			return r.e.FS.WriteHeaders(batch...)
		}, update: func(m *Model) { m.Filters = append(m.Filters, fhs...) }})
	case "rollback":
		for i := 0; i < op.N; i++ {
			tip = len(r.m.Blocks) - 1
			ftip = len(r.m.Filters) - 1
			if tip == 0 {
				break
			}
			if ftip == tip {
				if !r.rollbackFilter() {
					return false
				}
			}
			if !r.rollbackBlocks(1) {
				return false
			}
		}
		return true
	case "rollbackB":
		if op.N > tip {
			// must be refused and change nothing
			n := uint32(op.N)
			return r.run(prim{name: "rollbackB-too-far", expectErr: true, do: func() error {
				_, err := r.e.BS.RollbackBlockHeaders(n)
				return err
			}})
		}
		for len(r.m.Filters)-1 > tip-op.N {
			if !r.rollbackFilter() {
				return false
			}
		}
		return r.rollbackBlocks(op.N)
	case "reopen":
		r.e.Close()
		ft := len(r.m.Filters) - 1
		switch op.Assert {
		case "holds":
			h := max(0, ft-op.N)
			r.e.Assert = &headerfs.FilterHeader{Height: uint32(h), FilterHash: r.m.Filters[h]}
			r.v.Class("reopen:assertion-holds")
		case "beyond":
			r.e.Assert = &headerfs.FilterHeader{Height: uint32(ft + 1 + op.N), FilterHash: chainhash.HashH([]byte("not yet"))}
			r.v.Class("reopen:assertion-beyond-tip")
		case "fails":
			h := max(0, ft-op.N)
			r.e.Assert = &headerfs.FilterHeader{Height: uint32(h), FilterHash: chainhash.HashH(append([]byte("wrong"), r.m.Filters[h][:]...))}
			// the store is purged and starts again from the genesis entry
			r.m.Filters = r.m.Filters[:1]
			r.v.Class("reopen:assertion-fails(reset)")
		}
		if err := r.e.Open(); err != nil {
			r.v.Fail("C07/reopen/open-fails", "stores cannot be reopened: %v", err)
			return false
		}
		if r.mutated {
			r.reopenAfterMut = true
		}
		return true
	}
	return true
}

func (r *runner) rollbackFilter() bool {
	ftip := len(r.m.Filters) - 1
	newTip := r.m.Blocks[ftip-1].BlockHash()
	wantHash := r.m.Filters[ftip-1]
	r.mutated = true
	return r.run(prim{name: "rollbackF", do: func() error {
		bs, err := r.e.FS.RollbackLastBlock(&newTip)
		if err != nil {
			return err
		}
		if bs.Height != int32(ftip-1) || bs.Hash != wantHash {
			return fmt.Errorf("returned stamp (%d,%v), want (%d,%v)", bs.Height, bs.Hash, ftip-1, wantHash)
		}
		return nil
	}, update: func(m *Model) { m.Filters = m.Filters[:ftip] }})
}

func (r *runner) rollbackBlocks(n int) bool {
	tip := len(r.m.Blocks) - 1
	if n > 0 {
		r.sawRollback = true
		r.mutated = true
	}
	want := r.m.Blocks[tip-n]
	return r.run(prim{name: "rollbackB", do: func() error {
		bs, err := r.e.BS.RollbackBlockHeaders(uint32(n))
		if err != nil {
			return err
		}
		if n > 0 && (bs.Height != int32(tip-n) || bs.Hash != want.BlockHash() || !bs.Timestamp.Equal(want.Timestamp)) {
			return fmt.Errorf("returned stamp (%d,%v), want (%d,%v)", bs.Height, bs.Hash, tip-n, want.BlockHash())
		}
		return nil
	}, update: func(m *Model) {
		removed := append([]wire.BlockHeader{}, m.Blocks[tip-n+1:]...)
		for _, h := range removed {
			m.Gone[h.BlockHash()] = true
		}
		m.Blocks = m.Blocks[:tip-n+1]
		if n > 0 {
			m.Stash = removed
		}
	}})
}

func newRunner(c Case, v *kit.Verdict) (*runner, error) {
	e, err := NewEnv()
	if err != nil {
		return nil, err
	}
	m := &Model{Gone: map[chainhash.Hash]bool{}, seed: c.Seed}
	m.Blocks = []wire.BlockHeader{e.Params.Genesis.Header}
	m.Filters = []chainhash.Hash{e.Params.Genesis.FHdr}
	return &runner{e: e, m: m, v: v}, nil
}

// ---- C07 ----

func runC07(t *testing.T, c Case) (v kit.Verdict) {
	r, err := newRunner(c, &v)
	if err != nil {
		v.Harness = err.Error()
		return
	}
	defer r.e.Destroy()
	defer func() {
		if p := recover(); p != nil {
			v.Fail("C07/panic", "store panicked: %v", p)
		}
	}()
	if d := Compare(r.e.BS, r.e.FS, r.m); d != "" {
		v.Fail("C07/initial", "fresh stores disagree with the model: %s", d)
		return
	}
	for i, op := range c.Ops {
		ok := r.apply(op)
		v.Class("op:%s", op.Kind)
		v.Logf("op %d %s -> block tip %d filter tip %d", i, op, len(r.m.Blocks)-1, len(r.m.Filters)-1)
		if !ok {
			return
		}
		if d := Compare(r.e.BS, r.e.FS, r.m); d != "" {
			v.Fail("C07/"+op.Kind+"/read-disagrees", "after op %d %s: %s", i, op, d)
			return
		}
	}
	// Always finish with a reopen: nothing may change.
	r.e.Close()
	if err := r.e.Open(); err != nil {
		v.Fail("C07/reopen/open-fails", "stores cannot be reopened at the end: %v", err)
		return
	}
	if d := Compare(r.e.BS, r.e.FS, r.m); d != "" {
		v.Fail("C07/final-reopen/read-disagrees", "after the final reopen: %s", d)
		return
	}
	v.Nontrivial = r.rolledThenAppended || r.reopenAfterMut || r.faults > 0
	if r.rolledThenAppended {
		v.Class("rollback-then-append")
	}
	if r.reopenAfterMut {
		v.Class("reopen-after-mutation")
	}
	if r.faults > r.fileFaults {
		v.Class("injected-db-fault")
	}
	if r.fileFaults > 0 {
		v.Class("injected-file-fault")
	}
	return
}

func TestC07(t *testing.T) {
	kit.RunProp(t, kit.Prop[Case]{ID: "C07", Name: "store", Gen: genCase(40, false), Run: runC07})
}

// ---- C08 ----

type crashPoint struct {
	im            *Image
	before, after *Model
	sig           string
	inside        bool // strictly inside an operation
}

func sizes(e *Env) (int64, int64) {
	a, _ := os.Stat(filepath.Join(e.Dir, Files[1]))
	b, _ := os.Stat(filepath.Join(e.Dir, Files[2]))
	return a.Size(), b.Size()
}

func runC08(t *testing.T, c Case) (v kit.Verdict) {
	r, err := newRunner(c, &v)
	if err != nil {
		v.Harness = err.Error()
		return
	}
	defer r.e.Destroy()
	defer func() {
		if p := recover(); p != nil {
			v.Fail("C08/panic", "store panicked: %v", p)
		}
	}()
	var points []crashPoint
	inside, nImages := 0, 0
	failed := false
	flush := func() {
		for _, cp := range points {
			if failed {
				break
			}
			nImages++
			if cp.inside {
				inside++
			}
			v.Class("crash:%s", cp.sig)
			if d := checkImage(cp); d != "" {
				sym := d
				if i := indexByte(sym, ':'); i > 0 {
					sym = sym[:i]
				}
				v.Fail("C08/"+cp.sig+"/"+sym, "crash at [%s]: %s", cp.im.Label, d)
				v.Logf("VIOLATION at [%s]: %s", cp.im.Label, d)
				failed = true
			}
		}
		points = points[:0]
	}
	r.onPrim = func(p prim, before, after *Model, exec func() error) error {
		b0, f0 := sizes(r.e)
		var hookErr error
		r.e.DB.SetHook(func(k int64, phase string) {
			im, err := r.e.Snapshot(fmt.Sprintf("%s commit %d %s", p.name, k, phase))
			if err != nil {
				hookErr = err
				return
			}
			points = append(points, crashPoint{im: im, before: before, after: after, sig: p.name + "/" + phase + "-commit", inside: true})
			if phase != "pre" {
				return
			}
			// Torn appends: the file has grown but the index has not
			// been committed; a crash part-way through the write
			// leaves any shorter length.
			for fi, old := range []int64{b0, f0} {
				cur := int64(len(im.Data[fi+1]))
				sz := int64(80)
				if fi == 1 {
					sz = 32
				}
				if cur <= old {
					continue
				}
				n := (cur - old) / sz
				lens := map[int64]string{old + 1: "1-byte", old + sz/2: "mid-entry"}
				if n >= 2 {
					lens[old+(n/2)*sz] = "whole-entries"
					lens[old+(n/2)*sz+sz/3] = "entries-plus-part"
				}
				if n >= 1 {
					lens[cur-1] = "all-but-1-byte"
				}
				for l, cls := range lens {
					if l <= old || l >= cur {
						continue
					}
					t := &Image{Label: fmt.Sprintf("%s torn append (%s): file %s cut to %d of %d..%d", p.name, cls, Files[fi+1], l, old, cur)}
					t.Data = im.Data
					t.Data[fi+1] = im.Data[fi+1][:l]
					points = append(points, crashPoint{im: t, before: before, after: after, sig: p.name + "/torn-append:" + cls, inside: true})
				}
			}
		})
		err := exec()
		r.e.DB.SetHook(nil)
		if hookErr != nil {
			return fmt.Errorf("snapshot: %v", hookErr)
		}
		// The images of this primitive are restarted right away and
		// dropped: with thousands of headers the database file alone
		// weighs tens of megabytes per image.
		flush()
		return err
	}
	for i, op := range c.Ops {
		if failed {
			break
		}
		if !r.apply(op) {
			if failed {
				break
			}
			// C07's business; here it only ends the history
			v.Violation, v.Sig = "", ""
			v.Logf("op %d %s failed, history ends", i, op)
			break
		}
		v.Logf("op %d %s -> block tip %d filter tip %d (crash points so far %d)", i, op, len(r.m.Blocks)-1, len(r.m.Filters)-1, len(points))
	}
	flush()
	r.e.Close()
	v.Count("crash_images", nImages)
	v.Nontrivial = inside > 0
	return
}

func indexByte(s string, b byte) int {
	for i := 0; i < len(s); i++ {
		if s[i] == b {
			return i
		}
	}
	return -1
}

// imageSeq numbers the crash images restarted by this process.
var imageSeq uint64

// checkImage restarts on a crash image and checks the C08 obligations. The
// returned string starts with a short symptom followed by ':'.
func checkImage(cp crashPoint) string {
	dir, err := cp.im.Materialise()
	if err != nil {
		return "harness: " + err.Error()
	}
	defer os.RemoveAll(dir)
	e := &Env{Dir: dir, Params: baseWorld}
	// Every third image is restarted the way a client with a configured
	// filter-header assertion restarts: with an assertion that holds (a
	// height both the state before and the state after the interrupted step
	// hold, with the same value), and every third with one above both tips.
	// Neither may change what the restart has to deliver.
	imageSeq++
	common := min(len(cp.before.Filters), len(cp.after.Filters)) - 1
	for common > 0 && cp.before.Filters[common] != cp.after.Filters[common] {
		common--
	}
	switch imageSeq % 3 {
	case 1:
		h := max(0, common-int(imageSeq/3)%3)
		e.Assert = &headerfs.FilterHeader{Height: uint32(h), FilterHash: cp.before.Filters[h]}
	case 2:
		e.Assert = &headerfs.FilterHeader{Height: uint32(max(len(cp.before.Filters), len(cp.after.Filters)) + 3), FilterHash: chainhash.HashH([]byte("not yet"))}
	}
	if err := e.Open(); err != nil {
		return "open-fails: stores do not open after the crash: " + err.Error()
	}
	defer e.Close()
	var m *Model
	db := Compare(e.BS, e.FS, cp.before)
	if db == "" {
		m = cp.before
	} else {
		da := Compare(e.BS, e.FS, cp.after)
		if da != "" {
			return fmt.Sprintf("wrong-content: stores equal neither the state before the interrupted step (%s) nor the state after it (%s)", db, da)
		}
		m = cp.after
	}
	if len(m.Filters) > len(m.Blocks) {
		return "filter-ahead: filter-header chain is ahead of the block-header chain"
	}
	// Syncing must be able to resume: append to both stores and read back.
	ext := m.clone()
	ext.seed, ext.ctr = 999999, 7000
	var hdrs []wire.BlockHeader
	for i := 0; i < 2; i++ {
		h := ext.newHeader()
		ext.Blocks = append(ext.Blocks, h)
		hdrs = append(hdrs, h)
	}
	batch := make([]headerfs.BlockHeader, len(hdrs))
	for i := range hdrs {
		h := hdrs[i]
		batch[i] = headerfs.BlockHeader{BlockHeader: &h, Height: uint32(len(m.Blocks) + i)}
	}
	if err := e.BS.WriteHeaders(batch...); err != nil {
		return "resume-append-fails: appending block headers after restart fails: " + err.Error()
	}
	fh := ext.newFilter(len(ext.Filters))
	ext.Filters = append(ext.Filters, fh)
	if err := e.FS.WriteHeaders(headerfs.FilterHeader{FilterHash: fh, HeaderHash: ext.Blocks[len(ext.Filters)-1].BlockHash(), Height: uint32(len(ext.Filters) - 1)}); err != nil {
		return "resume-append-fails: appending a filter header after restart fails: " + err.Error()
	}
	if d := Compare(e.BS, e.FS, ext); d != "" {
		return "resume-corrupt: after appending to the restarted stores: " + d
	}
	return ""
}

func TestC08(t *testing.T) {
	kit.RunProp(t, kit.Prop[Case]{ID: "C08", Name: "store", Gen: genCase(10, true), Run: runC08})
}

func TestC08Big(t *testing.T) {
	kit.RunProp(t, kit.Prop[Case]{ID: "C08", Name: "store-big", Gen: genBigCase, Run: runC08})
}

func TestC07Big(t *testing.T) {
	kit.RunProp(t, kit.Prop[Case]{ID: "C07", Name: "store-big", Gen: genBigCase, Run: runC07})
}

func TestMain(m *testing.M) {
	code := m.Run()
	netsim.CleanupTemplates()
	os.Exit(code)
}
