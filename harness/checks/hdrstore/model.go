// Package hdrstore checks the header stores (headerfs) against an in-memory
// list model (C07) and enumerates crash points of store operations (C08).
package hdrstore

import (
	"encoding/binary"
	"fmt"
	"os"
	"path/filepath"
	"time"

	"github.com/btcsuite/btcd/blockchain"
	"github.com/btcsuite/btcd/chainhash/v2"
	"github.com/btcsuite/btcd/wire/v2"
	"github.com/btcsuite/btcwallet/walletdb"
	"github.com/lightninglabs/neutrino/headerfs"

	"verifharness/dbwrap"
	"verifharness/kit"
	"verifharness/netsim"
)

// Op is one operation of a store history.
type Op struct {
	// Kind:
	//  appendB   append N block headers continuing the tip
	//  appendF   append up to N filter headers (never beyond the block tip)
	//  rollback  composite: like the block manager, roll both stores back
	//            by N blocks (filter header first, then block header, one
	//            block at a time)
	//  rollbackB RollbackBlockHeaders(N) (N may exceed the chain: must fail)
	//  reopen    close the database, reopen, build new store objects
	//  failB     like appendB but the index commit is made to fail
	//  failF     like appendF but the index commit is made to fail
	//  reappend  append again (up to N of) the block headers most recently
	//            rolled back
	//  ffailB/ffailF  like appendB/appendF but the write to the flat file
	//            fails after Cut (mod batch size) bytes
	Kind string `json:"kind"`
	N    int    `json:"n"`
	Cut  int    `json:"cut,omitempty"`
	// Assert (reopen only): the filter-header store is reopened with a
	// header state assertion, as a client started with
	// Config.AssertFilterHeader does: "" none | holds (the stored value at a
	// height <= tip, N steps below it) | beyond (a height above the tip) |
	// fails (a wrong value at a stored height: the store must come up reset
	// to the genesis entry).
	Assert string `json:"assert,omitempty"`
}

func (o Op) String() string { return fmt.Sprintf("%s(%d)", o.Kind, o.N) }

// Model is the reference: two plain lists.
type Model struct {
	Blocks  []wire.BlockHeader
	Filters []chainhash.Hash
	Gone    map[chainhash.Hash]bool
	Stash   []wire.BlockHeader // most recently rolled back, oldest first
	ctr     uint32
	seed    uint64
}

func (m *Model) clone() *Model {
	c := &Model{Blocks: append([]wire.BlockHeader{}, m.Blocks...), Filters: append([]chainhash.Hash{}, m.Filters...), Gone: map[chainhash.Hash]bool{}}
	for k := range m.Gone {
		c.Gone[k] = true
	}
	return c
}

func (m *Model) tipHash() chainhash.Hash { return m.Blocks[len(m.Blocks)-1].BlockHash() }

func (m *Model) newHeader() wire.BlockHeader {
	m.ctr++
	var mr chainhash.Hash
	binary.LittleEndian.PutUint64(mr[:], m.seed)
	binary.LittleEndian.PutUint32(mr[8:], m.ctr)
	return wire.BlockHeader{Version: 4, PrevBlock: m.tipHash(), MerkleRoot: chainhash.HashH(mr[:]),
		Timestamp: time.Unix(kit.GenesisTime+int64(m.ctr)*60, 0), Bits: 0x207fffff, Nonce: m.ctr}
}

func (m *Model) newFilter(height int) chainhash.Hash {
	var b [16]byte
	binary.LittleEndian.PutUint64(b[:], m.seed)
	binary.LittleEndian.PutUint32(b[8:], uint32(height))
	h := m.Blocks[height].BlockHash()
	return chainhash.HashH(append(b[:], h[:]...))
}

// Env is a pair of real stores on a data directory.
type Env struct {
	Dir    string
	Raw    walletdb.DB
	DB     *dbwrap.DB
	BS     headerfs.BlockHeaderStore
	FS     headerfs.FilterHeaderStore
	Params *kit.World
	// Assert is handed to the next NewFilterHeaderStore call (and cleared).
	Assert *headerfs.FilterHeader
}

var baseWorld = kit.BuildWorld(kit.WorldSpec{P: kit.ParamSpec{Retarget: 0, Spacing: 60, Adj: 4, VerFloor: 1}, Seed: 0, Base: 0, Future: 0})

// NewEnv creates fresh stores (copy of the per-process template).
func NewEnv() (*Env, error) {
	dir, err := netsim.NewDataDir(baseWorld, 0, 0)
	if err != nil {
		return nil, err
	}
	e := &Env{Dir: dir, Params: baseWorld}
	if err := e.Open(); err != nil {
		os.RemoveAll(dir)
		return nil, err
	}
	return e, nil
}

// Open opens the database and builds new store objects.
func (e *Env) Open() error {
	raw, err := netsim.OpenDB(e.Dir, false)
	if err != nil {
		return fmt.Errorf("open db: %w", err)
	}
	e.Raw = raw
	old := e.DB
	e.DB = dbwrap.Wrap(raw)
	if old != nil {
		e.DB.Commits = old.Commits
		e.DB.Hook = old.Hook
	}
	params := e.Params.Params
	bs, err := headerfs.NewBlockHeaderStore(e.Dir, e.DB, &params)
	if err != nil {
		raw.Close()
		return fmt.Errorf("NewBlockHeaderStore: %w", err)
	}
	as := e.Assert
	e.Assert = nil
	fs, err := headerfs.NewFilterHeaderStore(e.Dir, e.DB, headerfs.RegularFilter, &params, as)
	if err != nil {
		raw.Close()
		return fmt.Errorf("NewFilterHeaderStore: %w", err)
	}
	e.BS, e.FS = bs, fs
	return nil
}

func (e *Env) Close() {
	if e.Raw != nil {
		e.Raw.Close()
		e.Raw = nil
	}
}

func (e *Env) Destroy() {
	e.Close()
	os.RemoveAll(e.Dir)
}

// Files of a data directory that make up its durable state.
var Files = []string{"neutrino.db", "block_headers.bin", "reg_filter_headers.bin"}

// Image is the durable state of a data directory at some instant.
type Image struct {
	Label string
	Data  [3][]byte
}

func (e *Env) Snapshot(label string) (*Image, error) {
	im := &Image{Label: label}
	for i, f := range Files {
		b, err := os.ReadFile(filepath.Join(e.Dir, f))
		if err != nil {
			return nil, err
		}
		im.Data[i] = b
	}
	return im, nil
}

// Materialise writes the image into a new directory.
func (im *Image) Materialise() (string, error) {
	dir, err := os.MkdirTemp(netsim.TmpRoot(), "vimg-")
	if err != nil {
		return "", err
	}
	for i, f := range Files {
		if err := os.WriteFile(filepath.Join(dir, f), im.Data[i], 0o644); err != nil {
			os.RemoveAll(dir)
			return "", err
		}
	}
	return dir, nil
}

type locatorer interface {
	BlockLocatorFromHash(*chainhash.Hash) (blockchain.BlockLocator, error)
}

// Compare checks every read method of both stores against the model. It
// returns "" or a description of the first disagreement.
func Compare(bs headerfs.BlockHeaderStore, fs headerfs.FilterHeaderStore, m *Model) string {
	tip := uint32(len(m.Blocks) - 1)
	th, h, err := bs.ChainTip()
	if err != nil {
		return fmt.Sprintf("block ChainTip: %v", err)
	}
	if h != tip || th.BlockHash() != m.tipHash() {
		return fmt.Sprintf("block ChainTip = (%v,%d), model (%v,%d)", th.BlockHash(), h, m.tipHash(), tip)
	}
	height := map[chainhash.Hash]uint32{}
	for i := uint32(0); i <= tip; i++ {
		want := m.Blocks[i].BlockHash()
		height[want] = i
		got, err := bs.FetchHeaderByHeight(i)
		if err != nil {
			return fmt.Sprintf("FetchHeaderByHeight(%d): %v", i, err)
		}
		if got.BlockHash() != want {
			return fmt.Sprintf("FetchHeaderByHeight(%d) = %v, model %v", i, got.BlockHash(), want)
		}
		g2, hh, err := bs.FetchHeader(&want)
		if err != nil || hh != i || g2.BlockHash() != want {
			return fmt.Sprintf("FetchHeader(hash@%d) = height %d err %v", i, hh, err)
		}
		if hh, err := bs.HeightFromHash(&want); err != nil || hh != i {
			return fmt.Sprintf("HeightFromHash(hash@%d) = %d, %v", i, hh, err)
		}
	}
	for d := uint32(1); d <= 2; d++ {
		if got, err := bs.FetchHeaderByHeight(tip + d); err == nil {
			return fmt.Sprintf("FetchHeaderByHeight(%d) beyond tip %d succeeds: %v", tip+d, tip, got.BlockHash())
		}
	}
	for g := range m.Gone {
		g := g
		if _, ok := height[g]; ok {
			continue
		}
		if _, hh, err := bs.FetchHeader(&g); err == nil {
			return fmt.Sprintf("rolled-back hash %v still found by FetchHeader at height %d", g, hh)
		}
		if hh, err := bs.HeightFromHash(&g); err == nil {
			return fmt.Sprintf("rolled-back hash %v still has height %d", g, hh)
		}
	}
	// Ancestor ranges.
	for _, stop := range []uint32{tip, tip / 2, 0} {
		for _, num := range []uint32{0, 1, stop / 2, stop} {
			if num > stop {
				continue
			}
			sh := m.Blocks[stop].BlockHash()
			hs, start, err := bs.FetchHeaderAncestors(num, &sh)
			if err != nil {
				return fmt.Sprintf("FetchHeaderAncestors(%d, hash@%d): %v", num, stop, err)
			}
			if start != stop-num || uint32(len(hs)) != num+1 {
				return fmt.Sprintf("FetchHeaderAncestors(%d, hash@%d) = %d headers from %d", num, stop, len(hs), start)
			}
			for i := range hs {
				if hs[i].BlockHash() != m.Blocks[start+uint32(i)].BlockHash() {
					return fmt.Sprintf("FetchHeaderAncestors(%d, hash@%d)[%d] differs from the model", num, stop, i)
				}
			}
		}
	}
	// Locators: start at the requested hash, strictly descending heights of
	// hashes the list holds at those heights, dense for the first ten
	// steps, ending at genesis.
	checkLoc := func(name string, loc blockchain.BlockLocator, from uint32) string {
		if len(loc) == 0 || *loc[0] != m.Blocks[from].BlockHash() {
			return fmt.Sprintf("%s does not start at the requested hash", name)
		}
		prev := from
		for i := 1; i < len(loc); i++ {
			hh, ok := height[*loc[i]]
			if !ok {
				return fmt.Sprintf("%s entry %d (%v) is not a hash of the list", name, i, loc[i])
			}
			if hh >= prev {
				return fmt.Sprintf("%s entry %d has height %d, not below %d", name, i, hh, prev)
			}
			if i <= 10 && hh != prev-1 {
				return fmt.Sprintf("%s entry %d skips from %d to %d within the first ten steps", name, i, prev, hh)
			}
			prev = hh
		}
		if len(loc) < wire.MaxBlockLocatorsPerMsg && prev != 0 {
			return fmt.Sprintf("%s ends at height %d, not at genesis", name, prev)
		}
		return ""
	}
	loc, err := bs.LatestBlockLocator()
	if err != nil {
		return fmt.Sprintf("LatestBlockLocator: %v", err)
	}
	if e := checkLoc("LatestBlockLocator", loc, tip); e != "" {
		return e
	}
	if l, ok := bs.(locatorer); ok {
		for _, from := range []uint32{tip / 2, tip / 3} {
			fh := m.Blocks[from].BlockHash()
			loc, err := l.BlockLocatorFromHash(&fh)
			if err != nil {
				return fmt.Sprintf("BlockLocatorFromHash(hash@%d): %v", from, err)
			}
			if e := checkLoc(fmt.Sprintf("BlockLocatorFromHash(hash@%d)", from), loc, from); e != "" {
				return e
			}
		}
	}

	// Filter header store.
	ftip := uint32(len(m.Filters) - 1)
	fh, fhh, err := fs.ChainTip()
	if err != nil {
		return fmt.Sprintf("filter ChainTip: %v", err)
	}
	if fhh != ftip || *fh != m.Filters[ftip] {
		return fmt.Sprintf("filter ChainTip = (%v,%d), model (%v,%d)", fh, fhh, m.Filters[ftip], ftip)
	}
	for i := uint32(0); i <= ftip; i++ {
		got, err := fs.FetchHeaderByHeight(i)
		if err != nil || *got != m.Filters[i] {
			return fmt.Sprintf("filter FetchHeaderByHeight(%d) = %v, %v; model %v", i, got, err, m.Filters[i])
		}
		bh := m.Blocks[i].BlockHash()
		got, err = fs.FetchHeader(&bh)
		if err != nil || *got != m.Filters[i] {
			return fmt.Sprintf("filter FetchHeader(block hash@%d) = %v, %v; model %v", i, got, err, m.Filters[i])
		}
	}
	for d := uint32(1); d <= 2; d++ {
		if got, err := fs.FetchHeaderByHeight(ftip + d); err == nil {
			return fmt.Sprintf("filter FetchHeaderByHeight(%d) beyond tip %d succeeds: %v", ftip+d, ftip, got)
		}
	}
	for i := ftip + 1; i <= tip; i++ {
		bh := m.Blocks[i].BlockHash()
		if got, err := fs.FetchHeader(&bh); err == nil {
			return fmt.Sprintf("filter FetchHeader(block hash@%d) above the filter tip %d succeeds: %v", i, ftip, got)
		}
	}
	for _, num := range []uint32{0, 1, ftip} {
		if num > ftip {
			continue
		}
		sh := m.Blocks[ftip].BlockHash()
		hs, start, err := fs.FetchHeaderAncestors(num, &sh)
		if err != nil || start != ftip-num || uint32(len(hs)) != num+1 {
			return fmt.Sprintf("filter FetchHeaderAncestors(%d, hash@%d) = %d entries from %d, %v", num, ftip, len(hs), start, err)
		}
		for i := range hs {
			if hs[i] != m.Filters[start+uint32(i)] {
				return fmt.Sprintf("filter FetchHeaderAncestors(%d, hash@%d)[%d] differs from the model", num, ftip, i)
			}
		}
	}
	return ""
}
