package c09

import (
	"fmt"
	"sync"
	"time"

	"github.com/btcsuite/btcd/btcutil/v2"
	"github.com/btcsuite/btcd/chainhash/v2"
	"github.com/btcsuite/btcd/wire/v2"
	"github.com/lightninglabs/neutrino"

	"verifharness/kit"
)

// Oracle choices (what C09 does not pin is accepted):
//
//   - Walk: `cur` starts at the start block resolved as the StartBlock doc says
//     (hash, else height, else genesis; no StartBlock option = best block, as the
//     code comment says). connected(B) must have B.parent == cur and the
//     block's height; disconnected(B) must have B == cur. The block tree includes
//     branches that are no longer active: telling the caller about a block that
//     has meanwhile been replaced is a valid walk as long as it is disconnected
//     again before another branch is reported.
//   - Relevant transactions: required only for blocks delivered once the
//     StartTime switch has tripped (a delivered block with timestamp strictly
//     after StartTime; the start block's own timestamp is not used), with the
//     lower bound of the watch state described at updRec. Delivering more is
//     always accepted. DisableDisconnectedNtfns is never used (it makes the
//     callback stream incomplete by request).
//   - A rescan goroutine that returns (end block reached, or an error: a fetch
//     fails while it walks the chain by height, Subscribe refuses a height above
//     the backend's tip, a header it needs was reorganised away) ends the
//     observation; what it delivered before must still be a valid walk. This is
//     classified (exit:...), not failed: the caller is told through the error
//     channel.
//   - End of script: see runner.settle.
//
// updRec is one Rescan.Update call. `returned` is set (under oracle.mu) after
// Update came back without error (at once for gated updates, at the driver's
// next quiescent moment - via `done` - otherwise): the rescan goroutine has then taken the
// update off its unbuffered channel, and it applies an update in the same
// goroutine before it does anything else, so every block callback that BEGINS
// after `returned` was set runs with the update applied. A callback that
// begins earlier may or may not have it; the oracle then does not require it
// (lower bound of the watch state).
type updRec struct {
	addr     []byte // script of an added address (nil: none)
	in       *neutrino.InputWithScript
	rewind   uint32
	returned bool
	done     bool
	folded   bool
}

// oracle checks the callback log online, inside the callbacks (which the
// rescan runs in its own goroutine, in delivery order).
type oracle struct {
	w   *kit.World
	src *source

	trMu sync.Mutex // leaf lock for the trace
	v    *kit.Verdict

	mu        sync.Mutex
	cur       *kit.Node // the block the caller was last told is current
	startTime time.Time
	scanning  bool // lower bound of the rescan's "scanning" switch
	addrs     map[string]bool
	outs      map[wire.OutPoint]bool
	upds      []*updRec
	gate      chan struct{}
	broken    bool // a violation was found; later callbacks are only logged

	nConn, nDisc, nReq, nDeliv, nLearnedSpend int
}

func (o *oracle) tracef(format string, a ...any) {
	o.trMu.Lock()
	o.v.Logf(format, a...)
	o.trMu.Unlock()
}

func (o *oracle) fail(sig, format string, a ...any) {
	o.broken = true
	o.trMu.Lock()
	o.v.Fail(sig, format, a...)
	o.v.Logf("VIOLATION [%s] %s", sig, fmt.Sprintf(format, a...))
	o.trMu.Unlock()
}

// passGate parks a callback while a quiescent-time Update is in flight, so
// that the callback sees the update's `returned` mark (deterministic cases).
func (o *oracle) passGate() {
	o.mu.Lock()
	g := o.gate
	o.mu.Unlock()
	if g != nil {
		<-g
	}
}

func (o *oracle) fold() {
	for _, u := range o.upds {
		if u.returned && !u.folded {
			u.folded = true
			if u.addr != nil {
				o.addrs[string(u.addr)] = true
			}
			if u.in != nil {
				o.outs[u.in.OutPoint] = true
			}
		}
	}
}

func (o *oracle) connected(height int32, hdr *wire.BlockHeader, txs []*btcutil.Tx) {
	o.passGate()
	s := o.src
	s.mu.Lock()
	viaCatchup, lastBH, tip := s.catchupPath, s.lastByHeight, s.tip
	s.mu.Unlock()

	o.mu.Lock()
	defer o.mu.Unlock()
	o.nConn++
	hash := hdr.BlockHash()
	n := o.w.ByHash[hash]
	path := "notification"
	if viaCatchup && lastBH == hash {
		path = "catch-up"
	}
	o.tracef("  CALLBACK connected %s height=%d txs=%d (%s path)", name(n), height, len(txs), path)
	if o.broken {
		return
	}
	if n == nil {
		o.fail("C09/walk/unknown-block", "connected callback for a block %v the backend never had", hash)
		return
	}
	if n.Parent != o.cur {
		// The caller was last told that o.cur is current.
		if path == "catch-up" && !tip.OnPath(o.cur) {
			// Known shape: while walking the chain by height (not yet
			// "current") the rescan takes the block at height+1 of the
			// active chain without comparing its PrevBlock with its own
			// position, which a reorganisation has meanwhile removed.
			o.fail("C09/reorg-unnoticed/catchup-connected-not-child",
				"connected(%s) fetched by height during catch-up is not a child of the current block %s (which was reorganised away; no disconnect was delivered for it)",
				name(n), name(o.cur))
		} else {
			o.fail("C09/walk/connected-not-child", "connected(%s, parent %s) is not a child of the current block %s (%s path)",
				name(n), name(n.Parent), name(o.cur), path)
		}
		return
	}
	if height != n.Height {
		o.fail("C09/walk/height", "connected(%s) delivered with height %d", name(n), height)
		return
	}
	o.cur = n

	// Relevant transactions. Watch state = everything watched from the
	// start + every update that had returned before this callback began +
	// outpoints learned from earlier delivered blocks under that state.
	o.fold()
	if hdr.Timestamp.After(o.startTime) {
		// StartTime doc: "the rescan only begins once the first block
		// crosses that timestamp"; from then on every block is scanned.
		o.scanning = true
	}
	if !o.scanning {
		return
	}
	got := map[chainhash.Hash]bool{}
	for _, tx := range txs {
		got[*tx.Hash()] = true
	}
	o.nDeliv += len(txs)
	for ti, tx := range n.Block.Transactions {
		why := ""
		for _, in := range tx.TxIn {
			if o.outs[in.PreviousOutPoint] {
				why = "spends watched outpoint " + in.PreviousOutPoint.String()
			}
		}
		th := tx.TxHash()
		for oi, out := range tx.TxOut {
			if o.addrs[string(out.PkScript)] {
				if why == "" {
					why = fmt.Sprintf("output %d pays a watched address", oi)
				}
				// "Each time a transaction spends to the specified
				// address, the outpoint is added to the WatchOutPoints
				// list" (WatchAddrs doc).
				o.outs[wire.OutPoint{Hash: th, Index: uint32(oi)}] = true
			}
		}
		if why == "" {
			continue
		}
		o.nReq++
		if !got[th] {
			o.fail("C09/relevant-tx/missed", "connected(%s) was delivered without transaction %d (%v): %s", name(n), ti, th, why)
			return
		}
	}
}

func (o *oracle) disconnected(height int32, hdr *wire.BlockHeader) {
	o.passGate()
	o.mu.Lock()
	defer o.mu.Unlock()
	o.nDisc++
	hash := hdr.BlockHash()
	n := o.w.ByHash[hash]
	o.tracef("  CALLBACK disconnected %s height=%d", name(n), height)
	if o.broken {
		return
	}
	if n == nil || n != o.cur {
		o.fail("C09/walk/disconnect-not-current", "disconnected(%s / %v) does not name the current block %s", name(n), hash, name(o.cur))
		return
	}
	if height != n.Height {
		o.fail("C09/walk/height", "disconnected(%s) delivered with height %d", name(n), height)
		return
	}
	if n.Parent == nil {
		o.fail("C09/walk/disconnect-genesis", "the genesis block was disconnected")
		return
	}
	o.cur = n.Parent
}
