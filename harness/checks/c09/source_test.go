package c09

import (
	"errors"
	"fmt"
	"sync"

	"github.com/btcsuite/btcd/btcutil/v2"
	"github.com/btcsuite/btcd/btcutil/v2/gcs"
	"github.com/btcsuite/btcd/chaincfg/v2"
	"github.com/btcsuite/btcd/chainhash/v2"
	"github.com/btcsuite/btcd/wire/v2"
	"github.com/lightninglabs/neutrino"
	"github.com/lightninglabs/neutrino/blockntfns"
	"github.com/lightninglabs/neutrino/headerfs"

	"verifharness/kit"
)

const (
	holdFilter = iota
	holdBlock
	holdBest
	holdHdr
	holdHdrByHash
	holdFHdr
	holdSubscribe
	holdIsCurrent
	nHolds
)

var holdNames = []string{"GetCFilter", "GetBlock", "BestBlock", "GetBlockHeaderByHeight",
	"GetBlockHeader", "GetFilterHeaderByHeight", "Subscribe", "IsCurrent"}

// source is the generated chain backend: a movable tip inside a kit.World.
// It implements neutrino.ChainSource and blockntfns.NotificationSource.
//
// Modelled on the real backend (RescanChainSource over ChainService): lookups
// by height / by hash only know the active chain; GetBlock of a block that is
// no longer on the active chain fails (its header is gone); GetCFilter of such
// a block fails or, by Case.StaleFilter, still serves the cached filter.
type source struct {
	w           *kit.World
	staleFilter int

	mu      sync.Mutex
	tip     *kit.Node
	current bool
	failF   map[chainhash.Hash]int
	failB   map[chainhash.Hash]int

	// holds stay disabled until the rescan has resolved its options
	// (newRescanState), i.e. until BestBlock call number initBest+1: the
	// oracle computes the start block from the chain at the Start call.
	initBest  int
	bestCalls int
	armKind   int // -1: nothing armed
	armSkip   int
	heldKind  int // -1: nobody parked
	releaseCh chan struct{}

	// observations (classification / narrow signatures only)
	sawCurrentTrue bool
	catchupPath    bool           // the rescan's last header access was by height
	lastByHeight   chainhash.Hash // block returned by the last by-height lookup
	retrying       bool           // a filter failure was served on the notification path and not yet made good
	servedF        int
	servedFCatchup int
	servedB        int
	holdsHit       [nHolds]int
	subscribes     int
	subscribeErrs  int
	failStamp      int // bumps whenever a failure is served

	ntfnCh chan blockntfns.BlockNtfn
	mgr    *blockntfns.SubscriptionManager
	logf   func(format string, a ...any)
}

var _ neutrino.ChainSource = (*source)(nil)
var _ blockntfns.NotificationSource = (*source)(nil)

func newSource(w *kit.World, tip *kit.Node, c Case, logf func(string, ...any)) *source {
	s := &source{
		w: w, staleFilter: c.StaleFilter, tip: tip, current: !c.NotCurrent,
		failF: map[chainhash.Hash]int{}, failB: map[chainhash.Hash]int{},
		armKind: -1, heldKind: -1,
		ntfnCh: make(chan blockntfns.BlockNtfn),
		logf:   logf,
	}
	s.mgr = blockntfns.NewSubscriptionManager(s)
	return s
}

// maybeHold parks the calling (rescan) goroutine if a hold of this kind is
// armed and its skip count is used up. The mutex is not held while parked.
func (s *source) maybeHold(kind int) {
	s.mu.Lock()
	if s.armKind != kind || s.bestCalls <= s.initBest {
		s.mu.Unlock()
		return
	}
	if s.armSkip > 0 {
		s.armSkip--
		s.mu.Unlock()
		return
	}
	s.armKind = -1
	s.heldKind = kind
	s.holdsHit[kind]++
	ch := s.releaseCh
	s.mu.Unlock()
	s.logf("  rescan parked inside %s", holdNames[kind])
	<-ch
	s.mu.Lock()
	s.heldKind = -1
	s.mu.Unlock()
	s.logf("  rescan continues from %s", holdNames[kind])
}

func (s *source) ChainParams() chaincfg.Params { return s.w.Params }

func (s *source) BestBlock() (*headerfs.BlockStamp, error) {
	s.mu.Lock()
	t := s.tip
	s.bestCalls++
	s.mu.Unlock()
	// the answer is computed before a possible hold: it may be stale by the
	// time the rescan gets it, as with any unsynchronised reader of a store
	s.maybeHold(holdBest)
	return &headerfs.BlockStamp{Height: t.Height, Hash: t.Hash, Timestamp: t.Header.Timestamp}, nil
}

func (s *source) GetBlockHeaderByHeight(h uint32) (*wire.BlockHeader, error) {
	s.mu.Lock()
	n := s.tip.Ancestor(int32(h))
	if n != nil {
		s.catchupPath = true
		s.lastByHeight = n.Hash
	}
	s.mu.Unlock()
	s.maybeHold(holdHdr)
	if n == nil {
		return nil, fmt.Errorf("no header at height %d", h)
	}
	hdr := n.Header
	return &hdr, nil
}

func (s *source) GetBlockHeader(hash *chainhash.Hash) (*wire.BlockHeader, uint32, error) {
	s.mu.Lock()
	n := s.w.ByHash[*hash]
	ok := n != nil && s.tip.OnPath(n)
	s.mu.Unlock()
	s.maybeHold(holdHdrByHash)
	if !ok {
		return nil, 0, fmt.Errorf("header %v not found", hash)
	}
	hdr := n.Header
	return &hdr, uint32(n.Height), nil
}

func (s *source) GetFilterHeaderByHeight(h uint32) (*chainhash.Hash, error) {
	s.mu.Lock()
	// only the notification path (handleBlockConnected) asks for this
	s.catchupPath = false
	n := s.tip.Ancestor(int32(h))
	s.mu.Unlock()
	s.maybeHold(holdFHdr)
	if n == nil {
		return nil, fmt.Errorf("no filter header at height %d", h)
	}
	fh := n.FHdr
	return &fh, nil
}

func (s *source) GetCFilter(hash chainhash.Hash, _ wire.FilterType, _ ...neutrino.QueryOption) (*gcs.Filter, error) {
	// a network fetch: it takes time, the answer reflects the state at its end
	s.maybeHold(holdFilter)
	s.mu.Lock()
	defer s.mu.Unlock()
	n := s.w.ByHash[hash]
	if n == nil {
		return nil, errors.New("unknown block")
	}
	if s.failF[hash] > 0 {
		s.failF[hash]--
		s.servedF++
		s.failStamp++
		if s.catchupPath {
			s.servedFCatchup++
		} else {
			s.retrying = true
		}
		s.logf("  GetCFilter(%s) fails (injected, %d left)", name(n), s.failF[hash])
		return nil, errors.New("injected filter fetch failure")
	}
	if !s.tip.OnPath(n) && s.staleFilter == 0 {
		s.logf("  GetCFilter(%s): block no longer on the active chain -> error", name(n))
		return nil, fmt.Errorf("unable to get header for start block=%v", hash)
	}
	s.retrying = false
	return n.Filter, nil
}

func (s *source) GetBlock(hash chainhash.Hash, _ ...neutrino.QueryOption) (*btcutil.Block, error) {
	s.maybeHold(holdBlock)
	s.mu.Lock()
	defer s.mu.Unlock()
	n := s.w.ByHash[hash]
	if n == nil || !s.tip.OnPath(n) {
		s.logf("  GetBlock(%v): not on the active chain -> error", hash)
		return nil, fmt.Errorf("couldn't get header for block %s from database", hash)
	}
	if s.failB[hash] > 0 {
		s.failB[hash]--
		s.servedB++
		s.failStamp++
		s.logf("  GetBlock(%s) fails (injected, %d left)", name(n), s.failB[hash])
		return nil, errors.New("injected block fetch failure")
	}
	b := btcutil.NewBlock(n.Block)
	b.SetHeight(n.Height)
	return b, nil
}

func (s *source) IsCurrent() bool {
	s.mu.Lock()
	cur := s.current
	if cur {
		s.sawCurrentTrue = true
	}
	s.mu.Unlock()
	s.maybeHold(holdIsCurrent)
	return cur
}

func (s *source) Subscribe(bestHeight uint32) (*blockntfns.Subscription, error) {
	s.maybeHold(holdSubscribe)
	sub, err := s.mgr.NewSubscription(bestHeight)
	s.mu.Lock()
	s.subscribes++
	if err != nil {
		s.subscribeErrs++
	} else {
		s.retrying = false // the rescan clears its retry queue when it re-subscribes
	}
	s.mu.Unlock()
	if err != nil {
		s.logf("  Subscribe(%d) fails: %v", bestHeight, err)
	} else {
		s.logf("  Subscribe(%d)", bestHeight)
	}
	return sub, err
}

// ---- blockntfns.NotificationSource (contract of blockManager, cf. C19)

func (s *source) Notifications() <-chan blockntfns.BlockNtfn { return s.ntfnCh }

func (s *source) NotificationsSinceHeight(h uint32) ([]blockntfns.BlockNtfn, uint32, error) {
	s.mu.Lock()
	defer s.mu.Unlock()
	best := uint32(s.tip.Height)
	if h == 0 || h == best {
		return nil, best, nil
	}
	if h > best {
		return nil, 0, fmt.Errorf("request with height %d is greater than best height known %d", h, best)
	}
	out := make([]blockntfns.BlockNtfn, 0, best-h)
	for i := h + 1; i <= best; i++ {
		out = append(out, blockntfns.NewBlockConnected(s.tip.Ancestor(int32(i)).Header, i))
	}
	return out, best, nil
}

// ---- driver side

// stepTo moves the tip by exactly one block (to its parent or to one of its
// children) and returns the notification the backend owes for it.
func (s *source) stepTo(n *kit.Node) blockntfns.BlockNtfn {
	s.mu.Lock()
	defer s.mu.Unlock()
	old := s.tip
	s.tip = n
	if n == old.Parent {
		return blockntfns.NewBlockDisconnected(old.Header, uint32(old.Height), n.Header)
	}
	if n.Parent != old {
		panic("c09: stepTo is not a single step")
	}
	return blockntfns.NewBlockConnected(n.Header, uint32(n.Height))
}

func (s *source) getTip() *kit.Node {
	s.mu.Lock()
	defer s.mu.Unlock()
	return s.tip
}

func name(n *kit.Node) string {
	if n == nil {
		return "<nil>"
	}
	b := 0
	if n.Branch != nil {
		b = n.Branch.Idx
	}
	return fmt.Sprintf("b%d/%d", b, n.Height)
}
