// Package c09: the block-connected / block-disconnected callbacks of a rescan
// form a valid walk of the block tree from its start block and no relevant
// transaction of a connected block is missed (property C09).
//
// Engine: the public neutrino.Rescan object over a generated implementation
// of neutrino.ChainSource (a view onto a kit.World block tree) whose
// Subscribe hands out subscriptions of a real blockntfns.SubscriptionManager
// fed by a notification source that follows the block manager's contract
// (state first, then the event; disconnects highest first with the block
// below as new tip; backlog = connected(h+1..tip) of the active chain).
package c09

import (
	"pgregory.net/rapid"

	"verifharness/kit"
)

// Case is the JSON-able description of one run. Every selector is reduced
// modulo the number of candidates at run time, so any shrunk case is valid.
type Case struct {
	World kit.WorldSpec `json:"world"`

	// StartMode: 0 no StartBlock option (rescan starts at the best block),
	// 1 by height (zero hash), 2 by hash (height field wrong on purpose),
	// 3 unknown hash + height, 4 genesis (zero hash, height 0).
	StartMode int `json:"start_mode"`
	StartBack int `json:"start_back"` // start height = initial tip - StartBack (>= 0)

	// TimeMode: 0 no StartTime; 1 StartTime = timestamp of the main block
	// TimeBack below the initial tip, plus TimeAdj seconds (-1, 0, +1).
	TimeMode int `json:"time_mode"`
	TimeBack int `json:"time_back"`
	TimeAdj  int `json:"time_adj"`

	// EndMode: 0 none; 1 height = initial tip + EndOff (may lie in the
	// future, which the documentation says is ignored); 2 hash of the main
	// block at initial tip + EndOff if that block is already known.
	EndMode int `json:"end_mode"`
	EndOff  int `json:"end_off"`

	Watch   []int   `json:"watch"`    // wallet key indexes watched from the start
	WatchIn []InSel `json:"watch_in"` // outpoints watched from the start

	// NotCurrent: the source reports IsCurrent()=false until a "current" op.
	NotCurrent bool `json:"not_current"`
	// StaleFilter: what GetCFilter answers for a block that is no longer on
	// the active chain: 0 an error (header unknown), 1 the filter (it was
	// still in the filter cache / database).
	StaleFilter int `json:"stale_filter"`

	// StartAt: Rescan.Start is called before op number StartAt (earlier ops
	// act on a chain nobody rescans yet).
	StartAt int `json:"start_at"`

	Ops []Op `json:"ops"`
}

// InSel selects an input of some block of the world: the N-th block that
// spends anything, its S-th spent outpoint.
type InSel struct {
	N int `json:"n"`
	S int `json:"s"`
}

// Op kinds:
//
//	ext     connect A more blocks on top of the tip (child selector B)
//	reorg   move the tip to node B of branch A, block by block
//	fail    the next C fetches (A: 0 filter, 1 block) of upcoming block B fail
//	upd     Update(AddAddrs key A-1 | AddInputs sel (B-1,C) | Rewind to tip-D)
//	sleep   advance virtual time by A ms
//	hold    park the rescan inside its (B+1)-th next call of kind A
//	        (0 GetCFilter, 1 GetBlock, 2 BestBlock, 3 GetBlockHeaderByHeight,
//	        4 GetBlockHeader, 5 GetFilterHeaderByHeight, 6 Subscribe, 7 IsCurrent)
//	release let a parked call continue
//	flush   emit the notifications of deferred chain steps
//	current IsCurrent() becomes true
type Op struct {
	K string `json:"k"`
	A int    `json:"a,omitempty"`
	B int    `json:"b,omitempty"`
	C int    `json:"c,omitempty"`
	D int    `json:"d,omitempty"`
	// Defer (chain ops): change the chain now, emit the notifications later
	// (next undeferred chain op, flush, or end of script). Without Defer every
	// single block step is followed by its notification and by a wait for
	// quiescence. (Every op ends with a wait for quiescence: all interleavings
	// are produced by parking the rescan inside backend calls and by deferred
	// notifications, never by racing goroutines, so cases replay exactly.)
	Defer bool `json:"defer,omitempty"`
}

var opKinds = []string{
	"ext", "ext", "ext", "reorg", "reorg", "reorg", "fail", "fail", "fail",
	"upd", "upd", "upd", "sleep", "sleep", "hold", "hold", "hold", "release", "flush", "current",
}

func genOp(t *rapid.T) Op {
	o := Op{K: kit.Pick(t, "kind", opKinds)}
	switch o.K {
	case "ext":
		o.A = rapid.IntRange(1, 4).Draw(t, "n")
		o.B = rapid.IntRange(0, 3).Draw(t, "child")
	case "reorg":
		o.A = rapid.IntRange(0, 3).Draw(t, "branch")
		o.B = rapid.IntRange(0, 12).Draw(t, "node")
	case "fail":
		o.A = kit.Uni(t, "what", 3) / 2 // 2/3 filter, 1/3 block
		o.B = rapid.IntRange(0, 7).Draw(t, "target")
		o.C = rapid.IntRange(1, 3).Draw(t, "times")
	case "upd":
		switch kit.Uni(t, "updshape", 4) {
		case 0:
			o.A = 1 + kit.Uni(t, "key", 6)
		case 1:
			o.B = 1 + rapid.IntRange(0, 20).Draw(t, "in")
			o.C = rapid.IntRange(0, 3).Draw(t, "ins")
		case 2:
			o.A = 1 + kit.Uni(t, "key", 6)
			o.D = rapid.IntRange(1, 6).Draw(t, "rewind")
		default:
			o.D = rapid.IntRange(1, 6).Draw(t, "rewind")
			if rapid.Bool().Draw(t, "alsoin") {
				o.B = 1 + rapid.IntRange(0, 20).Draw(t, "in")
			}
		}
	case "sleep":
		o.A = rapid.SampledFrom([]int{100, 20, 150, 350}).Draw(t, "ms")
	case "hold":
		o.A = []int{0, 0, 1, 2, 2, 3, 3, 4, 5, 6, 7}[kit.Uni(t, "holdkind", 11)]
		o.B = rapid.IntRange(0, 3).Draw(t, "skip")
	}
	if o.K == "ext" || o.K == "reorg" {
		o.Defer = kit.Uni(t, "defer", 4) == 0
	}
	return o
}

func genCase(t *rapid.T) Case {
	var c Case
	base := rapid.IntRange(3, 12).Draw(t, "base")
	future := rapid.IntRange(2, 8).Draw(t, "future")
	c.World = kit.WorldSpec{
		P:    kit.ParamSpec{Retarget: 0, Spacing: 60, Adj: 4, VerFloor: 1},
		Seed: rapid.Uint64Range(0, 999).Draw(t, "seed"),
		Base: base, Future: future, Pace: 1, Tx: true,
	}
	nb := rapid.IntRange(0, 3).Draw(t, "nbranches")
	tipOf := []int{base + future}
	for i := 0; i < nb; i++ {
		parent := rapid.IntRange(0, i).Draw(t, "bparent")
		lo := base - 5
		if lo < 0 {
			lo = 0
		}
		hi := tipOf[parent]
		if hi > base+3 {
			hi = base + 3
		}
		if lo > hi {
			lo = hi
		}
		at := rapid.IntRange(lo, hi).Draw(t, "bat")
		ln := rapid.IntRange(1, 7).Draw(t, "blen")
		c.World.Branches = append(c.World.Branches, kit.BranchSpec{Parent: parent, At: at, Len: ln, Pace: kit.Uni(t, "bpace", 5)})
		tipOf = append(tipOf, at+ln)
	}

	c.StartMode = []int{1, 1, 2, 0, 3, 4}[kit.Uni(t, "startmode", 6)]
	c.StartBack = rapid.IntRange(0, base).Draw(t, "startback")
	if kit.Uni(t, "timemode", 3) == 0 {
		c.TimeMode = 1
		c.TimeBack = rapid.IntRange(0, base).Draw(t, "timeback")
		c.TimeAdj = rapid.IntRange(-1, 1).Draw(t, "timeadj")
	}
	switch kit.Uni(t, "endmode", 8) {
	case 0:
		c.EndMode = 1
		c.EndOff = rapid.IntRange(-3, future+1).Draw(t, "endoff")
	case 1:
		c.EndMode = 2
		c.EndOff = rapid.IntRange(-3, 0).Draw(t, "endoffh")
	}
	c.Watch = rapid.SliceOfNDistinct(rapid.IntRange(0, 5), 0, 3, rapid.ID[int]).Draw(t, "watch")
	c.WatchIn = rapid.SliceOfN(rapid.Custom(func(t *rapid.T) InSel {
		return InSel{N: rapid.IntRange(0, 20).Draw(t, "n"), S: rapid.IntRange(0, 3).Draw(t, "s")}
	}), 0, 2).Draw(t, "watchin")
	c.NotCurrent = kit.Uni(t, "notcurrent", 6) == 0
	c.StaleFilter = kit.Uni(t, "stalefilter", 2)
	c.StartAt = rapid.IntRange(0, 3).Draw(t, "startat")
	c.Ops = rapid.SliceOfN(rapid.Custom(genOp), 2, 16).Draw(t, "ops")
	return c
}
