package c09

import (
	"fmt"
	"os"
	"runtime"
	"strings"
	"testing"
	"testing/synctest"
	"time"

	"github.com/btcsuite/btcd/address/v2"
	"github.com/btcsuite/btcd/btcutil/v2"
	"github.com/btcsuite/btcd/chainhash/v2"
	"github.com/btcsuite/btcd/rpcclient"
	"github.com/btcsuite/btcd/wire/v2"
	"github.com/lightninglabs/neutrino"
	"github.com/lightninglabs/neutrino/blockntfns"
	"github.com/lightninglabs/neutrino/headerfs"

	"verifharness/kit"
)

func TestC09(t *testing.T) {
	kit.RunProp(t, kit.Prop[Case]{ID: "C09", Name: "rescan", Gen: genCase, Run: runCase})
}

// worldIndex: deterministic orderings over the block tree.
type worldIndex struct {
	children map[*kit.Node][]*kit.Node
	spenders []*kit.Node // blocks that spend a wallet output
}

func indexWorld(w *kit.World) *worldIndex {
	ix := &worldIndex{children: map[*kit.Node][]*kit.Node{}}
	seen := map[*kit.Node]bool{}
	for _, br := range w.Br {
		for _, n := range br.Nodes {
			if seen[n] || n.Parent == nil {
				continue
			}
			seen[n] = true
			ix.children[n.Parent] = append(ix.children[n.Parent], n)
			if len(n.Spent) > 0 {
				ix.spenders = append(ix.spenders, n)
			}
		}
	}
	return ix
}

func (ix *worldIndex) input(sel InSel) *neutrino.InputWithScript {
	if len(ix.spenders) == 0 {
		return nil
	}
	n := ix.spenders[sel.N%len(ix.spenders)]
	sp := n.Spent[sel.S%len(n.Spent)]
	return &neutrino.InputWithScript{OutPoint: sp.Op, PkScript: sp.Script}
}

// upcoming lists the blocks a fetch failure can sensibly be planted on:
// descendants of the tip (three levels) and the last few blocks of the chain.
func (ix *worldIndex) upcoming(tip *kit.Node) []*kit.Node {
	var out []*kit.Node
	level := []*kit.Node{tip}
	for d := 0; d < 3; d++ {
		var next []*kit.Node
		for _, n := range level {
			next = append(next, ix.children[n]...)
		}
		out = append(out, next...)
		level = next
	}
	for n, i := tip, 0; n != nil && n.Parent != nil && i < 5; n, i = n.Parent, i+1 {
		out = append(out, n)
	}
	return out
}

type runner struct {
	t   *testing.T
	c   Case
	v   *kit.Verdict
	w   *kit.World
	ix  *worldIndex
	src *source
	o   *oracle

	r       *neutrino.Rescan
	errChan <-chan error
	quit    chan struct{}
	started bool
	exited  bool
	exitErr error

	pending []blockntfns.BlockNtfn // deferred notifications

	ntReorgBusy, ntUpdBusy bool
}

func runCase(t *testing.T, c Case) kit.Verdict {
	var v kit.Verdict
	rn := &runner{t: t, c: c, v: &v}
	rn.w = kit.BuildWorld(c.World)
	rn.ix = indexWorld(rn.w)
	harness, leak := rn.exec()
	if harness != "" {
		v.Harness = harness
	}
	// one count per case and class
	seen := map[string]bool{}
	var cl []string
	for _, c := range v.Classes {
		if !seen[c] {
			seen[c] = true
			cl = append(cl, c)
		}
	}
	v.Classes = cl
	if leak != "" {
		// Goroutines that stay blocked after quit + manager stop. Not part
		// of C09; recorded as evidence only.
		v.Class("leak-after-quit")
		v.Logf("bubble ended with blocked goroutines: %s", firstLine(leak))
	}
	if os.Getenv("VERIF_DEBUG") != "" && (v.Violation != "" || os.Getenv("VERIF_DEBUG") == "all") {
		fmt.Println(strings.Join(v.Trace, "\n"))
	}
	return v
}

func firstLine(s string) string {
	if i := strings.IndexByte(s, '\n'); i >= 0 {
		return s[:i]
	}
	return s
}

func (rn *runner) exec() (harness, leak string) {
	defer func() {
		if p := recover(); p != nil {
			msg := fmt.Sprint(p)
			if strings.Contains(msg, "deadlock") {
				leak = msg
				return
			}
			buf := make([]byte, 1<<14)
			buf = buf[:runtime.Stack(buf, false)]
			harness = "panic in bubble: " + msg + "\n" + string(buf)
		}
	}()
	synctest.Test(rn.t, func(t *testing.T) { harness = rn.body() })
	return
}

// wait: quiescence. Updates issued without a gate whose Update call has come
// back by now count as applied from here on (see updRec).
func (rn *runner) wait() {
	synctest.Wait()
	rn.pollExit()
	if rn.o != nil {
		rn.o.mu.Lock()
		for _, u := range rn.o.upds {
			if u.done {
				u.returned = true
			}
		}
		rn.o.mu.Unlock()
	}
}

func (rn *runner) pollExit() {
	if !rn.started || rn.exited {
		return
	}
	select {
	case err := <-rn.errChan:
		rn.exited = true
		rn.exitErr = err
		rn.o.tracef("  rescan goroutine returned: %v", err)
	default:
	}
}

func (rn *runner) busy() bool {
	s := rn.src
	s.mu.Lock()
	defer s.mu.Unlock()
	return rn.started && !rn.exited && (s.heldKind >= 0 || s.retrying)
}

func (rn *runner) held() bool {
	s := rn.src
	s.mu.Lock()
	defer s.mu.Unlock()
	return s.heldKind >= 0
}

func (rn *runner) addrOf(script []byte) address.Address {
	a, err := address.NewAddressWitnessPubKeyHash(script[2:], &rn.w.Params)
	if err != nil {
		panic(err)
	}
	return a
}

func (rn *runner) body() string {
	c, w := rn.c, rn.w
	main := w.Br[0]
	initTip := w.Node(0, c.World.Base)
	if initTip == nil {
		return "world has no base tip"
	}
	rn.o = &oracle{w: w, v: rn.v, addrs: map[string]bool{}, outs: map[wire.OutPoint]bool{}}
	rn.src = newSource(w, initTip, c, rn.o.tracef)
	rn.o.src = rn.src
	rn.src.mgr.Start()
	rn.quit = make(chan struct{})
	_ = main

	startAt := c.StartAt
	if startAt > len(c.Ops) {
		startAt = len(c.Ops)
	}
	for i, op := range c.Ops {
		if i == startAt {
			rn.start(initTip)
		}
		rn.do(i, op)
	}
	if !rn.started {
		rn.start(initTip)
	}
	rn.settle()
	rn.classify()
	return ""
}

// start builds the options, predicts the start block the way the option
// documentation describes it, and starts the rescan.
func (rn *runner) start(initTip *kit.Node) {
	c, w, o := rn.c, rn.w, rn.o
	tip := rn.src.getTip()
	opts := []neutrino.RescanOption{
		neutrino.QuitChan(rn.quit),
		neutrino.NotificationHandlers(rpcclient.NotificationHandlers{
			OnFilteredBlockConnected: func(h int32, hdr *wire.BlockHeader, txs []*btcutil.Tx) {
				o.connected(h, hdr, txs)
			},
			OnFilteredBlockDisconnected: func(h int32, hdr *wire.BlockHeader) {
				o.disconnected(h, hdr)
			},
		}),
	}
	startH := int(initTip.Height) - c.StartBack
	if startH < 0 {
		startH = 0
	}
	var startNode *kit.Node
	byHeight := func(h int) *kit.Node {
		// "if there's no such hash, the height is checked next. If the
		// height is 0 ... starts from the genesis block" (and an unknown
		// height falls back to genesis as well)
		if n := tip.Ancestor(int32(h)); n != nil {
			return n
		}
		return w.Genesis
	}
	switch c.StartMode {
	case 0:
		startNode = tip
		rn.src.initBest = 1
	case 1:
		opts = append(opts, neutrino.StartBlock(&headerfs.BlockStamp{Height: int32(startH)}))
		startNode = byHeight(startH)
	case 2:
		n := initTip.Ancestor(int32(startH))
		opts = append(opts, neutrino.StartBlock(&headerfs.BlockStamp{Hash: n.Hash, Height: int32(startH) + 7}))
		if tip.OnPath(n) {
			startNode = n
		} else {
			startNode = byHeight(startH + 7)
		}
	case 3:
		opts = append(opts, neutrino.StartBlock(&headerfs.BlockStamp{Hash: chainhash.Hash{0xc0, 0x09}, Height: int32(startH)}))
		startNode = byHeight(startH)
	default:
		opts = append(opts, neutrino.StartBlock(&headerfs.BlockStamp{}))
		startNode = w.Genesis
	}
	o.cur = startNode
	if c.TimeMode == 1 {
		h := int(initTip.Height) - c.TimeBack
		if h < 0 {
			h = 0
		}
		o.startTime = initTip.Ancestor(int32(h)).Header.Timestamp.Add(time.Duration(c.TimeAdj) * time.Second)
		opts = append(opts, neutrino.StartTime(o.startTime))
	}
	switch c.EndMode {
	case 1:
		if h := int(initTip.Height) + c.EndOff; h > 0 {
			opts = append(opts, neutrino.EndBlock(&headerfs.BlockStamp{Height: int32(h)}))
		}
	case 2:
		if h := int(initTip.Height) + c.EndOff; h > 0 {
			opts = append(opts, neutrino.EndBlock(&headerfs.BlockStamp{Hash: initTip.Ancestor(int32(h)).Hash}))
		}
	}
	var addrs []address.Address
	for _, k := range c.Watch {
		sc := w.Keys[k%len(w.Keys)].Script
		addrs = append(addrs, rn.addrOf(sc))
		o.addrs[string(sc)] = true
	}
	if len(addrs) > 0 {
		opts = append(opts, neutrino.WatchAddrs(addrs...))
	}
	for _, sel := range c.WatchIn {
		if in := rn.ix.input(sel); in != nil {
			opts = append(opts, neutrino.WatchInputs(*in))
			o.outs[in.OutPoint] = true
		}
	}
	o.tracef("START rescan: tip %s, start block %s (mode %d), start time %v, end mode %d off %d, watch keys %v, %d inputs",
		name(tip), name(startNode), c.StartMode, o.startTime.Unix(), c.EndMode, c.EndOff, c.Watch, len(c.WatchIn))
	rn.r = neutrino.NewRescan(rn.src, opts...)
	rn.errChan = rn.r.Start()
	rn.started = true
	// No chain change until the rescan has resolved its options (holds are
	// disabled that long, see source.initBest).
	rn.wait()
}

func (rn *runner) emit(n blockntfns.BlockNtfn) {
	rn.src.ntfnCh <- n
}

func (rn *runner) flush() {
	for _, n := range rn.pending {
		rn.o.tracef("  emit deferred %v", n)
		rn.emit(n)
		rn.wait()
	}
	rn.pending = nil
}

// moveTo walks the backend tip to target one block at a time.
func (rn *runner) moveTo(target *kit.Node, op Op) {
	if !op.Defer {
		rn.flush()
	}
	tip := rn.src.getTip()
	fp := kit.ForkPoint(tip, target)
	var steps []*kit.Node
	for n := tip; n != fp; n = n.Parent {
		steps = append(steps, n.Parent)
	}
	var up []*kit.Node
	for n := target; n != fp; n = n.Parent {
		up = append(up, n)
	}
	for i := len(up) - 1; i >= 0; i-- {
		steps = append(steps, up[i])
	}
	for _, n := range steps {
		disc := n == rn.src.getTip().Parent
		if disc && rn.busy() {
			rn.ntReorgBusy = true
			if rn.held() {
				rn.v.Class("reorg-step-while-parked")
			} else {
				rn.v.Class("reorg-step-while-blocks-await-retry")
			}
		}
		ntfn := rn.src.stepTo(n)
		if op.Defer {
			rn.o.tracef("  chain %v (notification deferred)", ntfn)
			rn.pending = append(rn.pending, ntfn)
		} else {
			rn.o.tracef("  chain %v", ntfn)
			rn.emit(ntfn)
			rn.wait()
		}
	}
	if len(steps) > 0 && tip != fp {
		rn.v.Class("reorg-depth=%s", bucket(int(tip.Height-fp.Height)))
		if op.Defer {
			rn.v.Class("reorg-deferred")
		}
	}
}

func bucket(n int) string {
	switch {
	case n <= 2:
		return fmt.Sprint(n)
	case n <= 4:
		return "3-4"
	default:
		return "5+"
	}
}

func (rn *runner) do(i int, op Op) {
	rn.pollExit()
	tip := rn.src.getTip()
	switch op.K {
	case "ext":
		rn.o.tracef("op %d: extend by %d (defer %v)", i, op.A, op.Defer)
		target := tip
		for k := 0; k < op.A; k++ {
			ch := rn.ix.children[target]
			if len(ch) == 0 {
				break
			}
			target = ch[op.B%len(ch)]
		}
		rn.moveTo(target, op)
	case "reorg":
		br := rn.w.Br[op.A%len(rn.w.Br)]
		target := br.Nodes[op.B%len(br.Nodes)]
		rn.o.tracef("op %d: move tip %s -> %s (defer %v)", i, name(tip), name(target), op.Defer)
		rn.moveTo(target, op)
	case "fail":
		l := rn.ix.upcoming(tip)
		if len(l) == 0 {
			return
		}
		n := l[op.B%len(l)]
		rn.src.mu.Lock()
		if op.A == 0 {
			rn.src.failF[n.Hash] += op.C
		} else {
			rn.src.failB[n.Hash] += op.C
		}
		rn.src.mu.Unlock()
		rn.o.tracef("op %d: next %d fetches of the %s of %s fail", i, op.C, []string{"filter", "block"}[op.A&1], name(n))
	case "upd":
		rn.update(i, op, tip)
	case "sleep":
		rn.o.tracef("op %d: sleep %d ms", i, op.A)
		time.Sleep(time.Duration(op.A) * time.Millisecond)
	case "hold":
		s := rn.src
		s.mu.Lock()
		if s.heldKind < 0 {
			s.armKind, s.armSkip = op.A%nHolds, op.B
			s.releaseCh = make(chan struct{})
		}
		s.mu.Unlock()
		rn.o.tracef("op %d: park the rescan in its call #%d of %s", i, op.B+1, holdNames[op.A%nHolds])
	case "release":
		rn.release(i)
	case "flush":
		rn.o.tracef("op %d: flush %d deferred notifications", i, len(rn.pending))
		rn.flush()
	case "current":
		rn.o.tracef("op %d: backend reports current", i)
		rn.src.mu.Lock()
		rn.src.current = true
		rn.src.mu.Unlock()
	}
	rn.wait()
}

func (rn *runner) release(i int) {
	s := rn.src
	s.mu.Lock()
	ch := s.releaseCh
	was := s.heldKind
	s.releaseCh = nil
	s.armKind = -1
	s.mu.Unlock()
	if ch != nil {
		rn.o.tracef("op %d: release (parked in: %d)", i, was)
		close(ch)
	}
}

func (rn *runner) update(i int, op Op, tip *kit.Node) {
	o := rn.o
	rec := &updRec{}
	var uo []neutrino.UpdateOption
	desc := ""
	if op.A > 0 {
		rec.addr = rn.w.Keys[(op.A-1)%len(rn.w.Keys)].Script
		uo = append(uo, neutrino.AddAddrs(rn.addrOf(rec.addr)))
		desc += fmt.Sprintf(" addr key %d", (op.A-1)%len(rn.w.Keys))
	}
	if op.B > 0 {
		if in := rn.ix.input(InSel{N: op.B - 1, S: op.C}); in != nil {
			rec.in = in
			uo = append(uo, neutrino.AddInputs(*in))
			desc += " input " + in.OutPoint.String()[:12]
		}
	}
	if op.D > 0 {
		if h := int(tip.Height) - op.D; h > 0 {
			rec.rewind = uint32(h)
			uo = append(uo, neutrino.Rewind(rec.rewind))
			desc += fmt.Sprintf(" rewind to %d", h)
		}
	}
	if !rn.started {
		// Update would block until the rescan runs; keep the script simple
		o.tracef("op %d: update skipped (rescan not started)", i)
		return
	}
	busy := rn.busy()
	kind := "addr"
	switch {
	case rec.rewind > 0:
		kind = "rewind"
	case rec.in != nil && rec.addr == nil:
		kind = "input"
	}
	rn.v.Class("update:%s/busy=%v", kind, busy)
	if busy {
		rn.ntUpdBusy = true
	}

	// The driver only acts at quiescent moments. If the rescan is not parked
	// inside a backend call it sits in a select that takes the update at
	// once; its callbacks are gated until Update has returned, so the first
	// callback after the update already sees the `returned` mark. If the
	// rescan is parked, no gate is possible (a callback blocked on the gate
	// could keep the rescan from ever taking the update); the update then
	// counts from the next quiescent moment after Update came back.
	var g chan struct{}
	if !rn.held() && !rn.exited {
		g = make(chan struct{})
		o.mu.Lock()
		o.gate = g
		o.mu.Unlock()
	}
	o.mu.Lock()
	o.upds = append(o.upds, rec)
	o.mu.Unlock()
	o.tracef("op %d: Update(%s ) gated=%v busy=%v", i, desc, g != nil, busy)
	r := rn.r
	go func() {
		err := r.Update(uo...)
		o.mu.Lock()
		if g != nil {
			rec.returned = err == nil
			if o.gate == g {
				o.gate = nil
			}
		} else {
			rec.done = err == nil
		}
		o.mu.Unlock()
		o.tracef("  Update of op %d returned: %v", i, err)
		if g != nil {
			close(g)
		}
	}()
}

// settle lets everything finish and applies the end-of-script check.
func (rn *runner) settle() {
	o, s := rn.o, rn.src
	o.tracef("SETTLE")
	rn.release(-1)
	rn.flush()
	s.mu.Lock()
	s.current = true
	wake := rn.c.NotCurrent && !s.sawCurrentTrue
	tip := s.tip
	s.mu.Unlock()
	rn.wait()
	if wake {
		// a rescan waiting for the backend to become current only looks
		// again when a block arrives
		if ch := rn.ix.children[tip]; len(ch) > 0 {
			o.tracef("  one more block to wake the waiting rescan")
			rn.moveTo(ch[0], Op{})
			rn.wait()
		}
	}
	// Retry timers: 100 ms per failed fetch. Go on until no failure was
	// served for three rounds.
	last, calm := -1, 0
	for k := 0; k < 200 && calm < 3; k++ {
		rn.wait()
		s.mu.Lock()
		st := s.failStamp
		s.mu.Unlock()
		if st == last {
			calm++
		} else {
			calm = 0
			last = st
		}
		time.Sleep(110 * time.Millisecond)
	}
	rn.wait()

	// End-of-script check: a rescan that is still running, has left its
	// initial wait and has nothing left to retry (no fetch failed during the
	// last 330 ms, the retry interval being 100 ms) must have told the caller
	// about every block up to the backend's best block ("no block is
	// skipped", Rewind "restarts it from that point").
	s.mu.Lock()
	left := !rn.c.NotCurrent || s.sawCurrentTrue
	best := s.tip
	s.mu.Unlock()
	o.mu.Lock()
	if !o.broken && !rn.exited && left && calm >= 3 && o.cur != best {
		if !best.OnPath(o.cur) {
			// Known shape (same root cause as the catch-up finding): the
			// rescan re-subscribes by height only, so when its block was
			// replaced while it was not following notifications it is never
			// told; it stays on the removed block until a later block
			// arrives (and then walks on by height).
			o.fail("C09/reorg-unnoticed/final-on-removed-block", "script quiescent, rescan still running, but the block it last reported as current (%s) was reorganised away and never disconnected; backend's best block is %s", name(o.cur), name(best))
		} else {
			o.fail("C09/final/not-at-best", "script quiescent, rescan still running, but the last block it reported (%s) is below the backend's best block %s", name(o.cur), name(best))
		}
	}
	o.mu.Unlock()
	switch {
	case rn.exited:
	case !left:
		rn.v.Class("end:still-waiting-for-current")
	default:
		rn.v.Class("end:running-at-best")
	}

	close(rn.quit)
	rn.wait()
	if !rn.exited {
		rn.v.Class("end:no-exit-after-quit")
	}
	s.mgr.Stop()
	synctest.Wait()
}

func (rn *runner) classify() {
	v, s, o := rn.v, rn.src, rn.o
	s.mu.Lock()
	defer s.mu.Unlock()
	o.mu.Lock()
	defer o.mu.Unlock()
	v.Nontrivial = s.servedF+s.servedB > 0 || rn.ntReorgBusy || rn.ntUpdBusy
	if rn.exited {
		v.Class("exit:%s", exitClass(rn.exitErr))
	}
	v.Class("start-mode=%d", rn.c.StartMode)
	if rn.c.TimeMode != 0 {
		v.Class("start-time")
	}
	if rn.c.NotCurrent {
		v.Class("not-current-at-start")
	}
	if s.servedF-s.servedFCatchup > 0 {
		v.Class("filter-fail-served/notification-path")
	}
	if s.servedFCatchup > 0 {
		v.Class("filter-fail-served/catch-up")
	}
	if s.servedB > 0 {
		v.Class("block-fail-served")
	}
	for k, n := range s.holdsHit {
		if n > 0 {
			v.Class("parked-in:%s", holdNames[k])
		}
	}
	if s.subscribeErrs > 0 {
		v.Class("subscribe-error")
	}
	v.Class("callbacks:conn=%s,disc=%s", bucket(o.nConn), bucket(o.nDisc))
	v.Class("required-txs=%s", bucket(o.nReq))
	v.Count("connected", o.nConn)
	v.Count("disconnected", o.nDisc)
	v.Count("required_txs", o.nReq)
	v.Count("delivered_txs", o.nDeliv)
}

func exitClass(err error) string {
	if err == nil {
		return "end-block-reached"
	}
	m := err.Error()
	switch {
	case err == neutrino.ErrRescanExit:
		return "quit"
	case strings.Contains(m, "injected"):
		return "error:injected-fetch-failure"
	case strings.Contains(m, "unable to register block subscription"), strings.Contains(m, "unable to retrieve blocks since"):
		return "error:subscribe"
	case strings.Contains(m, "unable to get header for start block"), strings.Contains(m, "couldn't get header for block"):
		return "error:fetch-of-reorged-block"
	case strings.Contains(m, "not found"), strings.Contains(m, "no header at height"):
		return "error:header-lookup"
	default:
		return "error:other:" + firstLine(m)
	}
}
