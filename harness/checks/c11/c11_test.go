// Package c11: each subscriber of the block notification manager
// (github.com/lightninglabs/neutrino/blockntfns) sees every block event once,
// in order, from its start (property C11).
//
// The check drives the public blockntfns API (NewSubscriptionManager, Start,
// NewSubscription, Subscription.Notifications / Cancel, Stop) with a generated
// NotificationSource inside a testing/synctest bubble.
//
// Case: a script of operations {sub, cancel, emit, take, stall, sleep, stop}.
// In step mode every operation is issued alone and the bubble is brought to
// quiescence (synctest.Wait) before the next one. In concurrent mode runs of
// operations flagged "join" are issued from concurrent goroutines (optionally
// at slightly different virtual start offsets) and quiescence is awaited at
// the end of each such batch.
//
// Oracle (see checkQuiescent / verify / finish):
//
//   - what a subscriber has read is always a prefix of
//     backlog ++ events[cut:end], where backlog is exactly what the source
//     returned to the manager for that registration, cut is the number of
//     events the manager had taken from the source when it asked for the
//     backlog, and end is fixed when Cancel / Stop returns. In step mode cut
//     and end are exact. In concurrent mode the one event that may be in
//     flight while the backlog is requested makes two cuts admissible, and
//     every one is accepted;
//   - at every quiescent point, without any virtual time having passed, every
//     live subscriber that is willing to read has read everything it expects,
//     whatever the other subscribers do (stalled, slow, cancelled);
//   - no API call (NewSubscription, Cancel, Stop) and no emission blocks while
//     the manager runs;
//   - after Cancel / Stop returned and the bubble is quiescent the channel
//     yields at most the items that were in its buffer at that point and is
//     then closed;
//   - when the bubble ends after Stop no goroutine is left blocked.
//
// Deliberate tolerances (the property does not pin these outcomes):
//   - the backlog is whatever the source returned (the source mimics
//     blockManager.NotificationsSinceHeight, including its error for heights
//     above the tip); a registration that fails because the source failed or
//     because the manager is being stopped is accepted;
//   - while Stop runs concurrently with other calls, NewSubscription may
//     succeed or fail, Cancel may be a no-op, events may or may not be taken
//     from the source; only the prefix / closure rules are asserted then;
//   - how many of the undelivered events a cancelled / stopped subscriber
//     still gets is not pinned beyond "no more than its channel buffer held".
//
// Determinism: step mode is deterministic (every select in the manager has
// exactly one ready case at each step). Concurrent mode is not: goroutines of
// a batch really race inside the bubble and Go picks randomly among ready
// select cases, so a concurrent-mode violation may need several replays
// (VERIF_REPLAY_N) to show again. Operations of a batch can be pinned to "the
// moment the n-th event of the batch starts to be sent" (Op.AtEvent) so that
// Stop / Cancel / NewSubscription race with a burst of events instead of
// running before or after it.
//
// Known, very rare outcome on the unchanged tree (seen about once per 2 500
// Stop-during-burst races in a directed stress loop, never yet by this check
// within its budget): when Stop races with a burst of events, the handler and
// notifySubscriber pick randomly between the closed quit channel and their
// work, so a subscriber can be handed event k+1 without event k just before
// its channel is closed. The oracle reports it as
// "C11/stream/gap/concurrent-stop".
package c11

import (
	"fmt"
	"runtime"
	"strings"
	"sync"
	"sync/atomic"
	"testing"
	"testing/synctest"
	"time"

	"github.com/btcsuite/btcd/wire/v2"
	"github.com/lightninglabs/neutrino/blockntfns"
	"pgregory.net/rapid"

	"verifharness/kit"
)

const (
	rdFast   = "fast"   // reads as soon as something is available
	rdSlow   = "slow"   // reads one item, then pauses DelayMs of virtual time
	rdManual = "manual" // reads only what "take" operations grant
	rdNever  = "never"  // never reads

	kSub    = "sub"
	kCancel = "cancel"
	kEmit   = "emit"
	kTake   = "take"
	kStall  = "stall"
	kSleep  = "sleep"
	kStop   = "stop"
)

// Op is one scripted operation.
type Op struct {
	Kind string `json:"kind"`
	// Join: in concurrent mode, issue this operation concurrently with the
	// previous one (same batch). Ignored in step mode.
	Join bool `json:"join,omitempty"`
	// StartUs: virtual start offset inside the batch (concurrent mode).
	StartUs int `json:"start_us,omitempty"`
	// Sub: target subscriber = index into the subscribers registered
	// before the batch, modulo their number (cancel, take, stall).
	Sub int `json:"sub,omitempty"`
	// Back (sub): -1 => height 0 (no backlog); -2 => height above the tip
	// (the source reports an error); >= 0 => height max(1, tip-Back).
	Back int `json:"back,omitempty"`
	// Reader (sub): fast | slow | manual | never.
	Reader string `json:"reader,omitempty"`
	// DelayMs (sub, slow reader): pause between two reads.
	DelayMs int `json:"delay_ms,omitempty"`
	// AtEvent (sub, cancel, stop; concurrent mode, batch with emissions):
	// when > 0 the call is made at the moment the AtEvent-th event of the
	// batch (modulo their number) starts to be sent, instead of at StartUs.
	AtEvent int `json:"at_event,omitempty"`
	// N: emit => number of events; take => items; sleep => milliseconds.
	N int `json:"n,omitempty"`
	// DiscEvery (emit): every DiscEvery-th event of the burst disconnects
	// the tip instead of connecting a block (0 = never).
	DiscEvery int `json:"disc_every,omitempty"`
}

func (o Op) String() string {
	switch o.Kind {
	case kSub:
		return fmt.Sprintf("sub(back=%d,%s,delay=%dms,atEvent=%d)", o.Back, o.Reader, o.DelayMs, o.AtEvent)
	case kEmit:
		return fmt.Sprintf("emit(n=%d,discEvery=%d)", o.N, o.DiscEvery)
	case kSleep:
		return fmt.Sprintf("sleep(%dms)", o.N)
	case kTake:
		return fmt.Sprintf("take(sub=%d,n=%d)", o.Sub, o.N)
	case kStop:
		return fmt.Sprintf("stop(atEvent=%d)", o.AtEvent)
	}
	return fmt.Sprintf("%s(sub=%d,atEvent=%d)", o.Kind, o.Sub, o.AtEvent)
}

// Case is one generated scenario.
type Case struct {
	Conc    bool `json:"conc"`     // concurrent mode (honour Op.Join)
	InitTip int  `json:"init_tip"` // chain height before the script starts
	// DrainFirst: before the final Stop, let manual readers read everything.
	DrainFirst bool `json:"drain_first"`
	Ops        []Op `json:"ops"`
}

func genSub(t *rapid.T, op *Op) {
	op.Back = rapid.OneOf(
		rapid.Just(-1), rapid.Just(-1), rapid.Just(0), rapid.IntRange(1, 5), rapid.IntRange(1, 5),
		rapid.IntRange(15, 60), rapid.IntRange(15, 60), rapid.IntRange(15, 60), rapid.Just(-2),
	).Draw(t, "back")
	op.Reader = rapid.SampledFrom([]string{rdFast, rdFast, rdSlow, rdManual, rdNever, rdNever}).Draw(t, "reader")
	if op.Reader == rdSlow {
		op.DelayMs = rapid.IntRange(1, 20).Draw(t, "delay_ms")
	}
}

func genOp(t *rapid.T) Op {
	kind := rapid.SampledFrom([]string{
		kSub, kSub, kSub, kSub,
		kEmit, kEmit, kEmit, kEmit, kEmit, kEmit, kEmit,
		kCancel, kCancel, kCancel,
		kTake, kTake, kTake,
		kStall,
		kSleep,
	}).Draw(t, "kind")
	op := Op{Kind: kind}
	op.Join = rapid.Bool().Draw(t, "join")
	op.StartUs = rapid.IntRange(0, 2).Draw(t, "start_us")
	if kind == kSub || kind == kCancel {
		op.AtEvent = rapid.OneOf(rapid.Just(0), rapid.IntRange(1, 40)).Draw(t, "at_event")
	}
	switch kind {
	case kSub:
		genSub(t, &op)
	case kEmit:
		op.N = rapid.OneOf(rapid.IntRange(1, 3), rapid.IntRange(1, 3), rapid.IntRange(15, 30), rapid.IntRange(40, 70)).Draw(t, "n")
		op.DiscEvery = rapid.OneOf(rapid.Just(0), rapid.Just(0), rapid.IntRange(1, 5)).Draw(t, "disc_every")
	case kCancel, kStall:
		op.Sub = rapid.IntRange(0, 7).Draw(t, "sub")
	case kTake:
		op.Sub = rapid.IntRange(0, 7).Draw(t, "sub")
		op.N = rapid.IntRange(1, 30).Draw(t, "n")
	case kSleep:
		op.N = rapid.IntRange(1, 300).Draw(t, "n")
	}
	return op
}

func genCase(t *rapid.T) Case {
	c := Case{
		Conc:       rapid.Bool().Draw(t, "conc"),
		InitTip:    rapid.IntRange(1, 70).Draw(t, "init_tip"),
		DrainFirst: rapid.Bool().Draw(t, "drain_first"),
	}
	// A few subscribers first (so that the script has somebody to act on),
	// then the free-form script.
	pre := rapid.SliceOfN(rapid.Custom(func(t *rapid.T) Op {
		op := Op{Kind: kSub, Join: rapid.Bool().Draw(t, "join")}
		genSub(t, &op)
		return op
	}), 0, 3).Draw(t, "pre")
	ops := rapid.SliceOfN(rapid.Custom(genOp), 1, 24).Draw(t, "ops")
	c.Ops = append(pre, ops...)
	// Every run ends with a Stop issued by the harness at quiescence; about
	// a third of the cases also stop the manager explicitly near the end of
	// the script, possibly concurrently with the operations around it.
	if rapid.IntRange(0, 2).Draw(t, "stop") == 0 {
		at := len(c.Ops) - rapid.IntRange(0, 4).Draw(t, "stop_before")
		if at < 0 {
			at = 0
		}
		atEv := rapid.IntRange(0, 40).Draw(t, "stop_at_event")
		st := []Op{{Kind: kStop, Join: rapid.Bool().Draw(t, "stop_join"), StartUs: rapid.IntRange(0, 2).Draw(t, "stop_start_us"), AtEvent: atEv}}
		// ... often together with a burst of events and new subscribers:
		// concurrently in concurrent mode, afterwards (nothing may arrive,
		// nobody may be accepted) in step mode.
		if n := rapid.OneOf(rapid.Just(0), rapid.IntRange(2, 60), rapid.IntRange(2, 60)).Draw(t, "stop_emit"); n > 0 {
			st = append(st, Op{Kind: kEmit, Join: true, N: n})
		}
		st = append(st, rapid.SliceOfN(rapid.Custom(func(t *rapid.T) Op {
			op := Op{Kind: kSub, Join: true, AtEvent: atEv}
			genSub(t, &op)
			return op
		}), 0, 3).Draw(t, "stop_subs")...)
		c.Ops = append(c.Ops[:at:at], append(st, c.Ops[at:]...)...)
	}
	return c
}

// ident is the identity of a notification as seen through the public
// BlockNtfn interface. Every block the source ever creates has a unique
// nonce, so identities are unique within one expected stream.
func ident(n blockntfns.BlockNtfn) string {
	switch x := n.(type) {
	case nil:
		return "nil"
	case *blockntfns.Connected:
		if x == nil {
			return "nil-connected"
		}
		return fmt.Sprintf("C%d#%d>%d", x.Height(), x.Header().Nonce, x.ChainTip().Nonce)
	case *blockntfns.Disconnected:
		if x == nil {
			return "nil-disconnected"
		}
		return fmt.Sprintf("D%d#%d>%d", x.Height(), x.Header().Nonce, x.ChainTip().Nonce)
	}
	return fmt.Sprintf("?%T", n)
}

// sinceRec records one NotificationsSinceHeight call made by the manager.
type sinceRec struct {
	height  uint32
	backlog []string
	failed  bool
	lo, hi  int // events[:lo] certainly taken by the manager before the call, events[hi:] certainly not
}

// cand is one admissible expectation for a subscriber.
type cand struct {
	backlog []string
	cut     int
	ok      bool
	checked int
}

type subscriber struct {
	idx    int
	height uint32
	mode   string
	delay  time.Duration

	// set by the goroutine calling NewSubscription (under harness.mu)
	returned         bool
	sub              *blockntfns.Subscription
	err              error
	recStart, recEnd int
	loAtCall         int
	hiAtReturn       int
	stopRaced        bool

	// harness main goroutine only
	processed   bool
	cands       []cand
	stalled     bool
	unbounded   bool // manual reader switched to "read everything"
	budget      int  // manual reader: total granted
	cancelAsked bool
	bufAtEnd    int
	readAtEnd   int
	retired     bool

	// under harness.mu
	end        int // -1 while live; else no event with index >= end may be delivered
	cancelDone bool
	log        []string
	closed     bool

	cmd       chan int
	stall     chan struct{}
	stallOnce sync.Once
	done      chan struct{}
}

func (s *subscriber) String() string {
	return fmt.Sprintf("s%d[%s,h=%d]", s.idx, s.mode, s.height)
}

type harness struct {
	v *kit.Verdict
	c Case

	mgr *blockntfns.SubscriptionManager
	ch  chan blockntfns.BlockNtfn

	mu        sync.Mutex
	chain     []wire.BlockHeader // chain[0] = genesis; tip height = len-1
	nonce     uint32
	events    []string // identities of live events in emission order
	sentStart int      // number of events whose send has started
	sentDone  int      // number of events whose send has completed (or was abandoned)
	recs      []sinceRec

	stopStarted bool // under mu
	stopped     bool // under mu: Stop returned
	stopAsked   bool // main only
	stopRace    bool // main only: Stop was issued concurrently with something else

	subs []*subscriber
	live atomic.Int64

	maxPending     int
	maxBacklog     int
	cancelInflight bool
	stopInflight   bool
	starved        bool // a willing reader was served while another had > 20 undelivered
}

// ---- the generated NotificationSource ----

func (h *harness) Notifications() <-chan blockntfns.BlockNtfn { return h.ch }

// NotificationsSinceHeight mimics blockManager.NotificationsSinceHeight.
func (h *harness) NotificationsSinceHeight(height uint32) ([]blockntfns.BlockNtfn, uint32, error) {
	h.mu.Lock()
	defer h.mu.Unlock()
	rec := sinceRec{height: height, lo: h.sentDone, hi: h.sentStart}
	best := uint32(len(h.chain) - 1)
	if height == 0 || height == best {
		h.recs = append(h.recs, rec)
		return nil, best, nil
	}
	if height > best {
		rec.failed = true
		h.recs = append(h.recs, rec)
		return nil, 0, fmt.Errorf("request with height %d is greater than best height known %d", height, best)
	}
	blocks := make([]blockntfns.BlockNtfn, 0, best-height)
	for i := height + 1; i <= best; i++ {
		n := blockntfns.NewBlockConnected(h.chain[i], i)
		blocks = append(blocks, n)
		rec.backlog = append(rec.backlog, ident(n))
	}
	h.recs = append(h.recs, rec)
	return blocks, best, nil
}

func (h *harness) newHeader() wire.BlockHeader {
	h.nonce++
	return wire.BlockHeader{Version: 1, Nonce: h.nonce, Timestamp: time.Unix(946684800+int64(h.nonce), 0)}
}

// nextEvent applies one chain event to the source's chain (mu held).
func (h *harness) nextEvent(disc bool) blockntfns.BlockNtfn {
	tip := len(h.chain) - 1
	if disc && tip >= 2 {
		old := h.chain[tip]
		h.chain = h.chain[:tip]
		return blockntfns.NewBlockDisconnected(old, uint32(tip), h.chain[tip-1])
	}
	hdr := h.newHeader()
	h.chain = append(h.chain, hdr)
	return blockntfns.NewBlockConnected(hdr, uint32(tip+1))
}

type emitJob struct {
	startUs   int
	n         int
	discEvery int
}

// emitter sends the events of the given jobs, in order, on the unbuffered
// source channel, like blockManager.onBlockConnected / onBlockDisconnected.
func (h *harness) emitter(jobs []emitJob, abandon <-chan struct{}, done chan<- struct{}, trig map[int]chan struct{}) {
	defer close(done)
	t0 := time.Now()
	count := 0
	for _, j := range jobs {
		if d := time.Duration(j.startUs)*time.Microsecond - time.Since(t0); d > 0 {
			time.Sleep(d)
		}
		for i := 0; i < j.n; i++ {
			h.mu.Lock()
			n := h.nextEvent(j.discEvery > 0 && (i+1)%j.discEvery == 0)
			h.events = append(h.events, ident(n))
			h.sentStart++
			h.mu.Unlock()
			count++
			if c, ok := trig[count]; ok {
				close(c)
				delete(trig, count)
			}
			select {
			case h.ch <- n:
				h.mu.Lock()
				h.sentDone++
				h.mu.Unlock()
			case <-abandon:
				h.mu.Lock()
				h.sentDone++ // never delivered: nobody may expect it
				h.mu.Unlock()
				return
			}
		}
	}
}

func (h *harness) spawn(f func()) {
	h.live.Add(1)
	go func() {
		defer h.live.Add(-1)
		f()
	}()
}

// reader is the consumer goroutine of one subscription.
func (h *harness) reader(s *subscriber) {
	defer close(s.done)
	ch := s.sub.Notifications
	budget := 0
	inf := s.mode == rdFast || s.mode == rdSlow
	for {
		for !inf && budget == 0 {
			select {
			case k := <-s.cmd:
				if k < 0 {
					inf = true
				} else {
					budget += k
				}
			case <-s.stall:
				return
			}
		}
		select {
		case n, ok := <-ch:
			h.mu.Lock()
			if !ok {
				s.closed = true
				h.mu.Unlock()
				return
			}
			s.log = append(s.log, ident(n))
			h.mu.Unlock()
			if !inf {
				budget--
			}
		case <-s.stall:
			return
		}
		if s.mode == rdSlow {
			select {
			case <-time.After(s.delay):
			case <-s.stall:
				return
			}
		}
	}
}

func (h *harness) fail(sig, format string, a ...any) {
	h.v.Fail(sig, format, a...)
	h.v.Logf("VIOLATION [%s] %s", sig, fmt.Sprintf(format, a...))
}

func (h *harness) failed() bool { return h.v.Violation != "" || h.v.Harness != "" }

func (h *harness) registered() []*subscriber {
	var out []*subscriber
	for _, s := range h.subs {
		if s.processed && s.sub != nil {
			out = append(out, s)
		}
	}
	return out
}

// expLen is the length of the expected stream under candidate c (mu held).
func (h *harness) expLen(s *subscriber, c *cand) int {
	end := s.end
	if end < 0 {
		end = len(h.events)
	}
	n := len(c.backlog)
	if end > c.cut {
		n += end - c.cut
	}
	return n
}

// pending = accepted by the manager for s but not yet read by s, under the
// admissible expectation that yields the smallest number (mu held).
func (h *harness) pending(s *subscriber) int {
	p, first := 0, true
	for i := range s.cands {
		if s.cands[i].ok {
			if x := h.expLen(s, &s.cands[i]) - len(s.log); first || x < p {
				p, first = x, false
			}
		}
	}
	return p
}

func (h *harness) pendingMax(s *subscriber) int {
	p := 0
	for i := range s.cands {
		if s.cands[i].ok {
			if x := h.expLen(s, &s.cands[i]) - len(s.log); x > p {
				p = x
			}
		}
	}
	return p
}

func (h *harness) ctx() string {
	if h.stopRace {
		return "/concurrent-stop"
	}
	return ""
}

// verify checks that what s has read is a prefix of an admissible expected
// stream (mu held).
func (h *harness) verify(s *subscriber) {
	end := s.end
	if end < 0 {
		end = len(h.events)
	}
	anyOK := false
	for i := range s.cands {
		c := &s.cands[i]
		if !c.ok {
			continue
		}
		for c.checked < len(s.log) {
			k := c.checked
			want, have := "", false
			if k < len(c.backlog) {
				want, have = c.backlog[k], true
			} else if j := c.cut + k - len(c.backlog); j < end {
				want, have = h.events[j], true
			}
			if !have || want != s.log[k] {
				c.ok = false
				break
			}
			c.checked++
		}
		if c.ok {
			anyOK = true
		}
	}
	if anyOK || len(s.cands) == 0 {
		return
	}
	// Explain the mismatch against the first candidate.
	c := &s.cands[0]
	k := c.checked
	got := s.log[k]
	var exp []string
	exp = append(exp, c.backlog...)
	if end > c.cut {
		exp = append(exp, h.events[c.cut:end]...)
	}
	class := "unexpected-item"
	pos := -1
	for i, e := range exp {
		if e == got {
			pos = i
			break
		}
	}
	switch {
	case pos > k:
		class = "gap"
	case pos >= 0 && pos < k:
		class = "duplicate-or-reordered"
	default:
		for j, e := range h.events {
			if e == got {
				if j >= end {
					class = "delivered-after-end"
				} else if j < c.cut {
					class = "from-before-registration"
				}
				break
			}
		}
	}
	want := "<nothing: stream should have ended>"
	if k < len(exp) {
		want = exp[k]
	}
	h.fail("C11/stream/"+class+h.ctx(),
		"%v: item %d read is %s, expected %s (backlog %d items, events[%d:%d], %d candidate cut(s)); read so far: %v",
		s, k, got, want, len(c.backlog), c.cut, end, len(s.cands), tail(s.log, 6))
}

func tail(l []string, n int) []string {
	if len(l) > n {
		return append([]string{"..."}, l[len(l)-n:]...)
	}
	return l
}

// readCount checks, at a quiescent point, that a reader willing to read up to
// limit items in total (limit < 0: everything) has read exactly what was due.
// The verdict is existential over the admissible expectations: those that do
// not explain the count are discarded for good, and the check fails only if
// none is left (mu held; verify has been called).
func (h *harness) readCount(s *subscriber, limit int) bool {
	good := 0
	for i := range s.cands {
		c := &s.cands[i]
		if !c.ok {
			continue
		}
		want := h.expLen(s, c)
		if limit >= 0 && limit < want {
			want = limit
		}
		if c.checked == len(s.log) && len(s.log) == want {
			good++
		}
	}
	if good == 0 {
		return false
	}
	for i := range s.cands {
		c := &s.cands[i]
		if !c.ok {
			continue
		}
		want := h.expLen(s, c)
		if limit >= 0 && limit < want {
			want = limit
		}
		if len(s.log) != want {
			c.ok = false
		}
	}
	return true
}

// complete: s has read a whole admissible expected stream (mu held).
func (h *harness) complete(s *subscriber) bool { return h.readCount(s, -1) }

// processNew turns the outcome of a NewSubscription call into expectations.
func (h *harness) processNew(s *subscriber) {
	h.mu.Lock()
	defer h.mu.Unlock()
	s.processed = true
	if !s.returned {
		h.fail("C11/subscribe-blocked"+h.ctx(), "%v: NewSubscription did not return although the bubble is quiescent", s)
		return
	}
	var recs []sinceRec
	for _, r := range h.recs[s.recStart:s.recEnd] {
		if r.height == s.height {
			recs = append(recs, r)
		}
	}
	srcFailed := false
	for _, r := range recs {
		if r.failed {
			srcFailed = true
		}
	}
	if s.sub == nil {
		switch {
		case s.err == nil:
			h.fail("C11/subscribe-nil", "%v: NewSubscription returned neither a subscription nor an error", s)
		case srcFailed:
			h.v.Class("sub-fails/source-error")
		case s.stopRaced:
			h.v.Class("sub-fails/manager-stopping")
		default:
			// The source answered, the manager was running and nobody
			// asked it to stop: nothing allows refusing the subscriber.
			h.fail("C11/subscribe-refused", "%v: NewSubscription failed on a running manager: %v", s, s.err)
		}
		h.v.Logf("   %v -> error %v", s, s.err)
		return
	}
	seen := map[string]bool{}
	add := func(backlog []string, cut int) {
		key := fmt.Sprintf("%d/%d", len(backlog), cut)
		if !seen[key] {
			seen[key] = true
			s.cands = append(s.cands, cand{backlog: backlog, cut: cut, ok: true})
		}
	}
	for _, r := range recs {
		if r.failed {
			continue
		}
		for cut := r.lo; cut <= r.hi; cut++ {
			add(r.backlog, cut)
		}
	}
	if len(s.cands) == 0 {
		if s.height != 0 && !s.stopRaced {
			h.fail("C11/backlog-not-requested", "%v: subscription handed out without a successful backlog request to the source", s)
			return
		}
		// Height 0 means "no backlog": a manager that does not ask the
		// source at all is within the documented behaviour. While Stop
		// races the registration anything up to a closed, empty channel
		// is accepted.
		for cut := s.loAtCall; cut <= s.hiAtReturn; cut++ {
			add(nil, cut)
		}
	}
	bl := len(s.cands[0].backlog)
	if bl > h.maxBacklog {
		h.maxBacklog = bl
	}
	if s.stopRaced {
		h.v.Class("sub-succeeds/manager-stopping")
	}
	h.v.Logf("   %v -> registered, backlog %d, cut(s) %d..%d", s, bl, s.cands[0].cut, s.cands[len(s.cands)-1].cut)
}

// runBatch issues the operations of one batch (one operation in step mode),
// waits for quiescence and evaluates the oracle.
func (h *harness) runBatch(ops []Op) {
	regs := h.registered()
	pick := func(i int) *subscriber {
		if len(regs) == 0 {
			return nil
		}
		return regs[i%len(regs)]
	}
	var wait time.Duration
	var jobs []emitJob
	var newSubs, cancels []*subscriber
	var stopDone chan struct{}
	var desc []string
	hasEmit := false
	totalEmit := 0
	for _, op := range ops {
		if op.Kind == kEmit {
			hasEmit = true
			totalEmit += op.N
		}
	}
	// trig: channels closed by the emitter when it starts to send the n-th
	// event of this batch.
	trig := map[int]chan struct{}{}
	trigger := func(op Op) chan struct{} {
		if op.AtEvent <= 0 || totalEmit == 0 || len(ops) == 1 {
			return nil
		}
		at := 1 + (op.AtEvent-1)%totalEmit
		if trig[at] == nil {
			trig[at] = make(chan struct{})
		}
		return trig[at]
	}
	h.mu.Lock()
	pend := map[*subscriber]int{}
	for _, s := range regs {
		pend[s] = h.pending(s)
	}
	tip := len(h.chain) - 1
	h.mu.Unlock()

	startOn := func(us int, on chan struct{}, f func()) {
		d := time.Duration(us) * time.Microsecond
		if len(ops) == 1 || on != nil {
			d = 0
		}
		if d > wait {
			wait = d
		}
		h.spawn(func() {
			if d > 0 {
				time.Sleep(d)
			}
			if on != nil {
				<-on
			}
			f()
		})
	}
	start := func(us int, f func()) { startOn(us, nil, f) }

	for _, op := range ops {
		desc = append(desc, op.String())
		switch op.Kind {
		case kSub:
			var height uint32
			switch {
			case op.Back == -1:
				height = 0
			case op.Back == -2:
				height = uint32(tip + 3)
			default:
				height = uint32(max(1, tip-op.Back))
			}
			s := &subscriber{idx: len(h.subs), height: height, mode: op.Reader, delay: time.Duration(op.DelayMs) * time.Millisecond,
				end: -1, bufAtEnd: -1, cmd: make(chan int, 64), stall: make(chan struct{}), done: make(chan struct{})}
			if s.mode == "" {
				s.mode = rdFast
			}
			if s.mode == rdSlow && s.delay <= 0 {
				s.delay = time.Millisecond
			}
			h.mu.Lock() // a concurrent Stop of this batch walks h.subs
			h.subs = append(h.subs, s)
			h.mu.Unlock()
			newSubs = append(newSubs, s)
			startOn(op.StartUs, trigger(op), func() {
				h.mu.Lock()
				s.recStart = len(h.recs)
				s.loAtCall = h.sentDone
				raced := h.stopStarted
				h.mu.Unlock()
				sub, err := h.mgr.NewSubscription(height)
				h.mu.Lock()
				s.recEnd = len(h.recs)
				s.hiAtReturn = h.sentStart
				s.sub, s.err, s.returned = sub, err, true
				s.stopRaced = raced || h.stopStarted
				if sub != nil && h.stopped {
					s.end = s.hiAtReturn
				}
				h.mu.Unlock()
				if sub != nil {
					h.spawn(func() { h.reader(s) })
				}
			})
		case kCancel:
			s := pick(op.Sub)
			if s == nil {
				h.v.Class("op-skipped/no-subscriber")
				continue
			}
			if !s.cancelAsked && !h.stopAsked && (pend[s] > 0 || hasEmit) {
				h.cancelInflight = true
			}
			s.cancelAsked = true
			cancels = append(cancels, s)
			startOn(op.StartUs, trigger(op), func() {
				s.sub.Cancel()
				h.mu.Lock()
				// If Stop had not started by now, the handler took the
				// request before any event whose send has not started
				// yet; it unregisters s before it looks at the source
				// again.
				if !h.stopStarted && s.end < 0 {
					s.end = h.sentStart
				}
				s.cancelDone = true
				h.mu.Unlock()
			})
		case kTake:
			s := pick(op.Sub)
			if s == nil {
				h.v.Class("op-skipped/no-subscriber")
				continue
			}
			if s.mode != rdManual || s.stalled || s.unbounded || len(s.cmd) == cap(s.cmd) {
				continue
			}
			s.budget += op.N
			n := op.N
			start(op.StartUs, func() { s.cmd <- n })
		case kStall:
			s := pick(op.Sub)
			if s == nil {
				h.v.Class("op-skipped/no-subscriber")
				continue
			}
			s.stalled = true
			start(op.StartUs, func() { s.stallOnce.Do(func() { close(s.stall) }) })
		case kSleep:
			wait += time.Duration(op.N) * time.Millisecond
		case kEmit:
			jobs = append(jobs, emitJob{startUs: op.StartUs, n: op.N, discEvery: op.DiscEvery})
		case kStop:
			if h.stopAsked {
				continue
			}
			h.stopAsked = true
			if len(ops) > 1 {
				h.stopRace = true
			}
			for _, s := range regs {
				if !s.cancelAsked && (pend[s] > 0 || hasEmit) {
					h.stopInflight = true
				}
			}
			stopDone = make(chan struct{})
			sd := stopDone
			startOn(op.StartUs, trigger(op), func() {
				h.mu.Lock()
				h.stopStarted = true
				h.mu.Unlock()
				h.mgr.Stop()
				h.mu.Lock()
				h.stopped = true
				for _, s := range h.subs {
					if s.returned && s.sub != nil && (s.end < 0 || s.end > h.sentStart) {
						s.end = h.sentStart
					}
				}
				h.mu.Unlock()
				close(sd)
			})
		}
	}
	var emitDone chan struct{}
	var emitAbandon chan struct{}
	if len(jobs) > 0 {
		if len(ops) == 1 {
			jobs[0].startUs = 0
		}
		for _, j := range jobs {
			if d := time.Duration(j.startUs) * time.Microsecond; d > wait {
				wait = d
			}
		}
		emitDone, emitAbandon = make(chan struct{}), make(chan struct{})
		h.spawn(func() { h.emitter(jobs, emitAbandon, emitDone, trig) })
	}
	h.v.Logf("%s", strings.Join(desc, " || "))
	if wait > 0 {
		time.Sleep(wait)
	}
	synctest.Wait()

	// --- everything is quiescent: evaluate ---
	if emitDone != nil && !isClosed(emitDone) {
		h.mu.Lock()
		st, ss, sd := h.stopStarted, h.sentStart, h.sentDone
		h.mu.Unlock()
		if !st {
			h.fail("C11/emit-blocked", "the running manager does not take event %d from the source although the bubble is quiescent (%d taken): the event is delayed for every subscriber", ss-1, sd)
		}
		close(emitAbandon)
		synctest.Wait()
		// release the calls that waited for an event that was never sent
		// (the emitter has gone, nobody else touches the map)
		for _, c := range trig {
			close(c)
		}
		synctest.Wait()
	}
	if stopDone != nil && !isClosed(stopDone) {
		h.fail("C11/stop-blocked", "Stop did not return although the bubble is quiescent")
	}
	for _, s := range cancels {
		h.mu.Lock()
		d := s.cancelDone
		h.mu.Unlock()
		if !d {
			h.fail("C11/cancel-blocked"+h.ctx(), "%v: Cancel did not return although the bubble is quiescent", s)
		}
	}
	for _, s := range newSubs {
		h.processNew(s)
	}
	h.checkQuiescent(false)
}

func isClosed(c chan struct{}) bool {
	select {
	case <-c:
		return true
	default:
		return false
	}
}

// checkQuiescent evaluates the oracle at a quiescent point. With final set,
// slow readers have been given enough virtual time to catch up.
func (h *harness) checkQuiescent(final bool) {
	h.mu.Lock()
	defer h.mu.Unlock()
	var state []string
	someoneServed, someoneStuck := false, false
	for _, s := range h.registered() {
		h.verify(s)
		if h.failed() {
			return
		}
		ended := s.end >= 0 && (s.cancelDone || h.stopped)
		wants := !s.stalled && (s.mode == rdFast || s.unbounded || (s.mode == rdSlow && final) ||
			(s.mode == rdManual && s.budget > len(s.log)))
		p := h.pending(s)
		switch {
		case !ended && !s.cancelAsked && !h.stopStarted:
			if p > h.maxPending {
				h.maxPending = p
			}
			if p > 20 {
				someoneStuck = true
			}
			if s.stalled {
				break
			}
			switch {
			case s.mode == rdFast || s.unbounded || (s.mode == rdSlow && final):
				if !h.complete(s) {
					h.fail("C11/not-delivered/"+s.modeName(), "%v has read %d items but %d were due and it is willing to read: events are delayed or lost (%s)",
						s, len(s.log), len(s.log)+p, h.others(s))
					return
				}
				if len(s.log) > 0 {
					someoneServed = true
				}
			case s.mode == rdManual:
				if !h.readCount(s, s.budget) {
					h.fail("C11/not-delivered/manual", "%v has read %d items, but it asked for %d and %d were due (%s)",
						s, len(s.log), s.budget, len(s.log)+p, h.others(s))
					return
				}
			}
		case ended:
			if s.bufAtEnd < 0 {
				s.bufAtEnd = len(s.sub.Notifications)
				s.readAtEnd = len(s.log)
			}
			if len(s.log) > s.readAtEnd+s.bufAtEnd {
				h.fail("C11/sent-after-close"+h.ctx(), "%v: %d items read after cancel/stop had completed, but only %d were buffered in its channel then",
					s, len(s.log)-s.readAtEnd, s.bufAtEnd)
				return
			}
			if wants && !s.closed {
				why := "stop"
				if s.cancelDone {
					why = "cancel"
				}
				h.fail("C11/not-closed/"+why+h.ctx(), "%v: channel is neither closed nor delivering after %s completed (read %d)", s, why, len(s.log))
				return
			}
		}
		st := "live"
		if ended {
			st = "ended"
		} else if s.cancelAsked {
			st = "cancelling"
		}
		if s.stalled {
			st += ",stalled"
		}
		if s.closed {
			st += ",saw-close"
		}
		state = append(state, fmt.Sprintf("s%d:%s read=%d pend=%d", s.idx, st, len(s.log), p))
	}
	if someoneServed && someoneStuck {
		h.starved = true
	}
	if len(state) > 0 {
		h.v.Logf("   t=%v %s", time.Since(bubbleEpoch).Round(time.Microsecond), strings.Join(state, "; "))
	}
}

var bubbleEpoch = time.Date(2000, 1, 1, 0, 0, 0, 0, time.UTC)

func (s *subscriber) modeName() string {
	if s.unbounded {
		return "drained-manual"
	}
	return s.mode
}

// others describes the other subscribers (for violation messages; mu held).
func (h *harness) others(me *subscriber) string {
	var o []string
	for _, s := range h.registered() {
		if s == me {
			continue
		}
		st := s.mode
		if s.stalled {
			st += ",stalled"
		}
		if s.cancelAsked {
			st += ",cancelled"
		}
		o = append(o, fmt.Sprintf("s%d:%s pend=%d", s.idx, st, h.pending(s)))
	}
	if len(o) == 0 {
		return "no other subscriber"
	}
	return "others: " + strings.Join(o, ", ")
}

// retire ends the reader of a subscription whose cancel / stop has completed
// and reads what is left from the harness main goroutine: at most what was
// buffered, then the channel must be closed.
func (h *harness) retire(s *subscriber) {
	if s.retired || h.failed() {
		return
	}
	s.retired = true
	if !isClosed(s.done) {
		s.stallOnce.Do(func() { close(s.stall) })
		synctest.Wait()
		if !isClosed(s.done) {
			h.v.Harness = fmt.Sprintf("reader of %v does not stop", s)
			return
		}
	}
	h.mu.Lock()
	defer h.mu.Unlock()
	if !s.closed {
	loop:
		for {
			select {
			case n, ok := <-s.sub.Notifications:
				if !ok {
					s.closed = true
					break loop
				}
				s.log = append(s.log, ident(n))
			default:
				break loop
			}
		}
	}
	h.verify(s)
	if h.failed() {
		return
	}
	why := "stop"
	if s.cancelDone {
		why = "cancel"
	}
	if !s.closed {
		h.fail("C11/not-closed/"+why+h.ctx(), "%v: after %s completed its channel is empty but not closed (read %d)", s, why, len(s.log))
		return
	}
	if s.bufAtEnd >= 0 && len(s.log) > s.readAtEnd+s.bufAtEnd {
		h.fail("C11/sent-after-close"+h.ctx(), "%v: %d items read after %s had completed, but only %d were buffered in its channel then",
			s, len(s.log)-s.readAtEnd, why, s.bufAtEnd)
	}
}

// settleSlow advances virtual time until the slow readers had the time to
// read everything that is due.
func (h *harness) settleSlow() {
	var d time.Duration
	h.mu.Lock()
	for _, s := range h.registered() {
		if s.mode == rdSlow && !s.stalled {
			if x := time.Duration(h.pendingMax(s)+len(s.sub.Notifications)+2) * s.delay; x > d {
				d = x
			}
		}
	}
	h.mu.Unlock()
	if d > 0 {
		time.Sleep(d + time.Millisecond)
	}
	synctest.Wait()
}

func (h *harness) finish() {
	defer func() {
		// release whatever the harness itself still has blocked
		for _, s := range h.subs {
			s.stallOnce.Do(func() { close(s.stall) })
		}
		synctest.Wait()
		if !h.failed() && h.live.Load() != 0 {
			h.v.Harness = fmt.Sprintf("%d harness goroutines still running at the end", h.live.Load())
		}
	}()
	if h.failed() {
		return
	}
	// 1. slow readers catch up
	h.settleSlow()
	h.checkQuiescent(true)
	if h.failed() {
		return
	}
	h.mu.Lock()
	running := !h.stopStarted
	h.mu.Unlock()

	// 2. optionally let manual readers read everything while the manager runs
	if h.c.DrainFirst && running {
		for _, s := range h.registered() {
			if s.mode == rdManual && !s.stalled && !s.unbounded && len(s.cmd) < cap(s.cmd) {
				s.unbounded = true
				s.cmd <- -1
			}
		}
		synctest.Wait()
		h.v.Logf("drain manual readers")
		h.checkQuiescent(true)
		if h.failed() {
			return
		}
	}

	// 3. cancelled subscriptions: closed after what was buffered
	for _, s := range h.registered() {
		h.mu.Lock()
		ended := s.end >= 0 && s.cancelDone
		h.mu.Unlock()
		if ended {
			h.retire(s)
		}
	}
	if h.failed() {
		return
	}

	// 4. the manager must still be responsive: a new subscriber gets the
	// next event at once, whatever the state of the others.
	if running {
		h.v.Logf("probe: subscribe, emit, cancel")
		p := &subscriber{idx: len(h.subs), mode: rdNever, end: -1, bufAtEnd: -1, cmd: make(chan int, 1), stall: make(chan struct{}), done: make(chan struct{})}
		close(p.done)
		h.mu.Lock()
		h.subs = append(h.subs, p)
		h.mu.Unlock()
		h.spawn(func() {
			h.mu.Lock()
			p.recStart, p.loAtCall = len(h.recs), h.sentDone
			h.mu.Unlock()
			sub, err := h.mgr.NewSubscription(0)
			h.mu.Lock()
			p.recEnd, p.hiAtReturn = len(h.recs), h.sentStart
			p.sub, p.err, p.returned = sub, err, true
			h.mu.Unlock()
		})
		synctest.Wait()
		h.processNew(p)
		if h.failed() {
			return
		}
		done, ab := make(chan struct{}), make(chan struct{})
		h.spawn(func() { h.emitter([]emitJob{{n: 1}}, ab, done, nil) })
		synctest.Wait()
		if !isClosed(done) {
			h.fail("C11/emit-blocked", "the running manager does not take the probe event from the source")
			close(ab)
			return
		}
		h.mu.Lock()
		select {
		case n, ok := <-p.sub.Notifications:
			if ok {
				p.log = append(p.log, ident(n))
			} else {
				p.closed = true
			}
		default:
		}
		h.verify(p)
		if !h.failed() && !h.complete(p) {
			h.fail("C11/not-delivered/probe", "a fresh subscriber did not get the event emitted after its registration (%s)", h.others(p))
		}
		h.mu.Unlock()
		if h.failed() {
			return
		}
		h.checkQuiescent(true)
		if h.failed() {
			return
		}
		p.cancelAsked = true
		h.spawn(func() {
			p.sub.Cancel()
			h.mu.Lock()
			p.end = h.sentStart
			p.cancelDone = true
			h.mu.Unlock()
		})
		synctest.Wait()
		h.mu.Lock()
		cd := p.cancelDone
		h.mu.Unlock()
		if !cd {
			h.fail("C11/cancel-blocked", "%v: Cancel of the probe did not return", p)
			return
		}
		h.retire(p)
		if h.failed() {
			return
		}
	}

	// 5. shutdown
	if !h.stopAsked {
		h.runBatch([]Op{{Kind: kStop}})
	}
	if h.failed() {
		return
	}
	h.settleSlow()
	h.checkQuiescent(true)
	for _, s := range h.registered() {
		h.retire(s)
	}
}

func (h *harness) run() {
	h.ch = make(chan blockntfns.BlockNtfn)
	h.chain = append(h.chain, h.newHeader())
	for i := 0; i < h.c.InitTip; i++ {
		h.chain = append(h.chain, h.newHeader())
	}
	h.mgr = blockntfns.NewSubscriptionManager(h)
	h.mgr.Start()

	var batches [][]Op
	for _, op := range h.c.Ops {
		if h.c.Conc && op.Join && len(batches) > 0 {
			batches[len(batches)-1] = append(batches[len(batches)-1], op)
		} else {
			batches = append(batches, []Op{op})
		}
	}
	for _, b := range batches {
		if h.failed() {
			break
		}
		h.runBatch(b)
	}
	h.finish()
}

func runCase(t *testing.T, c Case) (v kit.Verdict) {
	// Channels are created inside the bubble (run): blocking on a channel
	// made outside of it is not "durably blocked" for synctest.
	h := &harness{v: &v, c: c}
	defer func() {
		if r := recover(); r != nil {
			msg := fmt.Sprint(r)
			if strings.Contains(msg, "deadlock") {
				// Everything the harness owns has been released in
				// finish(), so what is still blocked belongs to the manager.
				h.fail("C11/goroutine-left-blocked"+h.ctx(), "goroutines are still blocked when the bubble ends: %s", msg)
				h.classify()
				return
			}
			buf := make([]byte, 1<<16)
			buf = buf[:runtime.Stack(buf, false)]
			v.Harness = "panic in harness: " + msg + "\n" + string(buf)
		}
	}()
	synctest.Test(t, func(t *testing.T) {
		h.run()
	})
	h.classify()
	return v
}

func bucket(n int) string {
	switch {
	case n == 0:
		return "0"
	case n <= 20:
		return "1-20"
	case n <= 41:
		return "21-41"
	}
	return ">41"
}

func (h *harness) classify() {
	v := h.v
	if h.c.Conc {
		v.Class("mode/concurrent")
	} else {
		v.Class("mode/step")
	}
	v.Class("max-undelivered/%s", bucket(h.maxPending))
	v.Class("max-backlog/%s", bucket(h.maxBacklog))
	if h.cancelInflight {
		v.Class("cancel-with-events-in-flight")
	}
	if h.stopInflight {
		v.Class("stop-with-events-in-flight")
	}
	if h.starved {
		v.Class("reader-served-while-another-has->20-undelivered")
	}
	if h.stopRace {
		v.Class("stop-concurrent-with-other-ops")
	}
	n := 0
	modes := map[string]bool{}
	for _, s := range h.subs {
		if s.sub != nil && s.mode != "" && s.cmd != nil && cap(s.cmd) > 1 {
			n++
			modes[s.mode] = true
			if s.stalled {
				modes["stalled"] = true
			}
		}
	}
	switch {
	case n == 0:
		v.Class("subscribers/0")
	case n == 1:
		v.Class("subscribers/1")
	case n <= 3:
		v.Class("subscribers/2-3")
	default:
		v.Class("subscribers/4+")
	}
	for _, m := range []string{rdFast, rdSlow, rdManual, rdNever, "stalled"} {
		if modes[m] {
			v.Class("has-reader/%s", m)
		}
	}
	// Non-trivial: some subscriber had more than 20 accepted-but-unread
	// events at a quiescent point, or a cancel / stop was issued while the
	// affected subscriber(s) had events in flight.
	v.Nontrivial = h.maxPending > 20 || h.cancelInflight || h.stopInflight
}

func TestC11(t *testing.T) {
	kit.RunProp(t, kit.Prop[Case]{ID: "C11", Name: "blockntfns", Gen: genCase, Run: runCase})
}
