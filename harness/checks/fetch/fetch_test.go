// Package fetch: GetCFilter returns only filters matching the committed
// filter header (C05); GetBlock returns only the requested, internally valid
// block and bans senders of invalid ones (C06).
package fetch

import (
	"bytes"
	"fmt"
	"os"
	"sync"
	"testing"
	"time"

	"github.com/btcsuite/btcd/btcutil/v2"
	"github.com/btcsuite/btcd/btcutil/v2/gcs"
	"github.com/btcsuite/btcd/chainhash/v2"
	"github.com/btcsuite/btcd/wire/v2"
	"github.com/lightninglabs/neutrino"
	"github.com/lightninglabs/neutrino/filterdb"
	"pgregory.net/rapid"

	"verifharness/kit"
	"verifharness/netsim"
)

// Edit changes the stream of responses a peer gives to one request.
type Edit struct {
	// Op: reverse | rotate | dup | drop | corrupt | prepend | silent
	Op string `json:"op"`
	// I selects the item (mod stream length).
	I int `json:"i"`
	// Kind of corruption / of the prepended unsolicited item.
	Kind string `json:"kind,omitempty"`
}

func (e Edit) String() string { return fmt.Sprintf("%s[%d]%s", e.Op, e.I, e.Kind) }

type Call struct {
	Height int `json:"height"`
	// Batch: "" | fwd | rev ; Max: MaxBatchSize (0 = none)
	Batch string `json:"batch,omitempty"`
	Max   int    `json:"max,omitempty"`
	// Concurrent with the next call.
	Join bool `json:"join,omitempty"`
	// Flap > 0: before the call, peer (Flap-1) mod #peers closes its
	// connection; the client dials it again (same address) and the call is
	// made after that.
	Flap int `json:"flap,omitempty"`
}

type Case struct {
	World kit.WorldSpec `json:"world"`
	// Edits[p][k]: edits applied by peer p to its k-th request (the last
	// list repeats).
	Edits   [][][]Edit `json:"edits"`
	Calls   []Call     `json:"calls"`
	Persist bool       `json:"persist,omitempty"`
	// CacheSize in bytes (0 = default).
	CacheSize int `json:"cache_size,omitempty"`
}

var filterCorruptions = []string{"omit", "extra", "garbage", "empty", "wrongtype", "wronghash", "otherblock", "flip"}
var blockCorruptions = []string{"changetx", "addtx", "droptx", "duplast", "stripwit", "forgewit", "otherblock", "stripcbwit"}

func genCase(filters bool) func(t *rapid.T) Case {
	return func(t *rapid.T) Case {
		p := kit.ParamSpec{Retarget: 0, Spacing: 60, Adj: 4, VerFloor: 1}
		base := rapid.IntRange(2, 60).Draw(t, "base")
		c := Case{World: kit.WorldSpec{P: p, Seed: rapid.Uint64Range(0, 3).Draw(t, "wseed"), Base: base, Future: 0, Pace: 1, Tx: true}}
		np := rapid.IntRange(1, 3).Draw(t, "npeers")
		kinds := filterCorruptions
		if !filters {
			kinds = blockCorruptions
		}
		ops := []string{"corrupt", "corrupt", "corrupt", "dup", "drop", "reverse", "rotate", "prepend", "silent"}
		editGen := rapid.Custom(func(t *rapid.T) Edit {
			e := Edit{Op: kit.Pick(t, "op", ops), I: rapid.IntRange(0, 40).Draw(t, "i")}
			if e.Op == "corrupt" || e.Op == "prepend" {
				e.Kind = kit.Pick(t, "kind", kinds)
			}
			return e
		})
		for i := 0; i < np; i++ {
			c.Edits = append(c.Edits, rapid.SliceOfN(rapid.SliceOfN(editGen, 0, 4), 1, 3).Draw(t, "edits"))
		}
		callGen := rapid.Custom(func(t *rapid.T) Call {
			cl := Call{}
			switch kit.Uni(t, "hsel", 4) {
			case 0:
				cl.Height = 1
			case 1:
				cl.Height = base
			default:
				cl.Height = rapid.IntRange(1, base).Draw(t, "height")
			}
			if filters {
				cl.Batch = kit.Pick(t, "batch", []string{"", "fwd", "rev"})
				if kit.Uni(t, "maxp", 2) == 0 {
					cl.Max = rapid.IntRange(1, 12).Draw(t, "max")
				}
			}
			// GetCFilter serialises callers on a sync.Mutex held across
			// the network query; a goroutine waiting for a sync.Mutex
			// is not durably blocked, which would freeze the bubble's
			// virtual clock. The verif-tag gate in front of that mutex
			// queues the waiters on a channel, so concurrent callers
			// are generated for both calls.
			cl.Join = kit.Uni(t, "join", 4) == 0
			if kit.Uni(t, "flapp", 5) == 0 {
				cl.Flap = 1 + kit.Uni(t, "flap", np)
			}
			return cl
		})
		c.Calls = rapid.SliceOfN(callGen, 1, 6).Draw(t, "calls")
		if filters {
			c.Persist = rapid.Bool().Draw(t, "persist")
			if kit.Uni(t, "smallcache", 3) == 0 {
				c.CacheSize = rapid.IntRange(40, 400).Draw(t, "cachesize")
			}
		}
		return c
	}
}

// hasHonest reports whether some peer answers every request unedited.
func hasHonest(c Case) bool {
	for _, lists := range c.Edits {
		clean := true
		for _, l := range lists {
			if len(l) > 0 {
				clean = false
			}
		}
		if clean {
			return true
		}
	}
	return false
}

// applyEdits edits a response stream. mk builds a corrupted version of item
// (by index into nodes) or an unsolicited item.
func applyEdits(stream []wire.Message, edits []Edit, corrupt func(i int, kind string) wire.Message, unsolicited func(kind string, i int) wire.Message) ([]wire.Message, bool, []string) {
	var notes []string
	bad := false
	for _, e := range edits {
		if len(stream) == 0 {
			break
		}
		i := e.I % len(stream)
		switch e.Op {
		case "silent":
			return nil, bad, append(notes, "silent")
		case "reverse":
			for a, b := 0, len(stream)-1; a < b; a, b = a+1, b-1 {
				stream[a], stream[b] = stream[b], stream[a]
			}
		case "rotate":
			stream = append(stream[i:], stream[:i]...)
		case "dup":
			stream = append(stream[:i+1], stream[i:]...)
		case "drop":
			stream = append(stream[:i:i], stream[i+1:]...)
		case "corrupt":
			if m := corrupt(i, e.Kind); m != nil {
				stream[i] = m
				bad = true
			}
		case "prepend":
			if m := unsolicited(e.Kind, i); m != nil {
				stream = append([]wire.Message{m}, stream...)
				bad = true
			}
		}
		notes = append(notes, e.String())
	}
	return stream, bad, notes
}

// ---------------------------------------------------------------- C05

func corruptFilter(w *kit.World, n *kit.Node, kind string, other *kit.Node) *wire.MsgCFilter {
	switch kind {
	case "omit", "extra":
		if d, _, ok := w.FakeFilter(n, kind); ok {
			return wire.NewMsgCFilter(wire.GCSFilterRegular, &n.Hash, d)
		}
		fallthrough
	case "flip":
		d := append([]byte{}, n.FBytes...)
		d[len(d)-1] ^= 0x5a
		return wire.NewMsgCFilter(wire.GCSFilterRegular, &n.Hash, d)
	case "garbage":
		return wire.NewMsgCFilter(wire.GCSFilterRegular, &n.Hash, []byte{0xfd, 0xff, 0xff, 0x01, 0x02})
	case "empty":
		return wire.NewMsgCFilter(wire.GCSFilterRegular, &n.Hash, nil)
	case "wrongtype":
		return wire.NewMsgCFilter(wire.FilterType(1), &n.Hash, n.FBytes)
	case "wronghash":
		// this block's filter labelled as another block's
		return wire.NewMsgCFilter(wire.GCSFilterRegular, &other.Hash, n.FBytes)
	case "otherblock":
		// another block's filter labelled as this block's
		return wire.NewMsgCFilter(wire.GCSFilterRegular, &n.Hash, other.FBytes)
	}
	return nil
}

func filterOK(f *gcs.Filter, n *kit.Node, committed func(h int32) chainhash.Hash) string {
	b, err := f.NBytes()
	if err != nil {
		return "filter cannot be serialised: " + err.Error()
	}
	fh := chainhash.DoubleHashH(b)
	prev := committed(n.Height - 1)
	got := chainhash.DoubleHashH(append(fh[:], prev[:]...))
	if got != committed(n.Height) {
		return fmt.Sprintf("filter for block %d (%v) does not hash, with the committed header of block %d, to the committed header of block %d", n.Height, n.Hash, n.Height-1, n.Height)
	}
	return ""
}

func runC05(t *testing.T, c Case) kit.Verdict {
	var v kit.Verdict
	w := kit.BuildWorld(c.World)
	tip := w.Br[0].Tip()
	path := tip.Path()
	cfg := netsim.Config{World: w, NumPeers: len(c.Edits), Prefill: c.World.Base,
		Tweak: func(nc *neutrino.Config) {
			nc.PersistToDisk = c.Persist
			if c.CacheSize > 0 {
				nc.FilterCacheSize = uint64(c.CacheSize)
			}
		}}
	for i := range c.Edits {
		cfg.Initial = append(cfg.Initial, i)
	}
	var mu sync.Mutex
	reqCount := map[int]int{}
	delivered := map[chainhash.Hash]bool{} // blocks whose correct filter some peer put on the wire, correctly labelled
	badBefore := false
	setup := func(s *netsim.Sim) {
		for i, p := range s.Peers {
			pi := i
			p.SetView(tip, false)
			p.Override = func(p *netsim.Peer, m wire.Message) bool {
				g, ok := m.(*wire.MsgGetCFilters)
				if !ok {
					return false
				}
				stop, ok := w.ByHash[g.StopHash]
				if !ok {
					return true
				}
				mu.Lock()
				k := reqCount[pi]
				reqCount[pi]++
				mu.Unlock()
				lists := c.Edits[pi]
				if k >= len(lists) {
					k = len(lists) - 1
				}
				var nodes []*kit.Node
				var stream []wire.Message
				for h := int32(g.StartHeight); h <= stop.Height; h++ {
					n := stop.Ancestor(h)
					nodes = append(nodes, n)
					stream = append(stream, wire.NewMsgCFilter(g.FilterType, &n.Hash, n.FBytes))
				}
				orig := append([]wire.Message{}, stream...)
				other := func(i int) *kit.Node { return path[1+(i*7+3)%(len(path)-1)] }
				out, bad, notes := applyEdits(stream, lists[k], func(i int, kind string) wire.Message {
					// the item at position i may have moved; corrupt by
					// the block it is for
					mm, _ := stream[i%len(stream)].(*wire.MsgCFilter)
					if mm == nil {
						return nil
					}
					n := w.ByHash[mm.BlockHash]
					if n == nil {
						return nil
					}
					o := other(i)
					if o == n {
						o = path[1+(int(n.Height))%(len(path)-1)]
					}
					if r := corruptFilter(w, n, kind, o); r != nil {
						return r
					}
					return nil
				}, func(kind string, i int) wire.Message {
					n := other(i)
					if r := corruptFilter(w, n, kind, other(i+1)); r != nil {
						return r
					}
					return nil
				})
				_ = orig
				mu.Lock()
				if bad {
					badBefore = true
				}
				for _, mm := range out {
					if cf, ok := mm.(*wire.MsgCFilter); ok && cf.FilterType == wire.GCSFilterRegular {
						if n := w.ByHash[cf.BlockHash]; n != nil && bytes.Equal(cf.Data, n.FBytes) {
							delivered[n.Hash] = true
						}
					}
				}
				mu.Unlock()
				v.Logf("peer %d request %d getcfilters [%d..%d]: %v -> %d messages", pi, k, g.StartHeight, stop.Height, notes, len(out))
				for _, mm := range out {
					p.Send(mm)
				}
				return true
			}
		}
	}
	committed := func(h int32) chainhash.Hash { return path[h].FHdr }
	fail := func(sym, format string, a ...any) {
		v.Fail("C05/"+sym, format, a...)
		v.Logf("VIOLATION "+format, a...)
	}
	res := netsim.Run(t, cfg, setup, func(s *netsim.Sim) {
		audit := func(when string) bool {
			okk := true
			s.CS.FilterCache.Range(func(k neutrino.FilterCacheKey, f *neutrino.CacheableFilter) bool {
				n := w.ByHash[k.BlockHash]
				if n == nil {
					fail("cache-foreign", "%s: filter cache holds an entry for unknown block %v", when, k.BlockHash)
					okk = false
					return false
				}
				if e := filterOK(f.Filter, n, committed); e != "" {
					fail("cache-unverified", "%s: filter cache entry: %s", when, e)
					okk = false
					return false
				}
				return true
			})
			if !okk {
				return false
			}
			for h := 1; h < len(path); h++ {
				f, err := s.CS.FilterDB.FetchFilter(&path[h].Hash, filterdb.RegularFilter)
				if err != nil || f == nil {
					continue
				}
				if e := filterOK(f, path[h], committed); e != "" {
					fail("db-unverified", "%s: filter database entry: %s", when, e)
					return false
				}
			}
			return true
		}
		type result struct {
			f   *gcs.Filter
			err error
		}
		for i := 0; i < len(c.Calls); {
			j := i
			for j < len(c.Calls)-1 && c.Calls[j].Join {
				j++
			}
			group := c.Calls[i : j+1]
			if f := group[0].Flap; f > 0 {
				fp := s.Peers[(f-1)%len(s.Peers)]
				was := fp.Connected()
				fp.Disconnect()
				if !s.Settle() || !s.Advance(12*time.Second) || !s.Settle() {
					return
				}
				if was && fp.Connected() {
					v.Class("flap:peer-reconnected-before-call")
				}
			}
			results := make([]*result, len(group))
			var wg sync.WaitGroup
			for gi, cl := range group {
				gi, cl := gi, cl
				wg.Add(1)
				go func() {
					defer wg.Done()
					opts := []neutrino.QueryOption{neutrino.NumRetries(2)}
					switch cl.Batch {
					case "fwd":
						opts = append(opts, neutrino.OptimisticBatch())
					case "rev":
						opts = append(opts, neutrino.OptimisticReverseBatch())
					}
					if cl.Max > 0 {
						opts = append(opts, neutrino.MaxBatchSize(int64(cl.Max)))
					}
					f, err := s.CS.GetCFilter(path[cl.Height].Hash, wire.GCSFilterRegular, opts...)
					results[gi] = &result{f, err}
				}()
			}
			done := make(chan struct{})
			go func() { wg.Wait(); close(done) }()
			finished := false
			for k := 0; k < 150 && !finished; k++ {
				if !s.Settle() {
					return
				}
				select {
				case <-done:
					finished = true
				default:
					if !s.Advance(4 * time.Second) {
						return
					}
				}
			}
			if !finished {
				// Without a peer that answers properly the query layer
				// keeps waiting for one; the property only forbids
				// returning something unverified.
				if hasHonest(c) {
					fail("call-hangs", "GetCFilter calls %v did not return within 800 virtual seconds although a peer answers every request correctly", group)
				}
				v.Class("call:still-waiting-for-a-good-peer")
				return
			}
			s.Advance(time.Second) // let the batch writer flush
			for gi, cl := range group {
				r := results[gi]
				n := path[cl.Height]
				mu.Lock()
				had := delivered[n.Hash]
				mu.Unlock()
				v.Logf("call GetCFilter(height %d, batch=%q max=%d) -> err=%v", cl.Height, cl.Batch, cl.Max, r.err)
				if r.err == nil {
					v.Class("call:ok")
					if r.f == nil {
						fail("nil-filter", "GetCFilter(%d) returned (nil, nil)", cl.Height)
						return
					}
					if e := filterOK(r.f, n, committed); e != "" {
						fail("returned-unverified", "GetCFilter(%d) returned a filter that does not match the committed header: %s", cl.Height, e)
						return
					}
					if !had {
						// No peer has put the correct filter for this block
						// on the wire as a regular-type cfilter at any time
						// of the run, so it cannot come from an earlier
						// verified fetch either: the client has accepted a
						// message it must ignore (e.g. one labelled with
						// another filter type).
						fail("returned-unsent", "GetCFilter(%d) returned the block's filter although no peer ever sent it in a regular-type cfilter message: a response for another filter type (or otherwise to be ignored) was accepted", cl.Height)
						return
					}
					// asking again gives the same filter
					f2, err2 := s.CS.GetCFilter(n.Hash, wire.GCSFilterRegular)
					if err2 != nil {
						v.Class("second-call:error")
					} else {
						b1, _ := r.f.NBytes()
						b2, _ := f2.NBytes()
						if !bytes.Equal(b1, b2) {
							fail("second-call-differs", "a second GetCFilter(%d) returned a different filter", cl.Height)
							return
						}
					}
				} else {
					v.Class("call:error")
				}
			}
			if !audit(fmt.Sprintf("after calls %v", group)) {
				return
			}
			i = j + 1
		}
	})
	if res.Harness != "" {
		v.Harness = res.Harness
	}
	mu.Lock()
	v.Nontrivial = badBefore
	mu.Unlock()
	for _, cl := range c.Calls {
		if cl.Batch != "" {
			v.Class("batch:%s", cl.Batch)
			v.Nontrivial = v.Nontrivial || true
		}
	}
	if c.Persist {
		v.Class("persist")
	}
	if c.CacheSize > 0 {
		v.Class("small-cache")
	}
	return v
}

func TestC05(t *testing.T) {
	kit.RunProp(t, kit.Prop[Case]{ID: "C05", Name: "netsim", Gen: genCase(true), Run: runC05})
}

// ---------------------------------------------------------------- C06

// corruptBlock returns a block with n's header that is wrong in one way.
func corruptBlock(n, other *kit.Node, kind string) *wire.MsgBlock {
	cp := func(b *wire.MsgBlock) *wire.MsgBlock {
		var buf bytes.Buffer
		_ = b.Serialize(&buf)
		var out wire.MsgBlock
		_ = out.Deserialize(&buf)
		return &out
	}
	b := cp(n.Block)
	switch kind {
	case "otherblock":
		return cp(other.Block)
	case "changetx":
		b.Transactions[len(b.Transactions)-1].TxOut[0].Value++
	case "addtx":
		b.Transactions = append(b.Transactions, cp(other.Block).Transactions[0])
	case "droptx":
		if len(b.Transactions) < 2 {
			b.Transactions[0].TxOut[0].Value++
		} else {
			b.Transactions = b.Transactions[:len(b.Transactions)-1]
		}
	case "duplast":
		// merkle malleation: duplicating the last transaction of an
		// odd-length list keeps the merkle root
		b.Transactions = append(b.Transactions, b.Transactions[len(b.Transactions)-1])
	case "stripwit":
		for _, tx := range b.Transactions[1:] {
			for _, in := range tx.TxIn {
				in.Witness = nil
			}
		}
		if len(b.Transactions) == 1 {
			b.Transactions[0].TxIn[0].Witness = nil
		}
	case "stripcbwit":
		b.Transactions[0].TxIn[0].Witness = nil
	case "forgewit":
		done := false
		for _, tx := range b.Transactions[1:] {
			for _, in := range tx.TxIn {
				if len(in.Witness) > 0 && len(in.Witness[0]) > 1 && !done {
					in.Witness[0][1] ^= 0x01
					done = true
				}
			}
		}
		if !done {
			b.Transactions[0].TxIn[0].Witness[0][0] ^= 0x01
		}
	}
	return b
}

// blockOK recomputes merkle root and witness commitment independently.
func blockOK(b *wire.MsgBlock, want chainhash.Hash) string {
	if b.BlockHash() != want {
		return fmt.Sprintf("block has hash %v, requested %v", b.BlockHash(), want)
	}
	if len(b.Transactions) == 0 {
		return "block has no transactions"
	}
	if r := kit.MerkleRoot(b.Transactions); r != b.Header.MerkleRoot {
		return "transaction list does not reproduce the header's merkle root"
	}
	seen := map[chainhash.Hash]bool{}
	for _, tx := range b.Transactions {
		h := tx.TxHash()
		if seen[h] {
			return "block contains a duplicated transaction"
		}
		seen[h] = true
	}
	cb := b.Transactions[0]
	var commit []byte
	for _, o := range cb.TxOut {
		if len(o.PkScript) >= 38 && bytes.Equal(o.PkScript[:6], []byte{0x6a, 0x24, 0xaa, 0x21, 0xa9, 0xed}) {
			commit = o.PkScript[6:38]
		}
	}
	hasWit := false
	for _, tx := range b.Transactions {
		if tx.HasWitness() {
			hasWit = true
		}
	}
	if commit == nil {
		if hasWit {
			return "witness data without a witness commitment"
		}
		return ""
	}
	if len(cb.TxIn[0].Witness) != 1 || len(cb.TxIn[0].Witness[0]) != 32 {
		return "coinbase witness nonce missing although a commitment is present"
	}
	root := kit.WitnessMerkleRoot(b.Transactions)
	var pre [64]byte
	copy(pre[:32], root[:])
	copy(pre[32:], cb.TxIn[0].Witness[0])
	if c := chainhash.DoubleHashH(pre[:]); !bytes.Equal(c[:], commit) {
		return "witness commitment does not match the witness data"
	}
	return ""
}

func runC06(t *testing.T, c Case) kit.Verdict {
	var v kit.Verdict
	w := kit.BuildWorld(c.World)
	tip := w.Br[0].Tip()
	path := tip.Path()
	cfg := netsim.Config{World: w, NumPeers: len(c.Edits), Prefill: c.World.Base}
	for i := range c.Edits {
		cfg.Initial = append(cfg.Initial, i)
	}
	var mu sync.Mutex
	reqCount := map[int]int{}
	sentInvalid := map[int]bool{}        // peer sent a block with the requested header that is invalid
	validSent := map[string]int{}        // "peer/hash" -> valid copies of that block sent so far
	attempts := map[chainhash.Hash]int{} // getdata requests seen for a block, over all peers
	sentValid := map[int]bool{}
	sentAnyInvalid := map[int]bool{} // peer sent some invalid block with a requested header
	invalidBeforeValid := false
	setup := func(s *netsim.Sim) {
		for i, p := range s.Peers {
			pi := i
			p.SetView(tip, false)
			p.Override = func(p *netsim.Peer, m wire.Message) bool {
				g, ok := m.(*wire.MsgGetData)
				if !ok {
					return false
				}
				for _, iv := range g.InvList {
					n := w.ByHash[iv.Hash]
					if n == nil || (iv.Type != wire.InvTypeWitnessBlock && iv.Type != wire.InvTypeBlock) {
						continue
					}
					mu.Lock()
					k := reqCount[pi]
					reqCount[pi]++
					mu.Unlock()
					lists := c.Edits[pi]
					if k >= len(lists) {
						k = len(lists) - 1
					}
					other := func(i int) *kit.Node {
						o := path[1+(i*5+2)%(len(path)-1)]
						if o == n {
							o = path[1+int(n.Height)%(len(path)-1)]
						}
						return o
					}
					stream := []wire.Message{n.Block}
					out, _, notes := applyEdits(stream, lists[k], func(i int, kind string) wire.Message {
						return corruptBlock(n, other(i), kind)
					}, func(kind string, i int) wire.Message {
						return corruptBlock(n, other(i), kind)
					})
					v.Logf("peer %d request %d getdata(block %d): %v -> %d messages", pi, k, n.Height, notes, len(out))
					mu.Lock()
					attempts[n.Hash]++
					mu.Unlock()
					// The client hands each received message to the
					// query in a goroutine of its own, so messages of
					// one response may be examined in any order and
					// the query ends with the first valid block. A ban
					// is therefore certain only if every block with the
					// requested header in this response is invalid.
					nValid, nInvalid := 0, 0
					for _, mm := range out {
						b := mm.(*wire.MsgBlock)
						if b.BlockHash() == n.Hash {
							if blockOK(b, n.Hash) == "" {
								nValid++
							} else {
								nInvalid++
							}
						}
					}
					// ... and only if the peer has not sent a valid
					// copy of this block before: a surplus copy from an
					// earlier response (duplicate) can complete this
					// request's query before the invalid answer is
					// looked at, which then goes unexamined.
					mu.Lock()
					vkey := fmt.Sprintf("%d/%v", pi, n.Hash)
					earlierValid := validSent[vkey]
					validSent[vkey] += nValid
					if nInvalid > 0 {
						sentAnyInvalid[pi] = true
						if nValid == 0 && earlierValid == 0 {
							sentInvalid[pi] = true
						}
						invalidBeforeValid = true
					}
					if nValid > 0 {
						sentValid[pi] = true
					}
					mu.Unlock()
					for _, mm := range out {
						p.Send(mm)
					}
				}
				return true
			}
		}
	}
	fail := func(sym, format string, a ...any) {
		v.Fail("C06/"+sym, format, a...)
		v.Logf("VIOLATION "+format, a...)
	}
	res := netsim.Run(t, cfg, setup, func(s *netsim.Sim) {
		type result struct {
			b   *btcutil.Block
			err error
		}
		for i := 0; i < len(c.Calls); {
			j := i
			for j < len(c.Calls)-1 && c.Calls[j].Join {
				j++
			}
			group := c.Calls[i : j+1]
			if f := group[0].Flap; f > 0 {
				fp := s.Peers[(f-1)%len(s.Peers)]
				was := fp.Connected()
				fp.Disconnect()
				if !s.Settle() || !s.Advance(12*time.Second) || !s.Settle() {
					return
				}
				if was && fp.Connected() {
					v.Class("flap:peer-reconnected-before-call")
				}
			}
			results := make([]*result, len(group))
			var wg sync.WaitGroup
			for gi, cl := range group {
				gi, cl := gi, cl
				wg.Add(1)
				go func() {
					defer wg.Done()
					b, err := s.CS.GetBlock(path[cl.Height].Hash, neutrino.NumRetries(3))
					results[gi] = &result{b, err}
				}()
			}
			done := make(chan struct{})
			go func() { wg.Wait(); close(done) }()
			finished := false
			for k := 0; k < 150 && !finished; k++ {
				if !s.Settle() {
					return
				}
				select {
				case <-done:
					finished = true
				default:
					if !s.Advance(4 * time.Second) {
						return
					}
				}
			}
			if !finished {
				if hasHonest(c) {
					fail("call-hangs", "GetBlock calls %v did not return within 1200 virtual seconds although a peer answers every request correctly", group)
				}
				v.Class("call:still-waiting-for-a-good-peer")
				return
			}
			s.Settle()
			for gi, cl := range group {
				r := results[gi]
				n := path[cl.Height]
				v.Logf("call GetBlock(height %d) -> err=%v", cl.Height, r.err)
				if r.err == nil {
					v.Class("call:ok")
					if r.b == nil {
						fail("nil-block", "GetBlock(%d) returned (nil, nil)", cl.Height)
						return
					}
					if e := blockOK(r.b.MsgBlock(), n.Hash); e != "" {
						fail("returned-invalid", "GetBlock(%d) returned a block that fails the checks: %s", cl.Height, e)
						return
					}
				} else {
					v.Class("call:error")
					if hasHonest(c) {
						v.Class("call:error-although-an-honest-peer-is-connected")
						v.Logf("  (an honest peer was connected: peers=%d)", len(c.Edits))
						// "the request is retried with other peers": with a
						// peer connected that answers every request correctly,
						// the call may only give up after its retry budget
						// (NumRetries(3): three requests on the wire).
						mu.Lock()
						na := attempts[n.Hash]
						mu.Unlock()
						if na < 3 {
							fail("gave-up-early", "GetBlock(%d) failed (%v) after only %d request(s) for the block although a peer that answers every request correctly is connected and the retry budget is 3", cl.Height, r.err, na)
							return
						}
					}
				}
			}
			// every cached block is valid
			okk := true
			s.CS.BlockCache.Range(func(k wire.InvVect, cb *neutrino.CacheableBlock) bool {
				if e := blockOK(cb.Block.MsgBlock(), k.Hash); e != "" {
					fail("cache-invalid", "block cache entry for %v: %s", k.Hash, e)
					okk = false
				}
				return okk
			})
			if !okk {
				return
			}
			// senders of invalid blocks carrying the requested header
			// are banned and gone; peers that only sent unrelated or
			// valid blocks are not banned
			mu.Lock()
			for pi := range c.Edits {
				addr := s.Peers[pi].Addr.String()
				if sentInvalid[pi] && !s.CS.IsBanned(addr) {
					mu.Unlock()
					fail("sender-not-banned", "peer %d sent a block with the requested header that fails the checks but is not banned", pi)
					return
				}
				if !sentAnyInvalid[pi] && s.CS.IsBanned(addr) {
					mu.Unlock()
					fail("innocent-banned", "peer %d never sent an invalid block with a requested header but is banned", pi)
					return
				}
			}
			mu.Unlock()
			for _, sp := range s.CS.Peers() {
				if s.CS.IsBanned(sp.Addr()) {
					fail("banned-but-connected", "peer %s is banned but still connected", sp.Addr())
					return
				}
			}
			i = j + 1
		}
	})
	if res.Harness != "" {
		v.Harness = res.Harness
	}
	mu.Lock()
	v.Nontrivial = invalidBeforeValid
	if len(sentInvalid) > 0 {
		v.Class("invalid-sent")
	}
	mu.Unlock()
	return v
}

func TestC06(t *testing.T) {
	kit.RunProp(t, kit.Prop[Case]{ID: "C06", Name: "netsim", Gen: genCase(false), Run: runC06})
}

func TestMain(m *testing.M) {
	code := m.Run()
	netsim.CleanupTemplates()
	os.Exit(code)
}
