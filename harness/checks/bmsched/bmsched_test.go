//go:build verif

// Package bmsched drives the block manager's chain update operations
// (writeCFHeadersMsg, rollBackToHeight, and the header write that follows a
// rollback in a reorganisation) directly on real header stores, with the
// harness owning the schedule: the operations run on their own goroutines and
// are parked at the named "sched:" yield points of the client (verif build
// tag), so that a generated case fixes which operation starts first, where it
// is held, and what the other one is allowed to do meanwhile.
//
// Three oracles look at the same scenarios:
//
//	C03  the filter-header store never runs ahead of the block-header store,
//	     every entry is the filter header of the block at that height on the
//	     current chain, none survives the disconnection of its block
//	C19  the events received on Notifications() replay to the committed chain
//	C08  (sequential scenarios only) every database commit inside an
//	     operation is a crash point: the image reopens, the filter chain is
//	     not ahead, a block manager can be built on it and continues
package bmsched

import (
	"encoding/binary"
	"fmt"
	"os"
	"strings"
	"sync"
	"testing"
	"time"

	"github.com/btcsuite/btcd/chainhash/v2"
	"github.com/btcsuite/btcd/wire/v2"
	"github.com/lightninglabs/neutrino"
	"github.com/lightninglabs/neutrino/blockntfns"
	"github.com/lightninglabs/neutrino/headerfs"
	"pgregory.net/rapid"

	"verifharness/checks/hdrstore"
	"verifharness/kit"
	"verifharness/netsim"
)

// ---- cases ----

// Step is one step of a scenario.
type Step struct {
	// Kind:
	//  extend    append N block headers to the tip
	//  cfwrite   write the next N filter headers (capped at the block tip)
	//  stale     a cfwrite of N headers prepared now, delivered after the
	//            following rollback (Depth, Ext) has completed
	//  rollback  roll the chain back by Depth blocks, then append Ext new ones
	//  race      rollback (Depth, Ext) and cfwrite (N) on two goroutines:
	//            First starts, runs until it reaches its Park point (Occ-th
	//            time), the other one starts and runs until it finishes,
	//            parks at Park2 or is blocked; then First is released, then
	//            the other one
	//  probe     NotificationsSinceHeight(filter tip - Back)
	Kind  string `json:"kind"`
	N     int    `json:"n,omitempty"`
	Depth int    `json:"depth,omitempty"`
	Ext   int    `json:"ext,omitempty"`
	First string `json:"first,omitempty"` // "rollback" | "cfwrite"
	Park  string `json:"park,omitempty"`
	Occ   int    `json:"occ,omitempty"`
	Park2 string `json:"park2,omitempty"`
	Back  int    `json:"back,omitempty"`
}

func (s Step) String() string {
	switch s.Kind {
	case "extend", "cfwrite":
		return fmt.Sprintf("%s(%d)", s.Kind, s.N)
	case "rollback":
		return fmt.Sprintf("rollback(depth=%d,ext=%d)", s.Depth, s.Ext)
	case "stale":
		return fmt.Sprintf("stale(cf=%d,depth=%d,ext=%d)", s.N, s.Depth, s.Ext)
	case "race":
		return fmt.Sprintf("race(first=%s park=%q#%d park2=%q cf=%d depth=%d ext=%d)", s.First, s.Park, s.Occ, s.Park2, s.N, s.Depth, s.Ext)
	case "probe":
		return fmt.Sprintf("probe(back=%d)", s.Back)
	}
	return s.Kind
}

type Case struct {
	Seed    uint64 `json:"seed"`
	Blocks  int    `json:"blocks"`  // initial block tip
	Filters int    `json:"filters"` // initial filter tip (<= Blocks)
	Steps   []Step `json:"steps"`
	NoRaces bool   `json:"no_races,omitempty"`
}

var rollbackPoints = []string{"", "sched:rollback:tips-read", "sched:rollback:between-stores", "sched:rollback:before-ntfn"}
var cfwritePoints = []string{"", "sched:cfwrite:tip-checked", "sched:cfwrite:before-write", "sched:cfwrite:written", "sched:cfwrite:before-ntfn"}

func genStep(races bool) *rapid.Generator[Step] {
	return rapid.Custom(func(t *rapid.T) Step {
		kinds := []string{"extend", "cfwrite", "cfwrite", "rollback", "stale", "probe"}
		if races {
			kinds = append(kinds, "race", "race", "race", "race", "race")
		}
		s := Step{Kind: kit.Pick(t, "kind", kinds)}
		switch s.Kind {
		case "extend":
			s.N = 1 + kit.Uni(t, "n", 6)
		case "cfwrite":
			s.N = 1 + kit.Uni(t, "n", 8)
		case "rollback":
			s.Depth = 1 + kit.Uni(t, "depth", 6)
			s.Ext = kit.Uni(t, "ext", 8)
		case "stale":
			s.N = 1 + kit.Uni(t, "n", 8)
			s.Depth = 1 + kit.Uni(t, "depth", 6)
			s.Ext = kit.Uni(t, "ext", 8)
		case "race":
			s.N = 1 + kit.Uni(t, "n", 8)
			s.Depth = 1 + kit.Uni(t, "depth", 6)
			s.Ext = kit.Uni(t, "ext", 8)
			s.First = kit.Pick(t, "first", []string{"rollback", "cfwrite"})
			// mostly a real overlap; "" = the first one runs to completion
			rb, cf := rollbackPoints, cfwritePoints
			if kit.Uni(t, "overlap", 8) > 0 {
				rb, cf = rb[1:], cf[1:]
			}
			if s.First == "rollback" {
				s.Park = kit.Pick(t, "park", rb)
				s.Park2 = kit.Pick(t, "park2", cfwritePoints)
			} else {
				s.Park = kit.Pick(t, "park", cf)
				s.Park2 = kit.Pick(t, "park2", rollbackPoints)
			}
			s.Occ = 1 + kit.Uni(t, "occ", 3)
		case "probe":
			s.Back = kit.Uni(t, "back", 7)
		}
		return s
	})
}

func genCase(races bool) func(t *rapid.T) Case {
	return func(t *rapid.T) Case {
		c := Case{Seed: uint64(1 + kit.Uni(t, "seed", 1073741824)), NoRaces: !races}
		c.Blocks = 1 + kit.Uni(t, "blocks", 14)
		c.Filters = kit.Uni(t, "filters", c.Blocks+1)
		max := 6
		if kit.Thorough() {
			max = 12
		}
		c.Steps = rapid.SliceOfN(genStep(races), 1, max).Draw(t, "steps")
		return c
	}
}

// ---- model ----

type model struct {
	seed   uint64
	ctr    uint32
	blocks []wire.BlockHeader // current chain, index = height
	gone   []wire.BlockHeader // every header ever rolled back
	fgen   chainhash.Hash     // filter header of genesis
}

func (m *model) tip() int { return len(m.blocks) - 1 }

func (m *model) newHeader(prev chainhash.Hash) wire.BlockHeader {
	m.ctr++
	var mr [16]byte
	binary.LittleEndian.PutUint64(mr[:], m.seed)
	binary.LittleEndian.PutUint32(mr[8:], m.ctr)
	return wire.BlockHeader{Version: 4, PrevBlock: prev, MerkleRoot: chainhash.HashH(mr[:]),
		Timestamp: time.Unix(kit.GenesisTime+int64(m.ctr)*60, 0), Bits: 0x207fffff, Nonce: m.ctr}
}

// filterHash is the (made up) filter hash of a block: a function of the block.
func filterHash(h chainhash.Hash) chainhash.Hash {
	return chainhash.HashH(append([]byte("filter of "), h[:]...))
}

// filterHeaders returns the filter headers along chain up to height n.
func filterHeaders(fgen chainhash.Hash, chain []wire.BlockHeader, n int) []chainhash.Hash {
	out := make([]chainhash.Hash, n+1)
	out[0] = fgen
	for h := 1; h <= n; h++ {
		fh := filterHash(chain[h].BlockHash())
		out[h] = chainhash.DoubleHashH(append(fh[:], out[h-1][:]...))
	}
	return out
}

// cfMsg builds the cfheaders message for heights from+1 .. from+n of chain.
func cfMsg(fgen chainhash.Hash, chain []wire.BlockHeader, from, n int) *wire.MsgCFHeaders {
	fhs := filterHeaders(fgen, chain, from)
	msg := wire.NewMsgCFHeaders()
	msg.FilterType = wire.GCSFilterRegular
	msg.PrevFilterHeader = fhs[from]
	msg.StopHash = chain[from+n].BlockHash()
	for h := from + 1; h <= from+n; h++ {
		fh := filterHash(chain[h].BlockHash())
		_ = msg.AddCFHash(&fh)
	}
	return msg
}

// ---- schedule control ----

type parkSpec struct {
	point    string
	occ      int
	seen     int
	released bool
	parked   chan struct{}
	release  chan struct{}
}

func newPark(point string, occ int) *parkSpec {
	if occ < 1 {
		occ = 1
	}
	return &parkSpec{point: point, occ: occ, parked: make(chan struct{}), release: make(chan struct{})}
}

type control struct {
	mu     sync.Mutex
	specs  map[string]*parkSpec // role -> spec
	onStep func(point string)   // called at every point (sequential scenarios)
}

func roleOf(point string) string {
	switch {
	case strings.HasPrefix(point, "sched:rollback:"):
		return "rollback"
	case strings.HasPrefix(point, "sched:cfwrite:"):
		return "cfwrite"
	}
	return ""
}

func (c *control) yield(point string) {
	role := roleOf(point)
	if role == "" {
		return
	}
	c.mu.Lock()
	sp := c.specs[role]
	var wait chan struct{}
	if sp != nil && !sp.released && sp.point == point {
		sp.seen++
		if sp.seen == sp.occ {
			close(sp.parked)
			wait = sp.release
		}
	}
	f := c.onStep
	c.mu.Unlock()
	if f != nil {
		f(point)
	}
	if wait != nil {
		<-wait
	}
}

func (c *control) releaseRole(role string) {
	c.mu.Lock()
	sp := c.specs[role]
	if sp != nil && !sp.released {
		sp.released = true
		close(sp.release)
	}
	c.mu.Unlock()
}

// blockedWait is how long the second operation of a race is given to finish
// or reach its park point before it is taken to be blocked by the first one.
// It only selects which schedule is explored; no verdict depends on it.
const blockedWait = 4 * time.Millisecond

const watchdog = 20 * time.Second

// ---- runner ----

type event struct {
	connected bool
	height    uint32
	hdr       wire.BlockHeader
	tip       wire.BlockHeader
}

type runner struct {
	v    *kit.Verdict
	e    *hdrstore.Env
	bm   *neutrino.VerifBlockManager
	m    *model
	ftip int // filter tip the model expects
	ctl  *control

	evMu   sync.Mutex
	events []event
	syncCh chan chan struct{}
	stopCh chan struct{}
	done   chan struct{}

	old  []wire.BlockHeader // chain before the rollback of the current step
	view []wire.BlockHeader // subscriber's chain replayed from the events
	seen int                // events already replayed

	overlaps int
	images   []*crashImage
	snapping bool
}

type crashImage struct {
	im    *hdrstore.Image
	step  string
	chain []wire.BlockHeader // longest chain that may be present (pre-step chain or post-step chain)
	alt   []wire.BlockHeader
}

func (r *runner) consume() {
	defer close(r.done)
	ch := r.bm.Notifications()
	for {
		select {
		case n := <-ch:
			ev := event{height: n.Height(), hdr: n.Header(), tip: n.ChainTip()}
			_, ev.connected = n.(*blockntfns.Connected)
			r.evMu.Lock()
			r.events = append(r.events, ev)
			r.evMu.Unlock()
		case c := <-r.syncCh:
			close(c)
		case <-r.stopCh:
			return
		}
	}
}

// barrier returns once every event handed over so far has been recorded.
func (r *runner) barrier() {
	c := make(chan struct{})
	select {
	case r.syncCh <- c:
		<-c
	case <-r.done:
	}
}

func newRunner(c Case, v *kit.Verdict) (*runner, error) {
	e, err := hdrstore.NewEnv()
	if err != nil {
		return nil, err
	}
	m := &model{seed: c.Seed, fgen: e.Params.Genesis.FHdr}
	m.blocks = []wire.BlockHeader{e.Params.Genesis.Header}
	r := &runner{v: v, e: e, m: m, ctl: &control{specs: map[string]*parkSpec{}},
		syncCh: make(chan chan struct{}), stopCh: make(chan struct{}), done: make(chan struct{})}
	// Initial content is written straight into the stores.
	if err := r.writeBlocks(r.newBlocks(c.Blocks)); err != nil {
		e.Destroy()
		return nil, fmt.Errorf("initial block headers: %v", err)
	}
	if c.Filters > 0 {
		fhs := filterHeaders(m.fgen, m.blocks, c.Filters)
		batch := make([]headerfs.FilterHeader, 0, c.Filters)
		for h := 1; h <= c.Filters; h++ {
			fh := headerfs.FilterHeader{FilterHash: fhs[h]}
			if h == c.Filters {
				fh.HeaderHash = m.blocks[h].BlockHash()
				fh.Height = uint32(h)
			}
			batch = append(batch, fh)
		}
		if err := e.FS.WriteHeaders(batch...); err != nil {
			e.Destroy()
			return nil, fmt.Errorf("initial filter headers: %v", err)
		}
	}
	r.ftip = c.Filters
	params := e.Params.Params
	bm, err := neutrino.NewVerifBlockManager(params, e.BS, e.FS)
	if err != nil {
		e.Destroy()
		return nil, fmt.Errorf("NewVerifBlockManager: %v", err)
	}
	r.bm = bm
	r.view = append([]wire.BlockHeader{}, m.blocks[:c.Filters+1]...)
	go r.consume()
	return r, nil
}

func (r *runner) close() {
	r.bm.Quit()
	close(r.stopCh)
	<-r.done
	r.e.Destroy()
}

// newBlocks creates n headers extending the model's tip (model not changed).
func (r *runner) newBlocks(n int) []wire.BlockHeader {
	prev := r.m.blocks[r.m.tip()].BlockHash()
	out := make([]wire.BlockHeader, 0, n)
	for i := 0; i < n; i++ {
		h := r.m.newHeader(prev)
		out = append(out, h)
		prev = h.BlockHash()
	}
	return out
}

// writeBlocks appends hdrs to the block-header store and the model.
func (r *runner) writeBlocks(hdrs []wire.BlockHeader) error {
	if len(hdrs) == 0 {
		return nil
	}
	batch := make([]headerfs.BlockHeader, len(hdrs))
	for i := range hdrs {
		h := hdrs[i]
		batch[i] = headerfs.BlockHeader{BlockHeader: &h, Height: uint32(len(r.m.blocks) + i)}
	}
	if err := r.e.BS.WriteHeaders(batch...); err != nil {
		return err
	}
	r.m.blocks = append(r.m.blocks, hdrs...)
	return nil
}

// rollbackOp is what the block handler does for a reorganisation: roll back,
// then write the first headers of the new branch.
func (r *runner) rollbackOp(to int, ext []wire.BlockHeader) error {
	if err := r.bm.RollBackToHeight(uint32(to)); err != nil {
		return fmt.Errorf("rollBackToHeight(%d): %w", to, err)
	}
	if len(ext) == 0 {
		return nil
	}
	batch := make([]headerfs.BlockHeader, len(ext))
	for i := range ext {
		h := ext[i]
		batch[i] = headerfs.BlockHeader{BlockHeader: &h, Height: uint32(to + 1 + i)}
	}
	if err := r.e.BS.WriteHeaders(batch...); err != nil {
		return fmt.Errorf("WriteHeaders after rollback: %w", err)
	}
	return nil
}

type opResult struct {
	err    error
	height uint32
	hdr    *chainhash.Hash
}

func waitCh(ch <-chan struct{}, d time.Duration) bool {
	select {
	case <-ch:
		return true
	case <-time.After(d):
		return false
	}
}

// checkStores is the C03 oracle (also the base of the others): it reads both
// stores and compares them with the model chain and the expected filter tip.
func (r *runner) checkStores(where string) bool {
	v := r.v
	m := r.m
	bt, bh, err := r.e.BS.ChainTip()
	if err != nil {
		v.Fail("C03/bm/block-store-unreadable", "%s: block ChainTip fails: %v", where, err)
		return false
	}
	if int(bh) != m.tip() || bt.BlockHash() != m.blocks[m.tip()].BlockHash() {
		v.Fail("C03/bm/block-chain", "%s: block tip is (%d,%v), expected (%d,%v)", where, bh, bt.BlockHash(), m.tip(), m.blocks[m.tip()].BlockHash())
		return false
	}
	ft, fh, err := r.e.FS.ChainTip()
	if err != nil {
		v.Fail("C03/bm/filter-store-unreadable", "%s: filter ChainTip fails: %v (block tip %d)", where, err, bh)
		return false
	}
	if fh > bh {
		v.Fail("C03/bm/filter-ahead", "%s: filter tip %d is ahead of block tip %d", where, fh, bh)
		return false
	}
	want := filterHeaders(m.fgen, m.blocks, int(fh))
	if *ft != want[fh] {
		v.Fail("C03/bm/filter-foreign", "%s: filter tip value at height %d is not the filter header of the block at that height on the current chain", where, fh)
		return false
	}
	for h := uint32(0); h <= fh; h++ {
		got, err := r.e.FS.FetchHeaderByHeight(h)
		if err != nil {
			v.Fail("C03/bm/filter-store-unreadable", "%s: filter FetchHeaderByHeight(%d) fails below the tip %d: %v", where, h, fh, err)
			return false
		}
		if *got != want[h] {
			v.Fail("C03/bm/filter-foreign", "%s: filter header at height %d does not belong to the block at that height on the current chain (tip %d)", where, h, fh)
			return false
		}
		bhash := m.blocks[h].BlockHash()
		g2, err := r.e.FS.FetchHeader(&bhash)
		if err != nil || *g2 != want[h] {
			v.Fail("C03/bm/filter-by-hash", "%s: filter FetchHeader(block@%d) = %v, %v", where, h, g2, err)
			return false
		}
	}
	on := map[chainhash.Hash]bool{}
	for _, b := range m.blocks {
		on[b.BlockHash()] = true
	}
	for _, g := range m.gone {
		gh := g.BlockHash()
		if on[gh] {
			continue
		}
		if x, err := r.e.FS.FetchHeader(&gh); err == nil {
			v.Fail("C03/bm/filter-survives", "%s: the filter header %v of disconnected block %v is still served", where, x, gh)
			return false
		}
	}
	if int(fh) != r.ftip {
		v.Fail("C03/bm/filter-tip", "%s: filter tip is %d, expected %d", where, fh, r.ftip)
		return false
	}
	mh, mhash := r.bm.FilterTip()
	if mh != fh || mhash != m.blocks[fh].BlockHash() {
		v.Fail("C19/bm/memory-tip", "%s: in-memory filter tip is (%d,%v), store has (%d,%v)", where, mh, mhash, fh, m.blocks[fh].BlockHash())
		return false
	}
	return true
}

// replayEvents is the C19 oracle: the subscriber's chain rebuilt from the
// events must equal the committed chain (blocks up to the filter tip).
func (r *runner) replayEvents(where string, old []wire.BlockHeader) bool {
	v := r.v
	r.barrier()
	r.evMu.Lock()
	evs := append([]event{}, r.events[r.seen:]...)
	r.seen = len(r.events)
	r.evMu.Unlock()
	lastDisc := -1
	for i, ev := range evs {
		top := len(r.view) - 1
		if ev.connected {
			lastDisc = -1
			if int(ev.height) != top+1 {
				v.Fail("C19/bm/connected-order", "%s: event %d connected(%d) while the subscriber's tip is %d", where, i, ev.height, top)
				return false
			}
			if ev.hdr.PrevBlock != r.view[top].BlockHash() {
				v.Fail("C19/bm/connected-parent", "%s: event %d connected(%d) does not build on the subscriber's tip", where, i, ev.height)
				return false
			}
			r.view = append(r.view, ev.hdr)
			continue
		}
		// disconnected
		if lastDisc >= 0 && int(ev.height) != lastDisc-1 {
			v.Fail("C19/bm/disconnected-order", "%s: event %d disconnected(%d) follows disconnected(%d)", where, i, ev.height, lastDisc)
			return false
		}
		lastDisc = int(ev.height)
		if int(ev.height) >= len(old) || old[ev.height].BlockHash() != ev.hdr.BlockHash() {
			v.Fail("C19/bm/disconnected-header", "%s: event %d disconnected(%d) carries a header that was not at that height", where, i, ev.height)
			return false
		}
		if ev.height == 0 || ev.tip.BlockHash() != old[ev.height-1].BlockHash() {
			v.Fail("C19/bm/disconnected-tip", "%s: event %d disconnected(%d) does not carry the header below it as new tip", where, i, ev.height)
			return false
		}
		if int(ev.height) > top {
			// a block whose filter header was never committed (or
			// never announced): nothing to undo
			continue
		}
		if int(ev.height) < top {
			v.Fail("C19/bm/disconnected-skips", "%s: event %d disconnected(%d) while the subscriber's tip is %d", where, i, ev.height, top)
			return false
		}
		if r.view[top].BlockHash() != ev.hdr.BlockHash() {
			v.Fail("C19/bm/disconnected-foreign", "%s: event %d disconnected(%d) names a block the subscriber does not hold", where, i, ev.height)
			return false
		}
		r.view = r.view[:top]
	}
	if len(r.view)-1 != r.ftip {
		v.Fail("C19/bm/view-differs", "%s: after replaying the events the subscriber's tip is %d, the committed filter tip is %d", where, len(r.view)-1, r.ftip)
		return false
	}
	for h := range r.view {
		if r.view[h].BlockHash() != r.m.blocks[h].BlockHash() {
			v.Fail("C19/bm/view-differs", "%s: after replaying the events the subscriber holds a different block at height %d than the committed chain", where, h)
			return false
		}
	}
	return true
}

// applyRollbackModel updates the model for a completed rollback+extend.
func (r *runner) applyRollbackModel(to int, ext []wire.BlockHeader) {
	r.m.gone = append(r.m.gone, r.m.blocks[to+1:]...)
	r.m.blocks = append(append([]wire.BlockHeader{}, r.m.blocks[:to+1]...), ext...)
}

// step runs one step and applies the oracle of prop ("C03": the stores,
// "C19": the events and the in-memory tip, "C08": neither; a disagreement seen
// by the other property's oracle only ends the history, the check of that
// property runs the same scenarios and reports it).
func (r *runner) step(i int, s Step, prop string) bool {
	where := fmt.Sprintf("step %d %s", i, s)
	r.old = append([]wire.BlockHeader{}, r.m.blocks...)
	foreign := func() bool {
		if r.v.Violation != "" && !strings.HasPrefix(r.v.Sig, prop+"/") {
			r.v.Logf("history ends: %s", r.v.Violation)
			r.v.Violation, r.v.Sig = "", ""
			return true
		}
		return false
	}
	if !r.doStep(where, s) {
		foreign()
		return false
	}
	storesOK := r.checkStores(where)
	if !storesOK && !foreign() {
		return false
	}
	if prop == "C19" && !r.replayEvents(where, r.old) {
		return false
	}
	return storesOK
}

// doStep performs the operations of one step and updates the model.
func (r *runner) doStep(where string, s Step) bool {
	v := r.v
	m := r.m
	switch s.Kind {
	case "extend":
		if err := r.writeBlocks(r.newBlocks(s.N)); err != nil {
			v.Harness = "extend: " + err.Error()
			return false
		}
	case "cfwrite":
		n := s.N
		if n > m.tip()-r.ftip {
			n = m.tip() - r.ftip
		}
		if n == 0 {
			v.Class("cfwrite:nothing-to-write")
			break
		}
		msg := cfMsg(m.fgen, m.blocks, r.ftip, n)
		hdr, h, err := r.bm.WriteCFHeaders(msg)
		if err != nil {
			v.Fail("C03/bm/cfwrite-refused", "%s: a filter-header batch continuing the tip is refused: %v", where, err)
			return false
		}
		want := filterHeaders(m.fgen, m.blocks, r.ftip+n)
		if int(h) != r.ftip+n || *hdr != want[r.ftip+n] {
			v.Fail("C03/bm/cfwrite-result", "%s: writeCFHeadersMsg returned (%v,%d), expected (%v,%d)", where, hdr, h, want[r.ftip+n], r.ftip+n)
			return false
		}
		r.ftip += n
		v.Class("cfwrite")
	case "rollback", "stale":
		d := s.Depth
		if d > m.tip() {
			d = m.tip()
		}
		var msg *wire.MsgCFHeaders
		n := s.N
		if s.Kind == "stale" {
			if n > m.tip()-r.ftip {
				n = m.tip() - r.ftip
			}
			if n > 0 {
				msg = cfMsg(m.fgen, m.blocks, r.ftip, n)
			}
		}
		if d == 0 {
			v.Class("rollback:at-genesis")
			break
		}
		to := m.tip() - d
		ext := r.branch(to, s.Ext)
		if err := r.rollbackOp(to, ext); err != nil {
			v.Fail("C03/bm/rollback-fails", "%s: %v", where, err)
			return false
		}
		r.applyRollbackModel(to, ext)
		preF := r.ftip
		if r.ftip > to {
			r.ftip = to
		}
		v.Class("rollback")
		if msg != nil {
			_, _, err := r.bm.WriteCFHeaders(msg)
			stopH := preF + n
			if stopH <= to {
				// the batch is still about our chain
				if err != nil {
					v.Fail("C03/bm/cfwrite-refused", "%s: a filter-header batch for blocks below the rollback point is refused: %v", where, err)
					return false
				}
				r.ftip = stopH
				v.Class("stale:still-valid")
			} else if err == nil {
				v.Fail("C03/bm/stale-accepted", "%s: a filter-header batch ending at disconnected block %d (rolled back to %d) was accepted", where, stopH, to)
				return false
			} else {
				v.Class("stale:refused")
			}
		}
	case "race":
		if !r.race(where, s) {
			return false
		}
	case "probe":
		h := r.ftip - s.Back
		if h < 1 {
			h = 1
		}
		if h > r.ftip {
			break
		}
		ntfns, best, err := r.bm.NotificationsSinceHeight(uint32(h))
		if err != nil {
			v.Fail("C19/bm/backlog-error", "%s: NotificationsSinceHeight(%d) fails with filter tip %d: %v", where, h, r.ftip, err)
			return false
		}
		if int(best) != r.ftip || len(ntfns) != r.ftip-h {
			v.Fail("C19/bm/backlog-range", "%s: NotificationsSinceHeight(%d) = %d events up to %d, committed filter tip is %d", where, h, len(ntfns), best, r.ftip)
			return false
		}
		for k, n := range ntfns {
			nh := n.Header()
			if _, ok := n.(*blockntfns.Connected); !ok || int(n.Height()) != h+1+k || nh.BlockHash() != m.blocks[h+1+k].BlockHash() {
				v.Fail("C19/bm/backlog-content", "%s: backlog entry %d is not connected(%d) of the committed chain", where, k, h+1+k)
				return false
			}
		}
		v.Class("probe")
	}
	return true
}

// branch creates n headers on top of height `to` of the current chain.
func (r *runner) branch(to, n int) []wire.BlockHeader {
	prev := r.m.blocks[to].BlockHash()
	out := make([]wire.BlockHeader, 0, n)
	for i := 0; i < n; i++ {
		h := r.m.newHeader(prev)
		out = append(out, h)
		prev = h.BlockHash()
	}
	return out
}

func (r *runner) race(where string, s Step) bool {
	v := r.v
	m := r.m
	d := s.Depth
	if d > m.tip() {
		d = m.tip()
	}
	n := s.N
	if n > m.tip()-r.ftip {
		n = m.tip() - r.ftip
	}
	if n == 0 {
		// nothing above the filter tip: the block chain grows first
		if err := r.writeBlocks(r.newBlocks(s.N)); err != nil {
			v.Harness = "extend before race: " + err.Error()
			return false
		}
		n = s.N
		if d == 0 {
			d = 1
		}
		r.old = append([]wire.BlockHeader{}, m.blocks...)
	}
	if d == 0 || n == 0 {
		v.Class("race:degenerate")
		return true
	}
	if s.Occ > d {
		s.Occ = d
	}
	to := m.tip() - d
	ext := r.branch(to, s.Ext)
	msg := cfMsg(m.fgen, m.blocks, r.ftip, n)
	stopH := r.ftip + n

	specs := map[string]*parkSpec{}
	second := "cfwrite"
	if s.First == "cfwrite" {
		second = "rollback"
	}
	occ := s.Occ
	if s.First == "cfwrite" || s.Park == "sched:rollback:tips-read" {
		occ = 1 // reached once per operation
	}
	specs[s.First] = newPark(s.Park, occ)
	specs[second] = newPark(s.Park2, 1)
	r.ctl.mu.Lock()
	r.ctl.specs = specs
	r.ctl.mu.Unlock()
	defer func() {
		r.ctl.mu.Lock()
		r.ctl.specs = map[string]*parkSpec{}
		r.ctl.mu.Unlock()
	}()

	var rbErr error
	var cf opResult
	doneOf := map[string]chan struct{}{"rollback": make(chan struct{}), "cfwrite": make(chan struct{})}
	start := func(role string) {
		go func() {
			defer close(doneOf[role])
			if role == "rollback" {
				rbErr = r.rollbackOp(to, ext)
				return
			}
			cf.hdr, cf.height, cf.err = r.bm.WriteCFHeaders(msg)
		}()
	}
	// A reader runs next to the two operations, as the subscription
	// manager does when a client subscribes (it matters to the race
	// detector; its answers are only checked for errors that cannot be
	// explained by the rollback in progress).
	probeStop := make(chan struct{})
	probeDone := make(chan struct{})
	go func() {
		defer close(probeDone)
		for {
			select {
			case <-probeStop:
				return
			default:
			}
			r.bm.FilterTip()
			_, _, _ = r.bm.NotificationsSinceHeight(1)
			time.Sleep(50 * time.Microsecond)
		}
	}()
	defer func() {
		close(probeStop)
		<-probeDone
	}()

	start(s.First)
	select {
	case <-specs[s.First].parked:
	case <-doneOf[s.First]:
	case <-time.After(watchdog):
		v.Harness = where + ": first operation neither parked nor finished"
		return false
	}
	firstParked := false
	select {
	case <-doneOf[s.First]:
	default:
		firstParked = true
	}
	start(second)
	overlap := "blocked"
	select {
	case <-doneOf[second]:
		overlap = "ran-to-completion"
	case <-specs[second].parked:
		overlap = "parked"
	case <-time.After(blockedWait):
	}
	r.ctl.releaseRole(s.First)
	if !waitCh(doneOf[s.First], watchdog) {
		v.Harness = where + ": first operation does not finish after its release (second " + overlap + ")"
		return false
	}
	r.ctl.releaseRole(second)
	if !waitCh(doneOf[second], watchdog) {
		v.Harness = where + ": second operation does not finish"
		return false
	}
	if firstParked {
		r.overlaps++
		v.Class("race:first=%s@%s second:%s", s.First, strings.TrimPrefix(s.Park, "sched:"), overlap)
	} else {
		v.Class("race:sequential first=%s", s.First)
	}
	if rbErr != nil {
		v.Fail("C03/bm/rollback-fails", "%s: %v", where, rbErr)
		return false
	}
	preF := r.ftip
	r.applyRollbackModel(to, ext)
	// Outcome: the batch either took effect as a whole or not at all.
	if cf.err == nil {
		r.ftip = stopH
		v.Class("race:cfwrite-accepted")
	} else {
		r.ftip = preF
		v.Class("race:cfwrite-refused")
		if stopH <= to && preF <= to {
			v.Count("refused_though_valid", 1)
		}
	}
	if r.ftip > to {
		r.ftip = to
	}
	return true
}

// ---- C03 / C19 ----

func run(t *testing.T, c Case, prop string) (v kit.Verdict) {
	r, err := newRunner(c, &v)
	if err != nil {
		v.Harness = err.Error()
		return
	}
	defer r.close()
	prev := neutrino.VerifYield
	neutrino.VerifYield = r.ctl.yield
	defer func() { neutrino.VerifYield = prev }()
	v.Logf("start: block tip %d, filter tip %d", c.Blocks, c.Filters)
	for i, s := range c.Steps {
		ok := r.step(i, s, prop)
		if v.Harness != "" {
			return
		}
		if !ok {
			if v.Violation != "" {
				v.Logf("VIOLATION %s", v.Violation)
			}
			break
		}
		v.Logf("step %d %-70s -> block tip %d filter tip %d", i, s, r.m.tip(), r.ftip)
	}
	v.Count("overlapping_races", r.overlaps)
	v.Nontrivial = r.overlaps > 0
	return
}

func TestC03BM(t *testing.T) {
	kit.RunProp(t, kit.Prop[Case]{ID: "C03", Name: "bm-sched", Gen: genCase(true),
		Run: func(t *testing.T, c Case) kit.Verdict { return run(t, c, "C03") }})
}

func TestC19BM(t *testing.T) {
	kit.RunProp(t, kit.Prop[Case]{ID: "C19", Name: "bm-sched", Gen: genCase(true),
		Run: func(t *testing.T, c Case) kit.Verdict { return run(t, c, "C19") }})
}

// ---- C08: crash images inside block manager operations ----

func runC08(t *testing.T, c Case) (v kit.Verdict) {
	r, err := newRunner(c, &v)
	if err != nil {
		v.Harness = err.Error()
		return
	}
	defer r.close()
	prev := neutrino.VerifYield
	neutrino.VerifYield = r.ctl.yield
	defer func() { neutrino.VerifYield = prev }()

	var cur string
	var pre []wire.BlockHeader
	var preF int
	var hookErr error
	snap := func(label string) {
		im, err := r.e.Snapshot(label)
		if err != nil {
			hookErr = err
			return
		}
		r.images = append(r.images, &crashImage{im: im, step: cur, chain: pre})
	}
	r.e.DB.SetHook(func(k int64, phase string) { snap(fmt.Sprintf("%s: commit %d %s", cur, k, phase)) })
	r.ctl.onStep = func(point string) { snap(fmt.Sprintf("%s: at %s", cur, point)) }
	_ = preF
	for i, s := range c.Steps {
		cur = fmt.Sprintf("step %d %s", i, s)
		pre = append([]wire.BlockHeader{}, r.m.blocks...)
		first := len(r.images)
		ok := r.step(i, s, "C08")
		if v.Harness != "" {
			return
		}
		if hookErr != nil {
			v.Harness = "snapshot: " + hookErr.Error()
			return
		}
		for _, ci := range r.images[first:] {
			ci.alt = append([]wire.BlockHeader{}, r.m.blocks...)
		}
		if !ok {
			// the sequential semantics are C03's business
			v.Violation, v.Sig = "", ""
			v.Logf("step %d %s failed, history ends", i, s)
			break
		}
		v.Logf("step %d %-50s -> block tip %d filter tip %d (crash images so far %d)", i, s, r.m.tip(), r.ftip, len(r.images))
	}
	r.e.DB.SetHook(nil)
	r.ctl.onStep = nil
	limit := 60
	if kit.Thorough() {
		limit = 200
	}
	checked := 0
	for k, ci := range r.images {
		if checked >= limit {
			break
		}
		// keep the images spread over the history
		if len(r.images) > limit && k%((len(r.images)+limit-1)/limit) != 0 {
			continue
		}
		checked++
		if d := checkImage(ci, r.m.fgen, r.e.Params); d != "" {
			sym := d
			if j := strings.IndexByte(sym, ':'); j > 0 {
				sym = sym[:j]
			}
			kind := ci.step
			if j := strings.IndexByte(kind, '('); j > 0 {
				kind = kind[:j]
			}
			if j := strings.LastIndexByte(kind, ' '); j > 0 {
				kind = kind[j+1:]
			}
			v.Fail("C08/bm/"+kind+"/"+sym, "crash at [%s]: %s", ci.im.Label, d)
			v.Logf("VIOLATION at [%s]: %s", ci.im.Label, d)
			break
		}
	}
	v.Count("crash_images", checked)
	v.Nontrivial = checked > 2
	return
}

// checkImage restarts on the image: both stores open, the block chain is a
// state the operation passed through, the filter chain is not ahead and
// belongs to that block chain, a block manager can be built and goes on.
func checkImage(ci *crashImage, fgen chainhash.Hash, w *kit.World) string {
	dir, err := ci.im.Materialise()
	if err != nil {
		return "harness: " + err.Error()
	}
	defer os.RemoveAll(dir)
	e := &hdrstore.Env{Dir: dir, Params: w}
	if err := e.Open(); err != nil {
		return "open-fails: stores do not open after the crash: " + err.Error()
	}
	defer e.Close()
	_, bh, err := e.BS.ChainTip()
	if err != nil {
		return "block-tip: " + err.Error()
	}
	chain := make([]wire.BlockHeader, bh+1)
	for h := uint32(0); h <= bh; h++ {
		x, err := e.BS.FetchHeaderByHeight(h)
		if err != nil {
			return fmt.Sprintf("block-read: FetchHeaderByHeight(%d) with tip %d: %v", h, bh, err)
		}
		chain[h] = *x
		xh := x.BlockHash()
		if hh, err := e.BS.HeightFromHash(&xh); err != nil || hh != h {
			return fmt.Sprintf("block-index: block at height %d is indexed at %d (%v)", h, hh, err)
		}
	}
	// The chain must be a prefix of the chain before the step or of the
	// chain after it.
	isPrefix := func(of []wire.BlockHeader) bool {
		if len(chain) > len(of) {
			return false
		}
		for h := range chain {
			if chain[h].BlockHash() != of[h].BlockHash() {
				return false
			}
		}
		return true
	}
	if !isPrefix(ci.chain) && !isPrefix(ci.alt) {
		return fmt.Sprintf("wrong-content: the block chain (tip %d) is neither part of the chain before the interrupted step nor of the one after it", bh)
	}
	ft, fh, err := e.FS.ChainTip()
	if err != nil {
		return "filter-tip: filter ChainTip fails after the crash: " + err.Error()
	}
	if fh > bh {
		return fmt.Sprintf("filter-ahead: filter tip %d is ahead of block tip %d", fh, bh)
	}
	want := filterHeaders(fgen, chain, int(fh))
	if *ft != want[fh] {
		return fmt.Sprintf("filter-foreign: filter tip value at %d does not belong to the block chain", fh)
	}
	for h := uint32(0); h <= fh; h++ {
		x, err := e.FS.FetchHeaderByHeight(h)
		if err != nil {
			return fmt.Sprintf("filter-read: FetchHeaderByHeight(%d) with tip %d: %v", h, fh, err)
		}
		if *x != want[h] {
			return fmt.Sprintf("filter-foreign: filter header at %d does not belong to the block chain", h)
		}
	}
	params := e.Params.Params
	bm, err := neutrino.NewVerifBlockManager(params, e.BS, e.FS)
	if err != nil {
		return "restart-fails: a block manager cannot be created on the crashed stores: " + err.Error()
	}
	defer bm.Quit()
	stop := make(chan struct{})
	defer close(stop)
	go func() {
		for {
			select {
			case <-bm.Notifications():
			case <-stop:
				return
			}
		}
	}()
	// Syncing resumes: the missing filter headers can be written, and the
	// chain can be reorganised.
	if fh < bh {
		n := int(bh - fh)
		if n > 3 {
			n = 3
		}
		if _, h, err := bm.WriteCFHeaders(cfMsg(fgen, chain, int(fh), n)); err != nil || h != fh+uint32(n) {
			return fmt.Sprintf("resume-fails: writing the next %d filter headers after restart: height %d, %v", n, h, err)
		}
		fh += uint32(n)
	}
	if bh > 0 {
		if err := bm.RollBackToHeight(bh - 1); err != nil {
			return "resume-fails: rolling back one block after restart: " + err.Error()
		}
		_, nbh, err := e.BS.ChainTip()
		_, nfh, err2 := e.FS.ChainTip()
		if err != nil || err2 != nil || nbh != bh-1 || nfh > nbh {
			return fmt.Sprintf("resume-corrupt: after rolling back one block: block tip %d (%v), filter tip %d (%v)", nbh, err, nfh, err2)
		}
	}
	return ""
}

func TestC08BM(t *testing.T) {
	kit.RunProp(t, kit.Prop[Case]{ID: "C08", Name: "bm-crash", Gen: genCase(false), Run: runC08})
}

func TestMain(m *testing.M) {
	code := m.Run()
	netsim.CleanupTemplates()
	os.Exit(code)
}
