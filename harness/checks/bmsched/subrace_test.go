package bmsched

// Unit "sub-stress" of C19: subscribers arriving while the chain is being
// reorganised, at full speed.
//
// The network-simulation units subscribe at quiescent points, in the middle of
// a batch being announced and - a few dozen times per thousand cases - in the
// middle of a rollback. A backlog that is put together in more than one step
// (read here, registered there) is only wrong if a rollback step falls exactly
// between the steps, a window of microseconds; no yield point of the client
// lies inside it. This unit therefore goes for numbers: the real block manager
// (chain update operations on real stores, through the verif-tagged export)
// under the real subscription manager; one goroutine reorganises the top of
// the chain without pause (roll back 1-5 blocks, write the headers of a longer
// branch, commit its filter headers), while 2-4 goroutines subscribe again and
// again for the backlog above a height that lies below every fork point.
//
// Oracle, per subscription (C19: "replaying backlog and later events always
// reproduces the client's committed chain"): the subscriber starts from the
// chain up to its height (never reorganised in this unit); every connected
// event must be the child of its tip or a block it holds, every disconnected
// event must name its tip or lie above it. A subscriber that is still there
// when the driver has finished and the events have drained must hold exactly
// the committed chain up to the filter tip.

import (
	"fmt"
	"runtime"
	"sync"
	"sync/atomic"
	"testing"
	"time"

	"github.com/btcsuite/btcd/chainhash/v2"
	"github.com/btcsuite/btcd/wire/v2"
	"github.com/lightninglabs/neutrino"
	"github.com/lightninglabs/neutrino/blockntfns"
	"pgregory.net/rapid"

	"verifharness/kit"
)

type SubCase struct {
	Seed   uint64 `json:"seed"`
	Blocks int    `json:"blocks"`
	// Rounds of the driver; Depths[i%len] is the depth of round i.
	Rounds int   `json:"rounds"`
	Depths []int `json:"depths"`
	// Subscribers: goroutines that subscribe over and over; Backs[j] is how
	// far below the safe height subscriber j asks.
	Backs []int `json:"backs"`
	// Stretch: processor yields at the named points inside the rollback.
	Stretch int `json:"stretch"`
}

func genSubCase(t *rapid.T) SubCase {
	c := SubCase{Seed: rapid.Uint64Range(0, 1000).Draw(t, "seed"), Blocks: rapid.IntRange(20, 40).Draw(t, "blocks")}
	c.Rounds = kit.Pick(t, "rounds", []int{30, 60, 120})
	c.Depths = rapid.SliceOfN(rapid.IntRange(1, 5), 1, 6).Draw(t, "depths")
	c.Backs = rapid.SliceOfN(rapid.IntRange(0, 6), 2, 4).Draw(t, "backs")
	c.Stretch = kit.Pick(t, "stretch", []int{0, 0, 1, 5, 50})
	return c
}

type subSource struct{ bm *neutrino.VerifBlockManager }

func (s subSource) Notifications() <-chan blockntfns.BlockNtfn { return s.bm.Notifications() }
func (s subSource) NotificationsSinceHeight(h uint32) ([]blockntfns.BlockNtfn, uint32, error) {
	return s.bm.NotificationsSinceHeight(h)
}

func runSub(t *testing.T, c SubCase) (v kit.Verdict) {
	r, err := newRunnerNoConsumer(Case{Seed: c.Seed, Blocks: c.Blocks, Filters: c.Blocks}, &v)
	if err != nil {
		v.Harness = err.Error()
		return
	}
	defer r.e.Destroy()
	prev := neutrino.VerifYield
	neutrino.VerifYield = func(point string) {
		for i := 0; i < c.Stretch; i++ {
			runtime.Gosched()
		}
	}
	defer func() { neutrino.VerifYield = prev }()

	mgr := blockntfns.NewSubscriptionManager(subSource{r.bm})
	mgr.Start()
	defer func() { mgr.Stop(); r.bm.Quit() }()

	// stable[h] for h <= safe is never reorganised: safe = initial tip - 6.
	safe := c.Blocks - 6
	stable := make([]chainhash.Hash, safe+1)
	for h := 0; h <= safe; h++ {
		stable[h] = r.m.blocks[h].BlockHash()
	}
	var failOnce sync.Once
	var failed atomic.Bool
	fail := func(sig, format string, a ...any) {
		failOnce.Do(func() { v.Fail("C19/sub-stress/"+sig, format, a...); failed.Store(true) })
	}
	var stop atomic.Bool
	var nsubs, nduring, nrefused atomic.Int64
	var inRollback atomic.Bool

	// replay applies one notification to a subscriber's chain.
	replay := func(chain []chainhash.Hash, n blockntfns.BlockNtfn, who string) ([]chainhash.Hash, bool) {
		hd := n.Header()
		hh := hd.BlockHash()
		if _, ok := n.(*blockntfns.Connected); ok {
			switch {
			case int(n.Height()) == len(chain) && hd.PrevBlock == chain[len(chain)-1]:
				return append(chain, hh), true
			case int(n.Height()) < len(chain) && chain[n.Height()] == hh:
				return chain, true
			}
			fail("connected-not-child", "%s: connected(%d,%v) is neither the child of the subscriber's tip (height %d) nor a block it holds: the backlog left it with a block that had been removed, or a block is missing", who, n.Height(), hh, len(chain)-1)
			return chain, false
		}
		switch {
		case int(n.Height()) == len(chain)-1 && chain[n.Height()] == hh:
			return chain[:len(chain)-1], true
		case int(n.Height()) > len(chain)-1:
			return chain, true
		}
		fail("disconnected-not-tip", "%s: disconnected(%d,%v) does not name the subscriber's tip (height %d)", who, n.Height(), hh, len(chain)-1)
		return chain, false
	}

	var wg sync.WaitGroup
	type finalSub struct {
		who   string
		chain []chainhash.Hash
		sub   *blockntfns.Subscription
	}
	finals := make([]*finalSub, len(c.Backs))
	for j, back := range c.Backs {
		wg.Add(1)
		go func(j, back int) {
			defer wg.Done()
			h := max(1, safe-back)
			for k := 0; ; k++ {
				last := stop.Load()
				during := inRollback.Load()
				sub, err := mgr.NewSubscription(uint32(h))
				if err != nil {
					// The backlog is read without the chain-update
					// lock: while blocks are being removed the read
					// can run into a header that has just gone, and
					// the subscription is refused with an error. A
					// refusal is not a wrong backlog; it is counted,
					// and only the very last subscription (made
					// after the driver has finished) must succeed.
					nrefused.Add(1)
					if last {
						fail("subscribe-error", "subscriber %d: NewSubscription(%d) with the chain at rest failed: %v", j, h, err)
						return
					}
					continue
				}
				nsubs.Add(1)
				if during || inRollback.Load() {
					nduring.Add(1)
				}
				who := fmt.Sprintf("subscriber %d, subscription %d (backlog above %d)", j, k, h)
				chain := append([]chainhash.Hash{}, stable[:h+1]...)
				if last {
					// the final one: stays until everything has drained
					finals[j] = &finalSub{who: who, chain: chain, sub: sub}
					return
				}
				// read what is there for a short while, then leave
				deadline := time.After(time.Duration(200+100*j) * time.Microsecond)
				ok := true
			read:
				for ok {
					select {
					case n, open := <-sub.Notifications:
						if !open {
							break read
						}
						chain, ok = replay(chain, n, who)
					case <-deadline:
						break read
					}
				}
				sub.Cancel()
				if !ok {
					return
				}
			}
		}(j, back)
	}

	// the driver
	for i := 0; i < c.Rounds && !failed.Load(); i++ {
		d := c.Depths[i%len(c.Depths)]
		to := r.m.tip() - d
		if to < safe+1 {
			to = safe + 1
		}
		ext := r.branch(to, r.m.tip()-to+1)
		inRollback.Store(true)
		err := r.rollbackOp(to, ext)
		inRollback.Store(false)
		if err != nil {
			v.Harness = "driver: " + err.Error()
			break
		}
		r.applyRollbackModel(to, ext)
		if _, _, err := r.bm.WriteCFHeaders(cfMsg(r.m.fgen, r.m.blocks, to, len(ext))); err != nil {
			v.Harness = "driver: WriteCFHeaders: " + err.Error()
			break
		}
	}
	stop.Store(true)
	wg.Wait()
	if v.Harness != "" || failed.Load() {
		for _, f := range finals {
			if f != nil {
				f.sub.Cancel()
			}
		}
		return
	}
	// drain: the final subscribers must end on the committed chain
	want := make([]chainhash.Hash, len(r.m.blocks))
	for h := range r.m.blocks {
		want[h] = r.m.blocks[h].BlockHash()
	}
	for _, f := range finals {
		if f == nil {
			continue
		}
		ok := true
		idle := time.NewTimer(300 * time.Millisecond)
	drain:
		for ok {
			select {
			case n, open := <-f.sub.Notifications:
				if !open {
					break drain
				}
				f.chain, ok = replay(f.chain, n, f.who)
				if len(f.chain) == len(want) && f.chain[len(f.chain)-1] == want[len(want)-1] {
					break drain
				}
			case <-idle.C:
				break drain
			}
		}
		f.sub.Cancel()
		if !ok {
			return
		}
		if len(f.chain) != len(want) {
			fail("final-length", "%s: after the driver had finished and the events had drained the subscriber holds a chain of height %d, the committed chain has height %d", f.who, len(f.chain)-1, len(want)-1)
			return
		}
		for h := range want {
			if f.chain[h] != want[h] {
				fail("final-content", "%s: the subscriber's chain differs from the committed chain at height %d", f.who, h)
				return
			}
		}
	}
	v.Count("subscriptions", int(nsubs.Load()))
	v.Count("subscriptions_during_rollback", int(nduring.Load()))
	v.Count("subscriptions_refused_during_rollback", int(nrefused.Load()))
	v.Nontrivial = nduring.Load() > 0
	if nduring.Load() > 0 {
		v.Class("subscribed-during-rollback")
	}
	return
}

// newRunnerNoConsumer is newRunner without the goroutine that drains the block
// manager's notification channel (the subscription manager reads it here).
func newRunnerNoConsumer(c Case, v *kit.Verdict) (*runner, error) {
	r, err := newRunner(c, v)
	if err != nil {
		return nil, err
	}
	close(r.stopCh)
	<-r.done
	return r, nil
}

var _ = wire.BlockHeader{}

func TestC19SubStress(t *testing.T) {
	kit.RunProp(t, kit.Prop[SubCase]{ID: "C19", Name: "sub-stress", Gen: genSubCase, Run: runSub})
}
