// Package c04: with one honest peer the client converges on the true best
// chain end to end, and never reports a best block off a valid chain
// (property C04). Free-running simulation: peers act on timers.
package c04

import (
	"fmt"
	"os"
	"sync"
	"testing"
	"time"

	"github.com/btcsuite/btcd/chainhash/v2"
	"github.com/btcsuite/btcd/wire/v2"
	"pgregory.net/rapid"

	"verifharness/kit"
	"verifharness/netsim"
)

type Adv struct {
	// Kind: badhdr | lightfork | cfliar-omit | cfliar-empty | cfliar-inconsistent |
	// cfliar-unserved | garbage | silent | stall | flap
	Kind   string `json:"kind"`
	Period int    `json:"period"` // seconds between misbehaviours
	Param  int    `json:"param"`
}

type Step struct {
	// After: seconds to wait before the step.
	After int `json:"after"`
	// Kind: grow | reorg
	Kind string `json:"kind"`
	N    int    `json:"n"`
}

type Case struct {
	World   kit.WorldSpec `json:"world"`
	Prefill int           `json:"prefill"`
	Honest  int           `json:"honest"`
	Advs    []Adv         `json:"advs"`
	// DialDelayMs[i]: virtual delay before peer i's connection is
	// established (connection order is part of the schedule).
	DialDelayMs []int  `json:"dial_delay_ms"`
	Script      []Step `json:"script"`
	// NoNet[i]: peer i does not advertise NODE_NETWORK (it still offers
	// witness and compact-filter service, like a pruned node): the client
	// does not consider it for header sync, but still talks to it. Never set
	// for peer 0.
	NoNet []bool `json:"no_net,omitempty"`
	// FilterLag: the pre-filled filter headers end this many blocks below
	// the pre-filled block headers (checkpointed unit).
	FilterLag int `json:"filter_lag,omitempty"`
	// Hard: heights (multiples of the filter checkpoint interval) at which
	// the generated network has a hard-coded filter-header checkpoint equal
	// to the honest chain's filter header.
	Hard []int `json:"hard,omitempty"`
}

var advKinds = []string{"badhdr", "lightfork", "cfliar-omit", "cfliar-empty", "cfliar-inconsistent", "cfliar-unserved", "garbage", "silent", "stall", "flap"}

// advKindsBig: the checkpointed unit leans on the filter-header adversaries
// (the lies reach back over several checkpoint intervals there) and adds one
// that lies in its filter checkpoints only.
var advKindsBig = []string{"badhdr", "lightfork", "cfliar-omit", "cfliar-empty", "cfliar-inconsistent", "cfliar-unserved", "cfliar-omit", "cfliar-inconsistent", "cfliar-unserved", "cfliar-ckptonly", "cfliar-ckptonly", "garbage", "silent", "stall", "flap"}

func genCaseBig(t *rapid.T) Case { return genCaseSized(t, true) }

func genCase(t *rapid.T) Case { return genCaseSized(t, false) }

func genCaseSized(t *rapid.T, big bool) Case {
	p := kit.GenParams(t)
	base := rapid.IntRange(5, 120).Draw(t, "base")
	fut := rapid.IntRange(3, 25).Draw(t, "future")
	kinds := advKinds
	if big {
		// (fixed parameter set: thousands of headers are mined per world)
		p = kit.ParamSpec{Retarget: 0, Spacing: 60, Adj: 4, VerFloor: 1}
		base = rapid.IntRange(1001, 2300).Draw(t, "bigbase")
		kinds = advKindsBig
	}
	ws := kit.WorldSpec{P: p, Seed: rapid.Uint64Range(0, 5).Draw(t, "wseed"), Base: base, Future: fut, Pace: kit.Pick(t, "pace", []int{0, 1, 1, 2, 3}), Tx: true}
	nb := rapid.IntRange(1, 3).Draw(t, "nbranches")
	for i := 0; i < nb; i++ {
		at := base - rapid.IntRange(0, 6).Draw(t, "atback")
		if at < 1 {
			at = 1
		}
		ln := rapid.IntRange(1, fut+8).Draw(t, "blen")
		ws.Branches = append(ws.Branches, kit.BranchSpec{Parent: 0, At: at, Len: ln, Pace: kit.Pick(t, "bpace", []int{0, 1, 2})})
	}
	c := Case{World: ws}
	if kit.Uni(t, "prefillp", 3) != 0 {
		c.Prefill = rapid.IntRange(0, base).Draw(t, "prefill")
	}
	if big {
		ws.Pace = 1
		c.World = ws
		if c.Prefill > 0 && kit.Uni(t, "flagp", 2) == 0 {
			c.FilterLag = rapid.IntRange(1, c.Prefill).Draw(t, "filterlag")
		}
		if kit.Uni(t, "hard", 2) == 0 {
			// A hard-coded checkpoint belongs to the one chain the
			// network has: only heights below every fork point of
			// the generated tree (on a real network the block
			// checkpoints rule out a fork below a filter checkpoint).
			lowest := base
			for _, b := range ws.Branches {
				lowest = min(lowest, b.At)
			}
			for h := 1000; h <= lowest; h += 1000 {
				if rapid.Bool().Draw(t, "hardat") {
					c.Hard = append(c.Hard, h)
				}
			}
		}
	}
	c.Honest = rapid.IntRange(1, 2).Draw(t, "honest")
	c.Advs = rapid.SliceOfN(rapid.Custom(func(t *rapid.T) Adv {
		return Adv{Kind: kit.Pick(t, "akind", kinds), Period: kit.Pick(t, "period", []int{2, 5, 11, 30}), Param: rapid.IntRange(0, 30).Draw(t, "param")}
	}), 0, 4).Draw(t, "advs")
	for i := 0; i < c.Honest+len(c.Advs); i++ {
		c.DialDelayMs = append(c.DialDelayMs, kit.Pick(t, "dial", []int{0, 0, 1, 50, 400, 3000}))
		c.NoNet = append(c.NoNet, i > 0 && kit.Uni(t, "nonet", 4) == 0)
	}
	c.Script = rapid.SliceOfN(rapid.Custom(func(t *rapid.T) Step {
		s := Step{After: kit.Pick(t, "after", []int{0, 1, 4, 15, 40}), Kind: kit.Pick(t, "skind", []string{"grow", "grow", "reorg"})}
		if s.Kind == "grow" {
			s.N = rapid.IntRange(1, 5).Draw(t, "n")
		} else {
			s.N = rapid.IntRange(1, nb).Draw(t, "branch")
		}
		return s
	}), 0, 8).Draw(t, "script")
	return c
}

func runCase(t *testing.T, c Case) kit.Verdict {
	var v kit.Verdict
	w := kit.BuildWorld(c.World)
	np := c.Honest + len(c.Advs)
	cfg := netsim.Config{World: w, NumPeers: np, Prefill: c.Prefill}
	if c.FilterLag > 0 && c.Prefill > 0 {
		cfg.PrefillFilterTip = c.Prefill - c.FilterLag
		if cfg.PrefillFilterTip <= 0 {
			cfg.PrefillFilterTip = -1
		}
	}
	for _, h := range c.Hard {
		if n := w.Node(0, h); n != nil {
			if cfg.HardCF == nil {
				cfg.HardCF = map[uint32]chainhash.Hash{}
			}
			cfg.HardCF[uint32(h)] = n.FHdr
			v.Class("hard-checkpoint")
		}
	}
	bigWorld := c.World.Base >= 1000
	for i := 0; i < np; i++ {
		cfg.Initial = append(cfg.Initial, i)
	}
	// A filter-header liar that is the client's only peer for a while gets
	// its headers committed without any honest responder to contradict it,
	// which the property does not exclude; such liars are therefore only
	// let in once an honest peer has completed its handshake. All other
	// peers connect in any generated order.
	// (created inside the bubble: blocking on a channel made outside it is
	// not a durable block for synctest)
	var honestReady chan struct{}
	var readyOnce sync.Once
	cfg.AfterStart = func(*netsim.Sim) { honestReady = make(chan struct{}) }
	cfg.DialGate = func(i int) <-chan struct{} {
		d := 0
		if i < len(c.DialDelayMs) {
			d = c.DialDelayMs[i]
		}
		liar := i >= c.Honest && len(c.Advs[i-c.Honest].Kind) > 6 && c.Advs[i-c.Honest].Kind[:6] == "cfliar"
		if d == 0 && !liar {
			return nil
		}
		ch := make(chan struct{})
		go func() {
			if liar {
				<-honestReady
			}
			time.Sleep(time.Duration(d) * time.Millisecond)
			close(ch)
		}()
		return ch
	}
	base := w.Node(0, c.World.Base)
	stalling, unprovable := false, false
	harmful := false
	var hmu sync.Mutex
	setup := func(s *netsim.Sim) {
		for i, p := range s.Peers {
			p.SetView(base, false)
			if i < len(c.NoNet) && c.NoNet[i] {
				p.Services = wire.SFNodeWitness | wire.SFNodeCF
			}
			if i < c.Honest {
				p.Override = func(p *netsim.Peer, m wire.Message) bool {
					if _, ok := m.(*wire.MsgGetHeaders); ok {
						readyOnce.Do(func() { close(honestReady) })
					}
					return false
				}
				continue
			}
			a := c.Advs[i-c.Honest]
			switch a.Kind {
			case "cfliar-omit", "cfliar-empty", "cfliar-inconsistent", "cfliar-unserved":
				p.LieCFKind = a.Kind[len("cfliar-"):]
				p.LieCFFrom = int32(max(1, c.World.Base-a.Param))
				if bigWorld {
					// reaches back over checkpoint intervals
					p.LieCFFrom = int32(max(1, c.World.Base-a.Param*75))
				}
			case "cfliar-ckptonly":
				p.LieCkptFrom = int32(max(1000, (c.World.Base-a.Param*75)/1000*1000))
			case "silent":
				p.Silent = true
			case "stall":
				p.ClaimHeight = base.Height + 1000
				p.EmptyHeaders = true
				stalling = true
			case "lightfork":
				// a valid branch strictly lighter than the honest base
				// tip (with equal work the first chain seen rightly
				// wins, and there would be no unique best chain)
				br := w.Br[1+a.Param%(len(w.Br)-1)]
				n := br.Tip()
				for n != nil && n.Work.Cmp(base.Work) >= 0 {
					n = n.Parent
				}
				if n != nil {
					p.SetView(n, false)
				}
			}
		}
	}
	fail := func(sym, format string, a ...any) {
		v.Fail("C04/"+sym, format, a...)
		v.Logf("VIOLATION "+format, a...)
	}
	res := netsim.Run(t, cfg, setup, func(s *netsim.Sim) {
		stop := make(chan struct{})
		var wg sync.WaitGroup
		// adversaries act on timers
		for i := c.Honest; i < np; i++ {
			p, a := s.Peers[i], c.Advs[i-c.Honest]
			if a.Kind == "silent" || a.Kind == "stall" || len(a.Kind) > 6 && a.Kind[:6] == "cfliar" {
				continue
			}
			wg.Add(1)
			go func() {
				defer wg.Done()
				tick := time.NewTicker(time.Duration(a.Period) * time.Second)
				defer tick.Stop()
				k := 0
				for {
					select {
					case <-stop:
						return
					case <-tick.C:
					}
					k++
					if !p.Connected() {
						continue
					}
					switch a.Kind {
					case "badhdr":
						hd, tipH, err := s.CS.BlockHeaders.ChainTip()
						if err != nil {
							continue
						}
						n := w.ByHash[hd.BlockHash()]
						if n == nil || n.Branch == nil {
							continue
						}
						to := n.Branch.Tip()
						if int32(tipH)+1 > to.Height {
							continue
						}
						end := to.Ancestor(min(to.Height, int32(tipH)+1+int32(a.Param%5)))
						nodes := kit.Segment(int32(tipH), end)
						muts := kit.HeaderMuts
						mk := (k + a.Param) % len(nodes)
						// The valid prefix of the batch (nodes before mk) is
						// accepted by the client. It must not reveal a valid
						// chain that beats the honest one - blocks the honest
						// side has not produced yet, or a stale branch with at
						// least as much work - or "the honest peers serve the
						// most-work valid chain" would no longer be true.
						ht := s.Peers[0].View()
						lim := len(nodes)
						for lim > 0 && !ht.OnPath(nodes[lim-1]) && nodes[lim-1].Work.Cmp(ht.Work) >= 0 {
							lim--
						}
						if mk > lim {
							mk = lim
						}
						batch := w.Batch(nodes, mk, muts[(k+a.Param)%len(muts)])
						// A mutation can be ineffective in this world (e.g.
						// another acceptable version, a timestamp that is
						// still above the median): the "bad" header would
						// then be a valid block nobody else knows. Only
						// batches the reference validator rejects at mk are
						// sent.
						var ctx []*wire.BlockHeader
						for _, pn := range n.Path() {
							h := pn.Header
							ctx = append(ctx, &h)
						}
						ctx = append(ctx, batch[:mk+1]...)
						nowS := netsim.Now()
						if w.Rules.CheckChain(ctx, int32(tipH)+1+int32(mk), func(chainhash.Hash) int64 { return nowS }) == "" {
							continue
						}
						p.SendHeaders(batch)
						if mk >= 1 && mk < lim && k%2 == 0 {
							// chase: the honest continuation right
							// behind the batch's valid prefix
							p.SendHeaders(w.Batch(nodes[mk:lim], -1, ""))
						}
						hmu.Lock()
						harmful = true
						hmu.Unlock()
					case "lightfork":
						p.SetView(p.View(), true)
						hmu.Lock()
						harmful = true
						hmu.Unlock()
					case "garbage":
						p.SendRaw([]byte("\xde\xad\xbe\xefnot-a-message\x00\x00\x00\x00\x00\x00\x00\x00\x00\x00\x00\x00"))
						hmu.Lock()
						harmful = true
						hmu.Unlock()
					case "flap":
						p.Disconnect()
					}
				}
			}()
		}
		defer func() { close(stop); wg.Wait() }()

		honestTip := base
		safety := func(when string) bool {
			bb, err := s.CS.BestBlock()
			if err != nil {
				fail("bestblock-error", "%s: BestBlock fails: %v", when, err)
				return false
			}
			n, ok := w.ByHash[bb.Hash]
			if !ok || n.Height != bb.Height {
				fail("best-block-off-chain", "%s: BestBlock (%d, %v) is not a block of any valid chain from genesis", when, bb.Height, bb.Hash)
				return false
			}
			if !unprovable && bb.Height > 0 {
				fh, err := s.CS.RegFilterHeaders.FetchHeaderByHeight(uint32(bb.Height))
				if err == nil && *fh != n.FHdr {
					// the filter header may just have been rolled
					// back together with the block: re-read
					bb2, _ := s.CS.BestBlock()
					if bb2 != nil && bb2.Hash == bb.Hash {
						fail("best-block-false-filter-header", "%s: the filter header committed for the best block %d is not the true one", when, bb.Height)
						return false
					}
				}
			}
			return true
		}
		run := func(d time.Duration, when string) bool {
			for d > 0 {
				step := 250 * time.Millisecond
				if d < step {
					step = d
				}
				if !s.Advance(step) {
					return false
				}
				d -= step
				if !safety(when) {
					return false
				}
			}
			return true
		}
		if !safety("after start") {
			return
		}
		for i, st := range c.Script {
			if !run(time.Duration(st.After)*time.Second, fmt.Sprintf("before step %d", i)) {
				return
			}
			switch st.Kind {
			case "grow":
				if honestTip.Branch != nil {
					nh := min(honestTip.Branch.Tip().Height, honestTip.Height+int32(st.N))
					honestTip = honestTip.Branch.Tip().Ancestor(nh)
				}
			case "reorg":
				if st.N < len(w.Br) {
					tip := w.Br[st.N].Tip()
					if tip.Work.Cmp(honestTip.Work) > 0 && !tip.OnPath(honestTip) {
						honestTip = tip
						v.Class("honest-reorg")
						hmu.Lock()
						harmful = true
						hmu.Unlock()
					}
				}
			}
			for pi := 0; pi < np; pi++ {
				p := s.Peers[pi]
				follows := pi < c.Honest
				if pi >= c.Honest {
					k := c.Advs[pi-c.Honest].Kind
					follows = len(k) > 6 && k[:6] == "cfliar" || k == "garbage" || k == "flap" || k == "badhdr"
				}
				if follows {
					p.SetView(honestTip, true)
				}
			}
			if !s.Settle() || !safety(fmt.Sprintf("after step %d %s(%d)", i, st.Kind, st.N)) {
				return
			}
			v.Logf("step %d %s(%d): honest tip now %d (branch %d)", i, st.Kind, st.N, honestTip.Height, honestTip.Branch.Idx)
		}
		// Bounded liveness: within 30 virtual minutes. The client only
		// learns about chains it is told about, so - like nodes of a
		// live network, whose chain keeps growing - the honest peers
		// announce their tip again once a minute.
		converged := false
		for k := 0; k < 360 && !converged; k++ {
			if k%12 == 0 {
				for pi := 0; pi < c.Honest; pi++ {
					s.Peers[pi].SetView(honestTip, true)
				}
			}
			if !run(5*time.Second, "converging") {
				return
			}
			bb, err := s.CS.BestBlock()
			if err == nil && bb.Hash == honestTip.Hash {
				converged = true
				if !s.CS.IsCurrent() {
					v.Class("converged-but-not-current")
				}
			}
		}
		bb, _ := s.CS.BestBlock()
		_, bt, _ := s.CS.BlockHeaders.ChainTip()
		_, ft, _ := s.CS.RegFilterHeaders.ChainTip()
		v.Logf("end: best=%d blockTip=%d filterTip=%d honestTip=%d converged=%v current=%v peers=%d vt=%ds", bb.Height, bt, ft, honestTip.Height, converged, s.CS.IsCurrent(), len(s.CS.Peers()), netsim.Now()-kit.Epoch)
		if converged {
			v.Class("converged")
			return
		}
		if stalling {
			v.Fail("C04/no-convergence/sync-peer=inflated-height+empty-headers", "no convergence within 30 virtual minutes after the honest chain stopped changing: best block %d (block tip %d, filter tip %d), honest tip %d; an adversary advertising an inflated height and answering getheaders with nothing was present", bb.Height, bt, ft, honestTip.Height)
			return
		}
		// A reorganisation of the honest chain to a branch with more
		// work but fewer blocks: the client holds the honest chain's
		// headers, but an honest peer's advertised height stays above it.
		bth, _, _ := s.CS.BlockHeaders.ChainTip()
		if bth != nil && bth.BlockHash() == honestTip.Hash && ft < bt {
			for _, sp := range s.CS.Peers() {
				for pi := 0; pi < c.Honest; pi++ {
					if sp.Addr() == s.Peers[pi].Addr.String() && sp.LastBlock() > int32(honestTip.Height) {
						v.Fail("C04/no-convergence/honest-chain-got-shorter", "no convergence within 30 virtual minutes after the honest chain stopped changing: block headers are at the honest tip %d but filter headers stay at %d (current=%v); honest peer %s had announced height %d before the honest side reorganised to a heavier but shorter branch", bt, ft, s.CS.IsCurrent(), sp.Addr(), sp.LastBlock())
						return
					}
				}
			}
		}
		fail("no-convergence", "no convergence within 30 virtual minutes after the honest chain stopped changing: best block %d (block tip %d, filter tip %d), honest tip %d, current=%v", bb.Height, bt, ft, honestTip.Height, s.CS.IsCurrent())
	})
	if res.Harness != "" {
		v.Harness = res.Harness
	}
	if res.Spin != "" {
		v.Class("abandoned:client-busy-loop")
	}
	for _, a := range c.Advs {
		v.Class("adv:%s", a.Kind)
	}
	hmu.Lock()
	v.Nontrivial = harmful || len(c.Advs) > 0 && anyLiar(c)
	hmu.Unlock()
	return v
}

func anyLiar(c Case) bool {
	for _, a := range c.Advs {
		if len(a.Kind) > 6 && a.Kind[:6] == "cfliar" || a.Kind == "stall" || a.Kind == "silent" {
			return true
		}
	}
	return false
}

var _ = wire.MsgPing{}

func TestC04Big(t *testing.T) {
	kit.RunProp(t, kit.Prop[Case]{ID: "C04", Name: "netsim-checkpointed", Gen: genCaseBig, Run: runCase})
}

func TestC04(t *testing.T) {
	kit.RunProp(t, kit.Prop[Case]{ID: "C04", Name: "netsim", Gen: genCase, Run: runCase})
}

func TestMain(m *testing.M) {
	code := m.Run()
	netsim.CleanupTemplates()
	os.Exit(code)
}
