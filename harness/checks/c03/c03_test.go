// Package c03: committed filter headers track the header chain and resist
// false filter headers (property C03).
package c03

import (
	"fmt"
	"os"
	"sync"
	"testing"
	"time"

	"github.com/btcsuite/btcd/chainhash/v2"
	"github.com/btcsuite/btcd/wire/v2"
	"pgregory.net/rapid"

	"verifharness/kit"
	"verifharness/netsim"
)

// PeerSpec: peer 0 is always honest and connected from the start.
type PeerSpec struct {
	// Kind: honest | omit | empty | inconsistent | unserved | extra | ckptonly | silent
	Kind string `json:"kind"`
	// From: first height whose filter (or checkpoint) is falsified.
	From int `json:"from"`
	// Early: dialled at start, right after the honest peer's handshake
	// (otherwise only on a connect event).
	Early bool `json:"early,omitempty"`
	// DelayMs: virtual time the peer takes to answer each request. With
	// delays the filter-header sync is spread over virtual time, so that
	// growth and reorganisations of the script fall into the middle of it.
	// The honest peer stays well below the client's query timeouts (a peer
	// that is too slow is treated like one that does not serve).
	DelayMs int `json:"delay_ms,omitempty"`
}

type Event struct {
	// Kind: connect | drop | grow | reorg | advance
	Kind string `json:"kind"`
	Peer int    `json:"peer,omitempty"`
	N    int    `json:"n,omitempty"` // grow: blocks; reorg: branch; advance: seconds
}

func (e Event) String() string { return fmt.Sprintf("%s(p%d,%d)", e.Kind, e.Peer, e.N) }

type Case struct {
	World kit.WorldSpec `json:"world"`
	// FilterPrefill: filter headers already committed (block headers are
	// pre-filled up to World.Base).
	FilterPrefill int `json:"filter_prefill"`
	// BlockLag: the block-header store starts this many blocks behind the
	// peers (so that a header sync precedes the filter-header sync).
	BlockLag int        `json:"block_lag"`
	Peers    []PeerSpec `json:"peers"`
	Events   []Event    `json:"events"`
	// Hard: hard-coded filter-header checkpoints of the generated network
	// (heights are multiples of the filter checkpoint interval, as on the
	// real networks).
	Hard []HardCk `json:"hard,omitempty"`
}

// HardCk is one hard-coded filter-header checkpoint. Match: its value is the
// true filter header of the main branch's block at that height; otherwise a
// value no chain can produce.
type HardCk struct {
	H     int  `json:"h"`
	Match bool `json:"match"`
}

var provable = map[string]bool{"omit": true, "empty": true, "inconsistent": true, "unserved": true}

func genCase(big bool) func(t *rapid.T) Case {
	return func(t *rapid.T) Case {
		p := kit.ParamSpec{Retarget: 0, Spacing: 60, Adj: 4, VerFloor: 1}
		base := rapid.IntRange(3, 120).Draw(t, "base")
		if big {
			base = rapid.IntRange(1001, 2600).Draw(t, "bigbase")
		}
		fut := rapid.IntRange(1, 25).Draw(t, "future")
		// straddle: the chain starts just below the first filter checkpoint
		// height and grows across it while the client is at the tip, so the
		// filter header at that height is fetched by the at-tip path
		straddle := big && kit.Uni(t, "straddle", 4) == 0
		if straddle {
			base = 1000 - rapid.IntRange(1, 30).Draw(t, "below")
			fut = rapid.IntRange(3, 40).Draw(t, "future2")
		}
		ws := kit.WorldSpec{P: p, Seed: rapid.Uint64Range(0, 3).Draw(t, "wseed"), Base: base, Future: fut, Pace: 1, Tx: true}
		nb := rapid.IntRange(0, 3).Draw(t, "nbranches")
		for i := 0; i < nb; i++ {
			at := base - rapid.IntRange(0, 8).Draw(t, "atback")
			if at < 1 {
				at = 1
			}
			ln := base + fut - at + rapid.IntRange(1, 6).Draw(t, "extra")
			ws.Branches = append(ws.Branches, kit.BranchSpec{Parent: 0, At: at, Len: ln, Pace: 1})
		}
		c := Case{World: ws}
		switch kit.Uni(t, "fpre", 4) {
		case 0:
			c.FilterPrefill = -1
		case 1:
			c.FilterPrefill = base
		default:
			c.FilterPrefill = rapid.IntRange(1, base).Draw(t, "fprefill")
		}
		if big && !straddle && kit.Uni(t, "bigfpre", 3) != 0 {
			c.FilterPrefill = rapid.IntRange(-1, base-1000).Draw(t, "fprefillbig")
			if c.FilterPrefill == 0 {
				c.FilterPrefill = -1
			}
		}
		if straddle {
			c.FilterPrefill = base - kit.Pick(t, "sfpre", []int{0, 0, 1, 3, 20})
		}
		if big && kit.Uni(t, "hard", 2) == 0 {
			// A hard-coded checkpoint belongs to the one chain the
			// network has: only heights that lie below every fork
			// point of the generated tree (on a real network the block
			// checkpoints rule out a fork below a filter checkpoint;
			// honest peers serve filter data for stale blocks too and
			// would contradict the table there).
			if straddle {
				c.World.Branches = nil
			}
			lowest := base + fut
			for _, b := range c.World.Branches {
				lowest = min(lowest, b.At)
			}
			for h := 1000; h <= lowest; h += 1000 {
				if straddle || rapid.Bool().Draw(t, "hardat") {
					c.Hard = append(c.Hard, HardCk{H: h, Match: kit.Uni(t, "hardmatch", 4) != 0})
				}
			}
		}
		c.BlockLag = rapid.IntRange(0, 30).Draw(t, "blocklag")
		if c.BlockLag >= base {
			c.BlockLag = base - 1
		}
		if fpm := base - c.BlockLag; c.FilterPrefill > fpm {
			c.FilterPrefill = fpm
		}
		np := rapid.IntRange(2, 6).Draw(t, "npeers")
		c.Peers = []PeerSpec{{Kind: "honest", DelayMs: kit.Pick(t, "hdelay", []int{0, 0, 0, 20, 200})}}
		fp := c.FilterPrefill
		if fp < 0 {
			fp = 0
		}
		for i := 1; i < np; i++ {
			k := kit.Pick(t, "pkind", []string{"honest", "omit", "omit", "empty", "empty", "inconsistent", "inconsistent", "unserved", "unserved", "extra", "ckptonly", "silent"})
			from := rapid.IntRange(fp+1, base+fut).Draw(t, "from")
			if kit.Uni(t, "fromnear", 2) == 0 {
				// near the first heights that will be fetched
				from = fp + 1 + rapid.IntRange(0, 12).Draw(t, "fromoff")
			}
			if k == "ckptonly" {
				from = (from/1000 + 1) * 1000
				// a checkpoint height the chain actually reaches, above
				// the pre-filled filter headers if there is one
				if lo, hi := fp/1000+1, (base+fut)/1000; lo <= hi {
					from = 1000 * rapid.IntRange(lo, hi).Draw(t, "ckptfrom")
				}
			}
			d := kit.Pick(t, "pdelay", []int{0, 0, 0, 20, 200, 1500, 4000})
			if k == "honest" && d > 200 {
				d = 200
			}
			c.Peers = append(c.Peers, PeerSpec{Kind: k, From: from, Early: rapid.Bool().Draw(t, "early"), DelayMs: d})
		}
		kinds := []string{"connect", "connect", "connect", "grow", "grow", "reorg", "drop", "advance", "advance", "advance", "advance"}
		c.Events = rapid.SliceOfN(rapid.Custom(func(t *rapid.T) Event {
			e := Event{Kind: kit.Pick(t, "kind", kinds)}
			switch e.Kind {
			case "connect", "drop":
				e.Peer = rapid.IntRange(1, np-1).Draw(t, "peer")
			case "grow":
				e.N = rapid.IntRange(1, 6).Draw(t, "n")
			case "reorg":
				e.N = rapid.IntRange(0, 3).Draw(t, "branch")
			case "advance":
				// (0 = 100 ms: a step into the middle of delayed answers)
				e.N = kit.Pick(t, "secs", []int{0, 0, 1, 4, 12, 45, 130})
			}
			return e
		}), 2, 18).Draw(t, "events")
		if big && !straddle && kit.Uni(t, "dispute", 5) == 0 {
			disputeReorg(t, &c, base, fut)
		}
		return c
	}
}

// disputeReorg turns the case into a checkpoint dispute that takes several
// rounds with a reorganisation in between: liar A lies inside the last full
// checkpoint interval (so the peers' checkpoint lists differ and the filter
// headers of that interval up to the tip are fetched from everybody), liar B
// lies a few blocks below the tip (a second mismatch in the same batch of
// responses, examined in a later round), at least one of the rounds takes
// virtual time (a peer that does not serve the disputed filter, or slow
// answers), and the first event reorganises the chain to a heavier branch that
// replaces the block B lied about.
func disputeReorg(t *rapid.T, c *Case, base, fut int) {
	k := base / 1000
	at := base - rapid.IntRange(2, 8).Draw(t, "dforkback")
	c.World.Branches = []kit.BranchSpec{{Parent: 0, At: at, Len: base + fut - at + rapid.IntRange(1, 6).Draw(t, "dextra"), Pace: 1}}
	c.Hard = nil
	// The liars are only let in once the honest peer has been asked for
	// block headers. For all three to be asked for their filter checkpoints
	// in one query (which is what makes a dispute), the block headers lag a
	// little and the honest peer takes a moment to answer: the liars finish
	// their handshakes while the client waits for those headers.
	c.BlockLag = rapid.IntRange(1, 20).Draw(t, "dlag")
	c.FilterPrefill = -1
	if lim := (k - 1) * 1000; lim >= 1 && rapid.Bool().Draw(t, "dprefill") {
		c.FilterPrefill = rapid.IntRange(1, lim).Draw(t, "dfp")
	}
	h1 := (k-1)*1000 + rapid.IntRange(1, 1000).Draw(t, "dh1")
	h2 := rapid.IntRange(at+1, base).Draw(t, "dh2")
	c.Peers = []PeerSpec{
		{Kind: "honest", DelayMs: kit.Pick(t, "dhd", []int{20, 200, 200})},
		{Kind: kit.Pick(t, "dka", []string{"unserved", "unserved", "inconsistent", "omit"}), From: h1, Early: true, DelayMs: kit.Pick(t, "dda", []int{0, 0, 20, 200})},
		{Kind: kit.Pick(t, "dkb", []string{"omit", "empty", "inconsistent", "unserved"}), From: h2, Early: true, DelayMs: kit.Pick(t, "ddb", []int{0, 0, 20})},
	}
	if rapid.Bool().Draw(t, "dhonest2") {
		c.Peers = append(c.Peers, PeerSpec{Kind: "honest", Early: true, DelayMs: kit.Pick(t, "dhd2", []int{0, 20, 200})})
	}
	ev := []Event{}
	for i, n := 0, rapid.IntRange(0, 2).Draw(t, "dpre"); i < n; i++ {
		ev = append(ev, Event{Kind: "advance", N: kit.Pick(t, "dpresecs", []int{0, 0, 1, 4})})
	}
	ev = append(ev, Event{Kind: "reorg", N: 1})
	for i, n := 0, rapid.IntRange(1, 6).Draw(t, "dpost"); i < n; i++ {
		ev = append(ev, Event{Kind: kit.Pick(t, "dpostk", []string{"advance", "advance", "grow"}), N: kit.Pick(t, "dpostsecs", []int{0, 1, 4, 12, 45})})
	}
	c.Events = ev
}

type oracle struct {
	v *kit.Verdict
	w *kit.World
	c Case
	s *netsim.Sim

	connected map[int]bool // script asked to connect
	dropped   map[int]bool // script dropped it at least once
	// verified[h] = (block hash, entry) already shown to be derived from a
	// served hash
	verified []struct{ blk, ent chainhash.Hash }
	truthOK  bool // honest peer + only provable / ckptonly / silent liars
	hard     map[uint32]chainhash.Hash
	ftip0    int // filter tip of the pre-filled store
}

func (o *oracle) fail(sym, format string, a ...any) {
	o.v.Fail("C03/"+sym, format, a...)
	o.v.Logf("VIOLATION "+format, a...)
}

func dsha(fh, prev chainhash.Hash) chainhash.Hash {
	return chainhash.DoubleHashH(append(fh[:], prev[:]...))
}

func (o *oracle) check(when string) bool {
	s := o.s
	bsn, e := netsim.SnapChain(s.CS.BlockHeaders)
	if e != "" {
		o.fail("unreadable", "%s: %s", when, e)
		return false
	}
	fsn, e := netsim.SnapFilters(s.CS.RegFilterHeaders)
	if e != "" {
		o.fail("unreadable", "%s: %s", when, e)
		return false
	}
	if fsn.Tip > bsn.Tip {
		o.fail("filter-ahead", "%s: filter-header tip %d is ahead of the block-header tip %d", when, fsn.Tip, bsn.Tip)
		return false
	}
	if fsn.Hdrs[0] != o.w.Genesis.FHdr {
		o.fail("genesis", "%s: genesis filter header differs", when)
		return false
	}
	// every committed entry at a height with a hard-coded checkpoint equals it
	for h, x := range o.hard {
		// (entries of the pre-filled store are not the client's doing)
		if int(h) > o.ftip0 && h <= fsn.Tip && fsn.Hdrs[h] != x {
			o.fail("hard-checkpoint-violated", "%s: filter header committed at height %d is %v, the hard-coded filter-header checkpoint there is %v", when, h, fsn.Hdrs[h], x)
			return false
		}
	}
	for h := uint32(1); h <= fsn.Tip; h++ {
		if int(h) < len(o.verified) && o.verified[h].blk == bsn.Hashes[h] && o.verified[h].ent == fsn.Hdrs[h] &&
			o.verified[h-1].ent == fsn.Hdrs[h-1] {
			continue
		}
		n, ok := o.w.ByHash[bsn.Hashes[h]]
		if !ok {
			o.v.Harness = "stored block header is not a world block"
			return false
		}
		if o.truthOK && fsn.Hdrs[h] != n.FHdr {
			o.fail("false-header-committed", "%s: filter header committed at height %d (block %v) is not the true one although an honest peer was connected throughout and every false value was provably inconsistent", when, h, n.Hash)
			return false
		}
		okk := fsn.Hdrs[h] == dsha(n.FHash, fsn.Hdrs[h-1])
		for _, p := range s.Peers {
			if okk {
				break
			}
			okk = fsn.Hdrs[h] == dsha(p.FHash(n), fsn.Hdrs[h-1])
		}
		if !okk {
			o.fail("not-a-successor", "%s: filter header at height %d is not dSHA256(filter hash || previous entry) for any filter hash a peer served for block %v (stale or foreign entry)", when, h, n.Hash)
			return false
		}
		for len(o.verified) <= int(h) {
			o.verified = append(o.verified, struct{ blk, ent chainhash.Hash }{})
		}
		o.verified[0].ent = fsn.Hdrs[0]
		o.verified[h].blk, o.verified[h].ent = bsn.Hashes[h], fsn.Hdrs[h]
	}
	o.verified = o.verified[:min(len(o.verified), int(fsn.Tip)+1)]
	// by-hash lookups agree with by-height
	for _, h := range []uint32{fsn.Tip, fsn.Tip / 2, 1} {
		if h == 0 || h > fsn.Tip {
			continue
		}
		bh := bsn.Hashes[h]
		got, err := s.CS.RegFilterHeaders.FetchHeader(&bh)
		if err != nil || *got != fsn.Hdrs[h] {
			o.fail("lookup", "%s: FetchHeader(block hash at %d) = %v, %v; by height %v", when, h, got, err, fsn.Hdrs[h])
			return false
		}
	}
	if h := bsn.Tip; h > fsn.Tip {
		bh := bsn.Hashes[h]
		if got, err := s.CS.RegFilterHeaders.FetchHeader(&bh); err == nil {
			o.fail("lookup", "%s: FetchHeader for block %d above the filter tip %d returns %v", when, h, fsn.Tip, got)
			return false
		}
	}
	// With unprovable (superset-filter) liars around, a majority of them
	// can legitimately out-vote the honest peer: no claim then.
	if o.truthOK && s.CS.IsBanned(s.Peers[0].Addr.String()) {
		o.fail("honest-banned", "%s: the honest peer is banned", when)
		return false
	}
	for _, sp := range s.CS.Peers() {
		if s.CS.IsBanned(sp.Addr()) {
			o.fail("banned-but-connected", "%s: peer %s is banned but still connected at a quiescent point", when, sp.Addr())
			return false
		}
	}
	o.v.Logf("%-40s blockTip=%d filterTip=%d peers=%d vt=%ds", when, bsn.Tip, fsn.Tip, len(s.CS.Peers()), netsim.Now()-kit.Epoch)
	return true
}

func runCase(t *testing.T, c Case) kit.Verdict {
	var v kit.Verdict
	w := kit.BuildWorld(c.World)
	o := &oracle{v: &v, w: w, c: c, connected: map[int]bool{0: true}, dropped: map[int]bool{}, truthOK: true}
	o.ftip0 = c.World.Base - c.BlockLag
	if c.FilterPrefill != 0 && c.FilterPrefill < o.ftip0 {
		o.ftip0 = max(0, c.FilterPrefill)
	}
	for _, p := range c.Peers[1:] {
		if p.Kind == "extra" {
			o.truthOK = false
		}
		v.Class("peer:%s", p.Kind)
	}
	base := w.Node(0, c.World.Base)
	for _, hc := range c.Hard {
		n := w.Node(0, hc.H)
		if n == nil {
			continue
		}
		x := n.FHdr
		if !hc.Match {
			x = chainhash.HashH(append([]byte("no-such-filter-header"), x[:]...))
			// every peer, the honest one included, contradicts the
			// hard-coded value: the client may ban them all and must
			// simply never commit that height
			o.truthOK = false
			v.Class("hard:mismatch")
		} else {
			v.Class("hard:match")
		}
		if o.hard == nil {
			o.hard = map[uint32]chainhash.Hash{}
		}
		o.hard[uint32(hc.H)] = x
	}
	if c.World.Base < 1000 && c.World.Base+c.World.Future >= 1000 {
		v.Class("world:straddles-first-checkpoint")
	}
	// created inside the bubble (AfterStart): blocking on a channel made
	// outside it is not a durable block for synctest
	var honestReady chan struct{}
	var once sync.Once
	initial := []int{0}
	for i, p := range c.Peers {
		if i > 0 && p.Early {
			initial = append(initial, i)
			o.connected[i] = true
		}
	}
	cfg := netsim.Config{World: w, NumPeers: len(c.Peers), Initial: initial, Prefill: c.World.Base - c.BlockLag, PrefillFilterTip: c.FilterPrefill, HardCF: o.hard,
		AfterStart: func(*netsim.Sim) { honestReady = make(chan struct{}) },
		DialGate: func(i int) <-chan struct{} {
			if i == 0 {
				return nil
			}
			return honestReady
		}}
	if c.World.Base >= 1000 {
		v.Class("world:checkpointed")
	} else {
		v.Class("world:at-tip-only")
	}
	setup := func(s *netsim.Sim) {
		for i, ps := range c.Peers {
			p := s.Peers[i]
			p.SetView(base, false)
			p.Delay = time.Duration(ps.DelayMs) * time.Millisecond
			if i == 0 {
				p.Override = func(p *netsim.Peer, m wire.Message) bool {
					if _, ok := m.(*wire.MsgGetHeaders); ok {
						once.Do(func() { close(honestReady) })
					}
					return false
				}
			}
			switch ps.Kind {
			case "omit", "empty", "inconsistent", "unserved", "extra":
				p.LieCFFrom, p.LieCFKind = int32(ps.From), ps.Kind
			case "ckptonly":
				p.LieCkptFrom = int32(ps.From)
			case "silent":
				p.NoFilters = true
				p.Override = nil
			}
		}
	}
	res := netsim.Run(t, cfg, setup, func(s *netsim.Sim) {
		o.s = s
		for i, ps := range c.Peers {
			if ps.Kind == "silent" {
				s.Peers[i].Override = silentCF
			}
		}
		cur := base
		if !o.check("after start") {
			return
		}
		for i, e := range c.Events {
			switch e.Kind {
			case "connect":
				if !o.connected[e.Peer] {
					o.connected[e.Peer] = true
					_ = s.Connect(e.Peer)
				}
			case "drop":
				if o.connected[e.Peer] {
					o.dropped[e.Peer] = true
					s.Peers[e.Peer].Disconnect()
				}
			case "grow":
				nh := int(cur.Height) + e.N
				if n := cur.Branch; n != nil && nh > int(n.Tip().Height) {
					nh = int(n.Tip().Height)
				}
				var next *kit.Node
				if cur.Branch != nil {
					next = cur.Branch.Tip().Ancestor(int32(nh))
				}
				if next != nil && next != cur {
					cur = next
					for _, p := range s.Peers {
						p.SetView(cur, true)
					}
				}
			case "reorg":
				if e.N < len(w.Br) {
					tip := w.Br[e.N].Tip()
					// move to a point of that branch that outweighs the
					// current chain
					if tip.Work.Cmp(cur.Work) > 0 && !tip.OnPath(cur) {
						cur = tip
						v.Class("reorg")
						for _, p := range s.Peers {
							p.SetView(cur, true)
						}
					}
				}
			case "advance":
				d := time.Duration(e.N) * time.Second
				if e.N == 0 {
					d = 100 * time.Millisecond
				}
				if !s.Advance(d) {
					return
				}
			}
			if !s.Settle() {
				return
			}
			if !o.check(fmt.Sprintf("after event %d %s", i, e)) {
				return
			}
		}
		// Let the client finish: generous virtual time, checked as we go.
		for k := 0; k < 30; k++ {
			if !s.Advance(45 * time.Second) {
				return
			}
			if !o.check(fmt.Sprintf("settling %d", k)) {
				return
			}
			_, bt, _ := s.CS.BlockHeaders.ChainTip()
			_, ft, _ := s.CS.RegFilterHeaders.ChainTip()
			if k >= 3 && bt == ft {
				break
			}
		}
		_, ft, _ := s.CS.RegFilterHeaders.ChainTip()
		for h := range o.hard {
			if ft >= h {
				v.Nontrivial = true
				v.Class("hard:height-committed")
			} else {
				v.Class("hard:height-not-reached")
			}
		}
		// Liars with a provable lie that was put on the wire while the
		// honest peer was there must be banned by now.
		for i, ps := range c.Peers {
			if i == 0 || !o.connected[i] {
				continue
			}
			p := s.Peers[i]
			if p.HasLied() {
				v.Nontrivial = true
				v.Class("lie-exercised:%s", ps.Kind)
			}
			// (ckptonly: a filter checkpoint its sender's own filter
			// headers do not add up to is provably false as well)
			if !(provable[ps.Kind] || ps.Kind == "ckptonly") || o.dropped[i] || !p.HasLied() || int(ft) < ps.From {
				continue
			}
			// A slow liar's answers can reach the client after the
			// query they belong to has timed out: the lie is on the
			// wire but was never looked at. Only liars that answer
			// promptly must have been caught.
			if ps.DelayMs > 200 {
				v.Class("slow-liar:no-ban-demanded")
				continue
			}
			if !s.CS.IsBanned(p.Addr.String()) {
				o.fail("liar-not-banned/"+ps.Kind, "peer %d (%s from height %d) served provably false filter data, the filter tip reached %d, but the peer is not banned", i, ps.Kind, ps.From, ft)
				return
			}
			v.Class("liar-banned:%s", ps.Kind)
		}
	})
	if res.Harness != "" {
		v.Harness = res.Harness
	}
	if res.Spin != "" {
		v.Class("abandoned:client-busy-loop")
	}
	return v
}

// silentCF drops every compact-filter related request.
func silentCF(p *netsim.Peer, m wire.Message) bool {
	switch m.Command() {
	case "getcfheaders", "getcfcheckpt", "getcfilters":
		return true
	}
	return false
}

func TestC03(t *testing.T) {
	kit.RunProp(t, kit.Prop[Case]{ID: "C03", Name: "netsim", Gen: genCase(false), Run: runCase})
}

func TestC03Big(t *testing.T) {
	kit.RunProp(t, kit.Prop[Case]{ID: "C03", Name: "netsim-checkpointed", Gen: genCase(true), Run: runCase})
}

func TestMain(m *testing.M) {
	code := m.Run()
	netsim.CleanupTemplates()
	os.Exit(code)
}
