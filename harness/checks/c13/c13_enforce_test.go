//go:build verif

// Part (b) of property C13: enforcement of bans by the running client.
//
// "Peers that do not offer witness and compact-filter service, or that serve a
// provably invalid block, filter header or filter checkpoint, are banned and
// disconnected, and the client does not keep a connection to a banned address"
// together with "an address banned for a duration is reported banned, with the
// recorded reason, by every query before the ban lapses and by none after it
// lapses or is lifted".
//
// The real ChainService runs in a netsim bubble against scripted peers of
// generated kinds (full service and honest, SFNodeWitness missing, SFNodeCF
// missing, both missing, provable filter-header liars, a sender of invalid
// blocks). A generated script connects and drops peers, moves the virtual
// clock (including jumps aimed at the instant an earlier ban lapses), and calls
// BanPeer / UnbanPeer / GetBlock on the client. After every event, once the
// bubble is quiescent, the oracle compares
//
//	CS.IsBanned(addr), Status(addr) of a second banman store on the client's
//	database, and CS.Peers()
//
// with an expected ban table that is built only from what the harness did and
// from what the peers' side of the wire saw (a connection spy installed through
// Config.Tweak notes every dial, the first byte the client writes on a
// connection and the instant the client has read a peer's version message).
//
// Rules (signatures C13/enforce/<name>):
//  1. no-service-peer-not-banned, wrong-reason, wrong-expiry: a peer lacking
//     SFNodeWitness or SFNodeCF whose version message the client has read is
//     banned with reason NoCompactFilters from that instant for 24h. The store
//     keeps whole seconds: in [floor(expiry), expiry) either answer is accepted.
//     no-service-peer-connected: such a peer is never in Peers() at quiescence.
//  2. banned-peer-connected: no address that is banned (by the expected table
//     or by the client's own IsBanned) is in Peers() at a quiescent point.
//     handshake-with-banned-address: the client does not start a handshake on a
//     connection whose dial completed while the address was certainly banned.
//  3. api-ban-not-reported / api-error / banned-after-unban: BanPeer and
//     UnbanPeer take effect at once, with the given reason.
//  4. ban-outlives-duration: 24h after the (last) ban IsBanned is false.
//     unbanned-peer-not-reconnected: a full-service, never misbehaving peer for
//     which a connection request exists is back in Peers() 12 virtual seconds
//     after its ban lapsed or was lifted (the connection manager redials a
//     reachable persistent peer every 5 s; generated handshakes take up to 3 s).
//  5. innocent-banned / banned-without-cause: a peer the table knows no ban for
//     is not reported banned.
//     invalid-block-sender-not-banned: a peer that answered a getdata with an
//     invalid block carrying the requested header is banned (InvalidBlock).
//     queries-disagree: IsBanned and Status of the second store agree.
//
// Filter-header liars that have put a lie on the wire are banned by the client
// at an instant the peers cannot observe; for them only consistency over time
// is demanded (ban-vanished-early: once reported banned, reported banned until
// 24h after the previous quiescent point at the earliest; reason is one of the
// filter-header reasons; expiry lies in the window) and rule 2.
//
// Domain restrictions (each one explained where it is implemented):
//   - liars are let in only after a truthful full-service peer has been asked
//     for headers (dial gate, as in C03/C04);
//   - while some liar has lied, a truthful peer whose session ended (or that a
//     netsim limitation keeps from answering) may be banned with a filter-header
//     reason as a non-responder: tolerated and classified, never demanded;
//   - events that would make the client hold two connection attempts to one
//     address at a time are skipped unless the case says dup_ok (the client
//     then keeps both sessions: BanPeer disconnects only one of them, see
//     testdata/enforce-second-connection-survives-ban.json, and the query work
//     manager can dereference nil, which would kill the test process);
//   - ConnectNode / UnbanPeer are kept 10 ms away from the end of a session of
//     the same address (C12's excluded same-instant reconnect);
//   - during the bulk of a jump of hours no peer accepts connections (cost).
//
// Every identifier of this file is prefixed with en ("enforce").
package c13

import (
	"bytes"
	"encoding/binary"
	"fmt"
	"net"
	"os"
	"strings"
	"sync"
	"sync/atomic"
	"testing"
	"time"

	"github.com/btcsuite/btcd/wire/v2"
	"github.com/lightninglabs/neutrino"
	"github.com/lightninglabs/neutrino/banman"
	"pgregory.net/rapid"

	"verifharness/kit"
	"verifharness/netsim"
)

// enBanFor is the ban duration the property speaks of (deliberately not read
// from the client's variable).
const enBanFor = 24 * time.Hour

// ---------------------------------------------------------------- the case

type enPeerSpec struct {
	// Kind: honest | nowit | nocf | none | inconsistent | unserved | omit | badblock
	Kind string `json:"kind"`
	// From: liars falsify filter hashes from this height on.
	From int `json:"from,omitempty"`
	// Early: dialled at start (persistent); otherwise only on a connect event.
	Early bool `json:"early,omitempty"`
	// SlowMs: the peer's first bytes (its version message) reach the client
	// this many virtual milliseconds after the connection was established, so
	// that events can fall into a handshake.
	SlowMs int64 `json:"slow_ms,omitempty"`
}

type enEvent struct {
	// Kind: connect | drop | advance | jump | ban | unban | getblock
	Kind string `json:"kind"`
	Peer int    `json:"peer,omitempty"`
	// advance: milliseconds; jump: offset in milliseconds from (ban of Peer +
	// 24h), the clock is moved to that instant if it lies ahead.
	Ms     int64 `json:"ms,omitempty"`
	Reason int   `json:"reason,omitempty"` // ban
	Height int   `json:"height,omitempty"` // getblock
}

func (e enEvent) String() string {
	switch e.Kind {
	case "advance":
		return fmt.Sprintf("advance %dms", e.Ms)
	case "jump":
		return fmt.Sprintf("jump to ban(p%d)+24h%+dms", e.Peer, e.Ms)
	case "ban":
		return fmt.Sprintf("BanPeer(p%d, reason %d)", e.Peer, e.Reason)
	case "unban":
		return fmt.Sprintf("UnbanPeer(p%d)", e.Peer)
	case "getblock":
		return fmt.Sprintf("GetBlock(height %d)", e.Height)
	}
	return fmt.Sprintf("%s p%d", e.Kind, e.Peer)
}

type enCase struct {
	World kit.WorldSpec `json:"world"`
	// The block-header store starts BlockLag blocks behind the peers, the
	// filter-header store FilterLag behind that.
	BlockLag  int `json:"block_lag"`
	FilterLag int `json:"filter_lag"`
	// StartMs is slept before the first event (moves the events off whole
	// seconds; the store keeps whole seconds).
	StartMs int64        `json:"start_ms"`
	Peers   []enPeerSpec `json:"peers"`
	Events  []enEvent    `json:"events"`
	// DupOK: events that make the client open a second connection to an
	// address while a first attempt is still under way are executed
	// (otherwise skipped). Before the repair 1697405 both connections became
	// peers: BanPeer disconnected only one of them, and the query work
	// manager, which keys its workers by address, dereferenced nil when one
	// of them ended. Generated in half of the cases (not with
	// C13_ENFORCE_NODUP=1).
	DupOK bool `json:"dup_ok,omitempty"`
}

var enFull = wire.SFNodeNetwork | wire.SFNodeWitness | wire.SFNodeCF

func enServices(kind string) wire.ServiceFlag {
	switch kind {
	case "nowit":
		return wire.SFNodeNetwork | wire.SFNodeCF
	case "nocf":
		return wire.SFNodeNetwork | wire.SFNodeWitness
	case "none":
		return wire.SFNodeNetwork
	}
	return enFull
}

func enIsLiar(kind string) bool {
	return kind == "inconsistent" || kind == "unserved" || kind == "omit"
}

func enGen(t *rapid.T) enCase {
	// Few distinct (world, prefill) combinations: each one costs a template
	// data directory.
	p := kit.ParamSpec{Retarget: 0, Spacing: 60, Adj: 4, VerFloor: 1}
	base := kit.Pick(t, "base", []int{12, 30})
	c := enCase{World: kit.WorldSpec{P: p, Seed: uint64(kit.Uni(t, "wseed", 2)), Base: base, Future: 0, Pace: 1, Tx: true}}
	c.BlockLag = kit.Pick(t, "blocklag", []int{0, 3})
	c.FilterLag = kit.Pick(t, "filterlag", []int{0, 4})
	c.StartMs = kit.Pick(t, "startms", []int64{0, 0, 250, 999})
	if os.Getenv("C13_ENFORCE_NODUP") != "1" {
		c.DupOK = kit.Uni(t, "dupok", 2) == 0
	}
	maxEvents := 14
	if kit.Thorough() {
		maxEvents = 28
	}
	np := rapid.IntRange(2, 6).Draw(t, "npeers")
	kinds := []string{"honest", "honest", "honest", "nowit", "nowit", "nocf", "nocf", "none", "inconsistent", "unserved", "omit", "badblock"}
	fp := base - c.BlockLag - c.FilterLag
	for i := 0; i < np; i++ {
		ps := enPeerSpec{Kind: kit.Pick(t, "pkind", kinds), Early: kit.Uni(t, "early", 3) != 0,
			SlowMs: kit.Pick(t, "slow", []int64{0, 0, 0, 0, 1500, 3000})}
		if enIsLiar(ps.Kind) {
			ps.From = fp + 1
			if fp+1 < base {
				ps.From = rapid.IntRange(fp+1, base).Draw(t, "from")
			}
		}
		c.Peers = append(c.Peers, ps)
	}
	ekinds := []string{"connect", "connect", "drop", "drop", "advance", "advance", "advance", "advance", "jump", "jump", "ban", "ban", "unban", "unban", "getblock"}
	c.Events = rapid.SliceOfN(rapid.Custom(func(t *rapid.T) enEvent {
		e := enEvent{Kind: kit.Pick(t, "ekind", ekinds)}
		switch e.Kind {
		case "connect", "drop", "unban":
			e.Peer = rapid.IntRange(0, np-1).Draw(t, "peer")
		case "ban":
			e.Peer = rapid.IntRange(0, np-1).Draw(t, "peer")
			e.Reason = kit.Pick(t, "reason", []int{1, 2, 3, 4, 5, 77})
		case "advance":
			e.Ms = kit.Pick(t, "ms", []int64{300, 1000, 1700, 5000, 6000, 11000, 30000, 120000, 600000})
		case "jump":
			e.Peer = rapid.IntRange(0, np-1).Draw(t, "peer")
			e.Ms = kit.Pick(t, "delta", []int64{-60000, -1000, -300, 0, 1000, 6000, 60000})
		case "getblock":
			e.Height = rapid.IntRange(1, base).Draw(t, "height")
		}
		return e
	}), 3, maxEvents).Draw(t, "events")
	return c
}

// ---------------------------------------------------------------- the model

type enBan struct {
	// The ban was placed at an instant in [lo, hi].
	lo, hi  time.Time
	reasons []banman.Reason // acceptable recorded reasons
	src     string          // version | api | block | observed
	// fuzzy: the client may renew the ban at instants the harness cannot
	// observe (filter-header liars): no "must not be banned" claim.
	fuzzy bool
}

const (
	enNot = iota
	enEither
	enBanned
)

// enStoredExpiry is the expiry the store keeps for a ban placed at t.
func enStoredExpiry(t time.Time) time.Time { return time.Unix(t.Add(enBanFor).Unix(), 0) }

func enState(b *enBan, now time.Time) int {
	if b == nil {
		return enNot
	}
	if now.Before(enStoredExpiry(b.lo)) {
		return enBanned
	}
	if !b.fuzzy && !now.Before(b.hi.Add(enBanFor)) {
		return enNot
	}
	return enEither
}

var enLieReasons = []banman.Reason{banman.InvalidFilterHeader, banman.InvalidFilterHeaderCheckpoint}

type enRun struct {
	v     *kit.Verdict
	c     enCase
	w     *kit.World
	s     *netsim.Sim
	store banman.Store
	idx   map[string]int

	// Shared with the connection spy and the peers' overrides (client and
	// peer goroutines).
	mu             sync.Mutex
	bans           []*enBan
	dials          []int
	versions       []int // version messages of the peer read by the client
	svcBans        []int
	sentBad        []bool
	dialsWhileBan  int
	spyViolation   string
	lapsedSpy      bool
	live, peakLive []int       // connections to the peer the client has spoken on and not closed
	open           []int       // connections to the peer the client has not closed
	lastClose      []time.Time // the client closed a connection to the peer
	lastLiveClose  []time.Time // ... one it had spoken on
	liveCloses     []int       // number of those
	// muted: the client turned down a further connection to the peer while a
	// session was alive. A netsim peer answers on its most recent session
	// only, so from then on the peer may be unable to answer requests.
	muted []bool

	gateOpen atomic.Bool // liars are let in

	// Harness goroutine only.
	everCut []bool // a session of the peer was cut (drop, ban) at some point
	wanted  []bool // a persistent connection request exists
	oneshot []bool // UnbanPeer issued a one-shot request
	// oneshotBase: liveCloses at that moment; a one-shot connection that
	// ended (for whatever reason) is not retried by the client.
	oneshotBase []int
	stableAt    []time.Time // last event that may delay a reconnect
	lastCheck   time.Time
	lifted      bool
	lapsed      bool
	classes     map[string]bool
}

func (r *enRun) class(format string, a ...any) {
	k := fmt.Sprintf(format, a...)
	r.mu.Lock()
	seen := r.classes[k]
	r.classes[k] = true
	r.mu.Unlock()
	if !seen {
		r.v.Class("%s", k)
	}
}

func (r *enRun) fail(sym, format string, a ...any) bool {
	r.v.Fail("C13/enforce/"+sym, format, a...)
	r.v.Logf("VIOLATION [%s] "+format, append([]any{sym}, a...)...)
	return false
}

func enVT(t time.Time) string {
	d := t.Sub(time.Unix(kit.Epoch, 0))
	return fmt.Sprintf("%.3fs", d.Seconds())
}

// clean: full services and no provable misbehaviour put on the wire so far.
func (r *enRun) clean(i int) bool {
	k := r.c.Peers[i].Kind
	if enServices(k) != enFull {
		return false
	}
	if enIsLiar(k) && r.s.Peers[i].HasLied() {
		return false
	}
	r.mu.Lock()
	defer r.mu.Unlock()
	return !r.sentBad[i]
}

// ---------------------------------------------------------------- the spy

// enSpy wraps the client's end of a connection.
type enSpy struct {
	net.Conn
	r            *enRun
	i            int
	bannedAtDial bool
	dialAt       time.Time

	mu      sync.Mutex
	buf     []byte
	done    bool // version seen (or stream not understood): stop parsing
	wrote   bool
	closed  bool
	delayed bool
}

func (c *enSpy) Close() error {
	c.mu.Lock()
	first := !c.closed
	live := c.wrote && first
	c.closed = true
	c.mu.Unlock()
	if first {
		c.r.mu.Lock()
		c.r.open[c.i]--
		c.r.lastClose[c.i] = time.Now()
		if live {
			c.r.live[c.i]--
			c.r.lastLiveClose[c.i] = time.Now()
			c.r.liveCloses[c.i]++
		} else if c.r.live[c.i] > 0 {
			c.r.muted[c.i] = true
		}
		c.r.mu.Unlock()
	}
	return c.Conn.Close()
}

func (c *enSpy) Write(p []byte) (int, error) {
	c.mu.Lock()
	first := !c.wrote && !c.closed
	if first {
		c.wrote = true
	}
	c.mu.Unlock()
	if first {
		// the client speaks on this connection: it counts as one of its
		// connections to the address until the client closes it
		c.r.mu.Lock()
		c.r.live[c.i]++
		if c.r.live[c.i] > c.r.peakLive[c.i] {
			c.r.peakLive[c.i] = c.r.live[c.i]
		}
		c.r.mu.Unlock()
	}
	if first && c.bannedAtDial {
		c.r.mu.Lock()
		if c.r.spyViolation == "" {
			c.r.spyViolation = fmt.Sprintf("the client starts a handshake with peer %d (%s) on a connection established at %s, while the address was banned", c.i, c.r.c.Peers[c.i].Kind, enVT(c.dialAt))
		}
		c.r.mu.Unlock()
	}
	return c.Conn.Write(p)
}

func (c *enSpy) Read(p []byte) (int, error) {
	c.mu.Lock()
	wait := !c.delayed
	c.delayed = true
	c.mu.Unlock()
	if d := c.r.c.Peers[c.i].SlowMs; wait && d > 0 {
		time.Sleep(time.Duration(d) * time.Millisecond)
	}
	n, err := c.Conn.Read(p)
	if n > 0 {
		c.feed(p[:n])
	}
	return n, err
}

// feed follows the message framing of the bytes the client has read until the
// peer's version message has passed completely.
func (c *enSpy) feed(b []byte) {
	c.mu.Lock()
	if c.done {
		c.mu.Unlock()
		return
	}
	c.buf = append(c.buf, b...)
	seen := false
	for len(c.buf) >= 24 {
		plen := int(binary.LittleEndian.Uint32(c.buf[16:20]))
		if plen > 4<<20 {
			c.done = true
			break
		}
		if len(c.buf) < 24+plen {
			break
		}
		cmd := string(bytes.TrimRight(c.buf[4:16], "\x00"))
		c.buf = c.buf[24+plen:]
		if cmd == "version" {
			seen = true
			c.done = true
			c.buf = nil
			break
		}
	}
	c.mu.Unlock()
	if seen {
		c.r.versionRead(c.i)
	}
}

// versionRead: the client has read the version message of peer i (its
// OnVersion callback runs at this virtual instant).
func (r *enRun) versionRead(i int) {
	now := time.Now()
	kind := r.c.Peers[i].Kind
	r.mu.Lock()
	r.versions[i]++
	again, ranOut := false, false
	if enServices(kind) != enFull {
		again = r.svcBans[i] > 0
		r.svcBans[i]++
		// An earlier ban that ran out between two quiescent points is
		// replaced here before check() sees it lapse.
		if old := r.bans[i]; old != nil && enState(old, now) == enNot {
			ranOut = true
			r.lapsedSpy = true
		}
		r.bans[i] = &enBan{lo: now, hi: now, reasons: []banman.Reason{banman.NoCompactFilters}, src: "version"}
	}
	r.mu.Unlock()
	if enServices(kind) != enFull {
		r.v.Logf("  %s: client read the version message of p%d (%s): ban expected", enVT(now), i, kind)
		r.class("ban:%s", kind)
		if again {
			r.class("ban-again-after-lapse-or-unban")
		}
		if ranOut {
			r.class("lapse")
			r.class("lapse:version-then-banned-again")
		}
	}
}

func (r *enRun) dialed(i int, c net.Conn) net.Conn {
	now := time.Now()
	r.mu.Lock()
	r.dials[i]++
	r.open[i]++
	banned := enState(r.bans[i], now) == enBanned
	if banned {
		r.dialsWhileBan++
	}
	r.mu.Unlock()
	if banned {
		r.class("reconnect-while-banned")
	}
	// "Certainly banned" for the no-handshake rule: the ban must have been
	// placed strictly before this virtual instant. A dial that completes in
	// the very instant the ban is placed (a second connection racing the
	// first one's version message) is not ordered with respect to it.
	r.mu.Lock()
	certain := banned && r.bans[i] != nil && r.bans[i].hi.Before(now)
	r.mu.Unlock()
	return &enSpy{Conn: c, r: r, i: i, bannedAtDial: certain, dialAt: now}
}

// ---------------------------------------------------------------- the oracle

func enHas(list []banman.Reason, x banman.Reason) bool {
	for _, y := range list {
		if x == y {
			return true
		}
	}
	return false
}

// check evaluates every rule at a quiescent point.
func (r *enRun) check(when string) bool {
	s := r.s
	now := time.Now()
	prev := r.lastCheck
	r.lastCheck = now

	r.mu.Lock()
	sv := r.spyViolation
	r.mu.Unlock()
	if sv != "" {
		return r.fail("handshake-with-banned-address", "%s: %s", when, sv)
	}

	connected := map[int]int{}
	for _, sp := range s.CS.Peers() {
		if i, ok := r.idx[sp.Addr()]; ok {
			connected[i]++
		}
	}
	anyLied := false
	for i, p := range s.Peers {
		if enIsLiar(r.c.Peers[i].Kind) && p.HasLied() {
			anyLied = true
		}
	}
	var line []string
	for i, p := range s.Peers {
		kind := r.c.Peers[i].Kind
		addr := p.Addr.String()
		got := s.CS.IsBanned(addr)
		ipn, err := banman.ParseIPNet(addr, nil)
		if err != nil {
			r.v.Harness = "ParseIPNet of a peer address: " + err.Error()
			return false
		}
		st, err := r.store.Status(ipn)
		if err != nil {
			return r.fail("status-error", "%s: Status(%s) fails: %v", when, addr, err)
		}
		if st.Banned != got {
			return r.fail("queries-disagree", "%s: peer %d (%s): IsBanned = %v but Status of a second store on the same database says banned = %v (reason %d, expiry %s)", when, i, kind, got, st.Banned, st.Reason, enVT(st.Expiration))
		}

		r.mu.Lock()
		b := r.bans[i]
		nver := r.versions[i]
		r.mu.Unlock()
		liedLiar := enIsLiar(kind) && p.HasLied()
		// While peers disagree on filter headers the client asks every
		// peer for the filter behind its claim and bans, with a
		// filter-header reason, each one that does not answer (blockmanager.go
		// detectBadPeers: "If a peer did not respond, ban it immediately").
		// A truthful peer whose session was cut (dropped by the script,
		// banned through the API or for an invalid block) in the middle of
		// such a dispute (or that cannot answer, see muted) looks exactly like
		// a liar that withholds its filter.
		// This is the client's documented behaviour; the instant is not
		// observable from the peers.
		r.mu.Lock()
		muted := r.muted[i]
		closes := r.liveCloses[i]
		r.mu.Unlock()
		if r.oneshot[i] && closes > r.oneshotBase[i] {
			r.oneshot[i] = false
		}
		inDispute := !liedLiar && enServices(kind) == enFull && anyLied && (r.everCut[i] || closes > 0 || muted || (b != nil && b.src == "block"))
		if b != nil && (liedLiar || inDispute) {
			b.fuzzy = true
		}
		state := enState(b, now)

		// A ban that has run out leaves the table.
		if b != nil && state == enNot {
			r.v.Logf("  ban of p%d (%s, placed at %s) has lapsed", i, b.src, enVT(b.hi))
			r.class("lapse")
			r.class("lapse:%s", b.src)
			r.lapsed = true
			if t := b.hi.Add(enBanFor); t.After(r.stableAt[i]) {
				r.stableAt[i] = t
			}
			r.mu.Lock()
			if r.bans[i] == b {
				r.bans[i] = nil
			}
			r.mu.Unlock()
			b = nil
		}
		if b != nil {
			r.oneshot[i] = false
		}

		switch state {
		case enBanned:
			if !got {
				switch b.src {
				case "version":
					return r.fail("no-service-peer-not-banned", "%s: peer %d advertises services %v; the client read its version message at %s but does not report the address banned at %s", when, i, p.Services, enVT(b.lo), enVT(now))
				case "api":
					return r.fail("api-ban-not-reported", "%s: BanPeer(peer %d) was called at %s, the ban is not reported at %s", when, i, enVT(b.lo), enVT(now))
				case "block":
					return r.fail("invalid-block-sender-not-banned", "%s: peer %d answered a getdata with an invalid block carrying the requested header at %s and is not reported banned at %s", when, i, enVT(b.lo), enVT(now))
				default:
					return r.fail("ban-vanished-early", "%s: peer %d (%s) was reported banned at %s (not banned at the quiescent point %s before that, no UnbanPeer since) and is no longer reported banned at %s, less than 24h later", when, i, kind, enVT(b.hi), enVT(b.lo), enVT(now))
				}
			}
		case enNot:
			if got {
				switch {
				case inDispute && enHas(enLieReasons, st.Reason):
					nb := &enBan{lo: prev, hi: now, reasons: enLieReasons, src: "observed", fuzzy: true}
					r.mu.Lock()
					r.bans[i] = nb
					r.mu.Unlock()
					b = nb
					state = enBanned
					r.class("tolerated:cut-off-peer-banned-in-filter-header-dispute")
					r.v.Logf("  p%d (%s) was cut off while filter headers were disputed and is banned (reason %d)", i, kind, st.Reason)
				case liedLiar:
					// Banned by the client for its lie at an instant in
					// (prev, now]; from here on only stability is demanded.
					if !enHas(enLieReasons, st.Reason) {
						return r.fail("wrong-reason", "%s: peer %d (%s) has served false filter headers and nothing else; it is banned with reason %d (%v)", when, i, kind, st.Reason, st.Reason)
					}
					lo := prev
					nb := &enBan{lo: lo, hi: now, reasons: enLieReasons, src: "observed", fuzzy: true}
					r.mu.Lock()
					r.bans[i] = nb
					r.mu.Unlock()
					b = nb
					state = enBanned
					r.class("ban:filter-header")
					r.class("ban:filter-header:%s", kind)
					r.v.Logf("  p%d (%s) found banned for its lie (reason %d)", i, kind, st.Reason)
				case enServices(kind) != enFull:
					return r.fail("banned-without-cause", "%s: peer %d (%s) is reported banned (reason %d, expiry %s) at %s although no ban is due: the client read %d version messages of it, the last ban (if any) has lapsed or was lifted", when, i, kind, st.Reason, enVT(st.Expiration), enVT(now), nver)
				case r.clean(i):
					return r.fail("innocent-banned", "%s: peer %d (%s, full services, no misbehaviour on the wire) is reported banned (reason %d, expiry %s) at %s; no ban by the script is in force", when, i, kind, st.Reason, enVT(st.Expiration), enVT(now))
				default:
					return r.fail("ban-outlives-duration", "%s: peer %d (%s) is reported banned (reason %d, expiry %s) at %s although its last ban has lapsed or was lifted", when, i, kind, st.Reason, enVT(st.Expiration), enVT(now))
				}
			}
		}
		if got && b != nil {
			ok := enHas(b.reasons, st.Reason) || (b.fuzzy && enHas(enLieReasons, st.Reason))
			if !ok {
				return r.fail("wrong-reason", "%s: peer %d (%s) is banned with recorded reason %d (%v); expected one of %v (ban through %s at %s)", when, i, kind, st.Reason, st.Reason, b.reasons, b.src, enVT(b.lo))
			}
			elo, ehi := enStoredExpiry(b.lo), enStoredExpiry(b.hi)
			if !b.fuzzy && (st.Expiration.Before(elo) || st.Expiration.After(ehi)) {
				return r.fail("wrong-expiry", "%s: peer %d (%s) banned through %s at %s: recorded expiry %s, expected %s", when, i, kind, b.src, enVT(b.lo), enVT(st.Expiration), enVT(elo))
			}
			if b.fuzzy && st.Expiration.Before(elo) {
				return r.fail("wrong-expiry", "%s: peer %d (%s) banned at %s or later: recorded expiry %s is earlier than %s", when, i, kind, enVT(b.lo), enVT(st.Expiration), enVT(elo))
			}
		}
		if state == enEither {
			r.class("subsecond-window-or-unobservable")
		}

		// No connection is kept to a banned address.
		if connected[i] > 0 && (got || state == enBanned) {
			r.mu.Lock()
			peak := r.peakLive[i]
			r.mu.Unlock()
			sym := "banned-peer-connected"
			if peak > 1 {
				// BanPeer disconnects the first connection PeerByAddr finds
				sym += "/several-connections-to-the-address"
			}
			return r.fail(sym, "%s: peer %d (%s) is banned (IsBanned = %v, expected table: %v) and is in Peers() %d times at a quiescent point (%s); the client had up to %d connections to the address at a time", when, i, kind, got, state == enBanned, connected[i], enVT(now), peak)
		}
		if connected[i] > 0 && enServices(kind) != enFull {
			return r.fail("no-service-peer-connected", "%s: peer %d advertises services %v and is in Peers() at a quiescent point (%s)", when, i, p.Services, enVT(now))
		}

		// A reachable, innocent, unbanned peer the client wants is connected.
		r.mu.Lock()
		llc := r.lastLiveClose[i]
		r.mu.Unlock()
		if state == enNot && !got && (r.wanted[i] || r.oneshot[i]) && !p.Refusing() && !enIsLiar(kind) && r.clean(i) &&
			!now.Before(r.stableAt[i].Add(12*time.Second)) && !now.Before(llc.Add(12*time.Second)) {
			if connected[i] == 0 {
				return r.fail("unbanned-peer-not-reconnected", "%s: peer %d (%s) is not banned, reachable, wanted by a connection request and undisturbed since %s, but is not in Peers() at %s", when, i, kind, enVT(r.stableAt[i]), enVT(now))
			}
			r.class("connected-as-expected")
		}

		f := "-"
		if got {
			f = "B"
		}
		cn := "."
		if connected[i] > 0 {
			cn = "C"
		}
		line = append(line, fmt.Sprintf("p%d:%s%s", i, f, cn))
	}
	r.v.Logf("%-44s vt=%s %s", when, enVT(now), strings.Join(line, " "))
	return true
}

// ---------------------------------------------------------------- the run

func enCorrupt(b *wire.MsgBlock) *wire.MsgBlock {
	var buf bytes.Buffer
	_ = b.Serialize(&buf)
	var out wire.MsgBlock
	_ = out.Deserialize(&buf)
	// the transaction list no longer reproduces the merkle root
	last := out.Transactions[len(out.Transactions)-1]
	last.TxOut[0].Value++
	return &out
}

func enRunCase(t *testing.T, c enCase) kit.Verdict {
	var v kit.Verdict
	w := kit.BuildWorld(c.World)
	np := len(c.Peers)
	r := &enRun{v: &v, c: c, w: w, idx: map[string]int{}, classes: map[string]bool{},
		bans: make([]*enBan, np), dials: make([]int, np), versions: make([]int, np), svcBans: make([]int, np), sentBad: make([]bool, np), live: make([]int, np), peakLive: make([]int, np), open: make([]int, np), lastClose: make([]time.Time, np), lastLiveClose: make([]time.Time, np), liveCloses: make([]int, np), oneshotBase: make([]int, np), muted: make([]bool, np),
		everCut: make([]bool, np), wanted: make([]bool, np), oneshot: make([]bool, np), stableAt: make([]time.Time, np)}
	tip := w.Br[0].Tip()
	path := tip.Path()
	prefill := c.World.Base - c.BlockLag
	cfg := netsim.Config{World: w, NumPeers: np, Prefill: prefill}
	if c.FilterLag > 0 {
		cfg.PrefillFilterTip = prefill - c.FilterLag
	}
	for i, ps := range c.Peers {
		v.Class("peer:%s", ps.Kind)
		if ps.Early {
			cfg.Initial = append(cfg.Initial, i)
			r.wanted[i] = true
		}
	}
	// A filter-header liar that is the client's only source for a while gets
	// its filter headers committed unopposed; an honest peer arriving later is
	// then banned for a "wrong previous filter header" (blockmanager.go,
	// getUncheckpointedCFHeaders). Neither C03 nor this property excludes that,
	// so, as in C03/C04, liars are let in only once a truthful full-service
	// peer has been asked for headers. (The gate is created inside the bubble.)
	var gate chan struct{}
	var gateOnce sync.Once
	openGate := func() {
		gateOnce.Do(func() {
			r.gateOpen.Store(true)
			if gate != nil {
				close(gate)
			}
		})
	}
	cfg.AfterStart = func(*netsim.Sim) { gate = make(chan struct{}) }
	cfg.DialGate = func(i int) <-chan struct{} {
		if enIsLiar(c.Peers[i].Kind) {
			return gate
		}
		return nil
	}
	cfg.Tweak = func(nc *neutrino.Config) {
		orig := nc.Dialer
		nc.Dialer = func(a net.Addr) (net.Conn, error) {
			conn, err := orig(a)
			if err != nil {
				return nil, err
			}
			i, ok := r.idx[a.String()]
			if !ok {
				return conn, nil
			}
			return r.dialed(i, conn), nil
		}
	}
	setup := func(s *netsim.Sim) {
		r.s = s
		for i, ps := range c.Peers {
			p := s.Peers[i]
			r.idx[p.Addr.String()] = i
			p.Services = enServices(ps.Kind)
			p.SetView(tip, false)
			switch {
			case enIsLiar(ps.Kind):
				p.LieCFFrom, p.LieCFKind = int32(ps.From), ps.Kind
			case ps.Kind == "honest":
				p.Override = func(p *netsim.Peer, m wire.Message) bool {
					if _, ok := m.(*wire.MsgGetHeaders); ok {
						openGate()
					}
					return false
				}
			case ps.Kind == "badblock":
				pi := i
				p.Override = func(p *netsim.Peer, m wire.Message) bool {
					if _, ok := m.(*wire.MsgGetHeaders); ok {
						openGate()
					}
					g, ok := m.(*wire.MsgGetData)
					if !ok {
						return false
					}
					for _, iv := range g.InvList {
						n := w.ByHash[iv.Hash]
						if n == nil || (iv.Type != wire.InvTypeWitnessBlock && iv.Type != wire.InvTypeBlock) {
							continue
						}
						now := time.Now()
						// (netsim peers write on their most recent
						// session only; after a dial the client turned
						// down at once there is none to write on)
						if !p.Send(enCorrupt(n.Block)) {
							r.v.Logf("  %s: p%d cannot answer getdata(block %d): no current session", enVT(now), pi, n.Height)
							continue
						}
						r.mu.Lock()
						r.sentBad[pi] = true
						r.bans[pi] = &enBan{lo: now, hi: now, reasons: []banman.Reason{banman.InvalidBlock}, src: "block"}
						r.mu.Unlock()
						r.v.Logf("  %s: p%d answers getdata(block %d) with an invalid block: ban expected", enVT(now), pi, n.Height)
						r.class("ban:invalid-block")
					}
					return true
				}
			}
		}
	}
	res := netsim.Run(t, cfg, setup, func(s *netsim.Sim) {
		// no dialer stays parked at the gate when the client is stopped
		defer func() {
			openGate()
			s.Settle()
		}()
		start := time.Now()
		for i := range r.stableAt {
			r.stableAt[i] = start
		}
		r.lastCheck = start
		store, err := banman.NewStore(s.DB)
		if err != nil {
			v.Harness = "second ban store: " + err.Error()
			return
		}
		r.store = store
		if !r.check("after start") {
			return
		}
		if c.StartMs > 0 {
			if !s.Advance(time.Duration(c.StartMs) * time.Millisecond) {
				return
			}
		}
		for k, e := range c.Events {
			if e.Peer < 0 || e.Peer >= np {
				continue
			}
			now := time.Now()
			p := s.Peers[e.Peer]
			addr := p.Addr.String()
			v.Logf("event %d at %s: %s", k, enVT(now), e)
			if (e.Kind == "connect" && !r.wanted[e.Peer] || e.Kind == "unban") && !c.DupOK && r.wouldDuplicate(e.Peer, e.Kind) {
				v.Logf("  skipped: a connection attempt to p%d is under way, the client would open a second connection to the address", e.Peer)
				r.class("skipped:would-open-a-second-connection")
				continue
			}
			if e.Kind == "connect" && !r.wanted[e.Peer] || e.Kind == "unban" {
				// The query work manager keys its workers by address; an
				// address that reconnects in the very instant its previous
				// session ended confuses it (the schedule C12 excludes; the
				// client's own redials come 5 s later). ConnectNode dials
				// at once, so it is kept 10 ms away from the end of a
				// session.
				r.mu.Lock()
				same := r.lastClose[e.Peer].Equal(now)
				r.mu.Unlock()
				if same {
					if !s.Advance(10 * time.Millisecond) {
						return
					}
					now = time.Now()
					r.class("paused:no-reconnect-in-the-instant-of-disconnect")
				}
			}
			switch e.Kind {
			case "connect":
				if !r.wanted[e.Peer] {
					if err := s.Connect(e.Peer); err == nil {
						r.wanted[e.Peer] = true
					} else {
						v.Logf("  ConnectNode: %v", err)
					}
					r.stableAt[e.Peer] = now
				}
			case "drop":
				p.Disconnect()
				r.everCut[e.Peer] = true
				r.oneshot[e.Peer] = false
				r.stableAt[e.Peer] = now
			case "advance":
				if !s.Advance(time.Duration(e.Ms) * time.Millisecond) {
					return
				}
			case "jump":
				if !r.jump(e) {
					return
				}
			case "ban":
				err := s.CS.BanPeer(addr, banman.Reason(e.Reason))
				if err != nil {
					r.fail("api-error", "BanPeer(%s, %d) fails: %v", addr, e.Reason, err)
					return
				}
				nb := &enBan{lo: now, hi: now, reasons: []banman.Reason{banman.Reason(e.Reason)}, src: "api"}
				r.mu.Lock()
				r.bans[e.Peer] = nb
				r.mu.Unlock()
				r.stableAt[e.Peer] = now
				r.everCut[e.Peer] = true
				r.class("api-ban")
			case "unban":
				// The table is cleared first: UnbanPeer dials at once and a
				// peer without the service bits is banned again right away.
				r.mu.Lock()
				was := enState(r.bans[e.Peer], now) != enNot
				r.bans[e.Peer] = nil
				r.mu.Unlock()
				err := s.CS.UnbanPeer(addr, false)
				if err != nil {
					// documented: connecting an already connected
					// persistent peer is an error
					v.Logf("  UnbanPeer: %v", err)
				} else {
					r.oneshot[e.Peer] = true
					r.mu.Lock()
					r.oneshotBase[e.Peer] = r.liveCloses[e.Peer]
					r.mu.Unlock()
				}
				r.stableAt[e.Peer] = now
				r.class("api-unban")
				if was {
					r.lifted = true
					r.class("api-unban:lifts-a-ban")
				}
			case "getblock":
				if !r.getBlock(path[e.Height]) {
					return
				}
			}
			if !s.Settle() {
				return
			}
			if !r.check(fmt.Sprintf("after event %d %s", k, e)) {
				return
			}
		}
		// Wind down: let pending reconnects happen.
		for k := 0; k < 2; k++ {
			if !s.Advance(7 * time.Second) {
				return
			}
			if !r.check(fmt.Sprintf("wind-down %d", k)) {
				return
			}
		}
	})
	if res.Harness != "" {
		v.Harness = res.Harness
	}
	if res.Spin != "" {
		v.Class("abandoned:client-busy-loop")
	}
	r.mu.Lock()
	svc := 0
	for _, n := range r.svcBans {
		svc += n
	}
	dwb := r.dialsWhileBan
	if r.lapsedSpy {
		r.lapsed = true
	}
	r.mu.Unlock()
	v.Count("service_bit_bans", svc)
	v.Count("dials_while_banned", dwb)
	v.Nontrivial = svc > 0 && (r.lapsed || r.lifted || dwb > 0)
	return v
}

// wouldDuplicate reports whether a ConnectNode for peer i (through a connect
// or unban event) may lead to two simultaneous sessions with the address: the
// client refuses a new connection only to an address whose handshake is
// complete.
func (r *enRun) wouldDuplicate(i int, kind string) bool {
	ps := r.c.Peers[i]
	addr := r.s.Peers[i].Addr.String()
	established := false
	for _, sp := range r.s.CS.Peers() {
		if sp.Addr() == addr {
			established = true
		}
	}
	if established {
		return false
	}
	r.mu.Lock()
	open := r.open[i]
	r.mu.Unlock()
	if open > 0 {
		return true // a handshake is in progress
	}
	if enIsLiar(ps.Kind) && !r.gateOpen.Load() && (r.wanted[i] || r.oneshot[i]) {
		return true // a dial is parked at the gate
	}
	// UnbanPeer dials at once; with a slow handshake the persistent
	// request's next retry (at most 5 s away) starts a second one.
	return kind == "unban" && r.wanted[i] && ps.SlowMs > 0
}

// jump moves the clock to (ban of e.Peer + 24h + e.Ms); if that peer has no
// ban, the most recent ban of any peer is used. During the bulk of a long jump
// no peer accepts connections (the connection manager would otherwise redial
// every banned persistent peer every five seconds of the day).
func (r *enRun) jump(e enEvent) bool {
	s := r.s
	now := time.Now()
	r.mu.Lock()
	b := r.bans[e.Peer]
	if b == nil {
		for _, x := range r.bans {
			if x != nil && (b == nil || x.lo.After(b.lo)) {
				b = x
			}
		}
	}
	var target time.Time
	if b != nil {
		target = b.lo.Add(enBanFor).Add(time.Duration(e.Ms) * time.Millisecond)
	}
	r.mu.Unlock()
	if b == nil || !target.After(now) {
		r.class("jump:nothing-to-aim-at")
		return s.Advance(90 * time.Second)
	}
	r.class("jump")
	r.class("jump:%+dms", e.Ms)
	d := target.Sub(now)
	const tail = 330 * time.Second
	if d > 3*tail {
		for _, p := range s.Peers {
			p.SetRefuse(true)
		}
		bulk := d - tail
		// in pieces: the busy-loop guard counts per quiescence wait
		for bulk > 0 {
			step := bulk
			if step > 2*time.Hour {
				step = 2 * time.Hour
			}
			if !s.Advance(step) {
				return false
			}
			bulk -= step
		}
		for _, p := range s.Peers {
			p.SetRefuse(false)
		}
		// After a day of refused dials the retry interval is at its cap
		// (five minutes).
		t := time.Now().Add(5 * time.Minute)
		for i := range r.stableAt {
			if t.After(r.stableAt[i]) {
				r.stableAt[i] = t
			}
		}
		d = target.Sub(time.Now())
	}
	return s.Advance(d)
}

// getBlock calls GetBlock on a goroutine of its own and gives it some
// virtual seconds; a call that is still waiting then (no peer serves the
// block) ends when the client stops.
func (r *enRun) getBlock(n *kit.Node) bool {
	s := r.s
	done := make(chan error, 1)
	go func() {
		_, err := s.CS.GetBlock(n.Hash, neutrino.NumRetries(2))
		done <- err
	}()
	for k := 0; k < 6; k++ {
		if !s.Settle() {
			return false
		}
		select {
		case err := <-done:
			r.v.Logf("  GetBlock(%d) -> %v", n.Height, err)
			return true
		default:
		}
		if !s.Advance(3 * time.Second) {
			return false
		}
	}
	r.class("getblock:still-waiting")
	return true
}

func TestC13Enforce(t *testing.T) {
	defer netsim.CleanupTemplates()
	kit.RunProp(t, kit.Prop[enCase]{ID: "C13", Name: "enforce", Gen: enGen, Run: enRunCase})
}
