package c13

// Native fuzz target for property C13 (store part): for arbitrary address
// text and mask bytes, banman.ParseIPNet never panics, accepts exactly the IP
// literals (with an optional port), yields the reference network, and the
// network survives the store's key encoding: text -> ParseIPNet -> encode (by
// BanIPNet, into a real database) -> reference decode of the raw key -> the
// same network, which in turn names the same record. Run by the driver in the
// thorough tier only (-test.fuzz FuzzC13ParseIPNet); without -test.fuzz only
// the seed corpus below is executed.

import (
	"bytes"
	"errors"
	"net"
	"net/netip"
	"os"
	"testing"
	"time"

	"github.com/btcsuite/btcwallet/walletdb"
	"github.com/lightninglabs/neutrino/banman"
)

func bsFuzzPurge(db walletdb.DB) error {
	recs, orphans, err := bsRawScan(db)
	if err != nil || len(recs)+len(orphans) == 0 {
		return err
	}
	return walletdb.Update(db, func(tx walletdb.ReadWriteTx) error {
		top := tx.ReadWriteBucket([]byte("ban-store"))
		bi := top.NestedReadWriteBucket([]byte("ban-index"))
		ri := top.NestedReadWriteBucket([]byte("reason-index"))
		for _, r := range recs {
			if err := bi.Delete(r.key); err != nil {
				return err
			}
			if err := ri.Delete(r.key); err != nil {
				return err
			}
		}
		for _, k := range orphans {
			if err := ri.Delete(k); err != nil {
				return err
			}
		}
		return nil
	})
}

func FuzzC13ParseIPNet(f *testing.F) {
	// seed corpus: every spelling of a few addresses, with and without masks;
	// hostile texts; hostile masks
	seedAddrs := []string{"1.2.3.4", "0.0.0.0", "255.255.255.255", "::1", "::", "2001:db8::1", "fe80::1",
		"2001:db8:0:0:1::1", "::102:304", "1::ffff:102:304", "ffff:ffff:ffff:ffff:ffff:ffff:ffff:ffff"}
	seedMasks := []string{"nil", "full", "net", "zero", "noncontig", "v4in16full", "v4in16net", "bad-empty", "bad-short", "bad-fam"}
	for i, s := range seedAddrs {
		a := netip.MustParseAddr(s)
		for st := 0; st < 12; st++ {
			text, _ := bsSpell(a, st, []int{8333, 0, 65535}[st%3])
			m := bsMask(seedMasks[(i+st)%len(seedMasks)], a.Is4())
			f.Add(text, []byte(m), m == nil)
			f.Add(text, []byte(nil), true)
		}
	}
	for _, j := range bsJunk {
		f.Add(j, []byte(nil), true)
		f.Add(j, []byte{0xff, 0xff, 0xff, 0x00}, false)
	}
	for _, extra := range []string{"01.2.3.4", "1.2.3.04", "0.0.0.00", "1.2.3.4:", "[1.2.3.4]:80", "[::1]", "[::1]:", "::1%eth0",
		"[fe80::1%eth0]:8333", "fe80::1%eth0%eth1:80", "::ffff:1.2.3.4%x", "::FFFF:255.255.255.255", "0:0:0:0:0:ffff:102:304",
		"::ffff:0:0", "::fffe:1.2.3.4", "1.2.3.4:65536", "1.2.3.4:-1", "[::]:0", "2001:DB8::A:b", "1:2:3:4:5:6:7::", "::2:3:4:5:6:7:8",
		"1:2:3:4:5:6:7:8", "1:2:3:4:5:6:1.2.3.4", "::1.2.3.4", "1::1.2.3.4", "00001::", "0001::", "1.2.3.4:http"} {
		f.Add(extra, []byte(nil), true)
		f.Add(extra, bsRep(0xff, 16), false)
		f.Add(extra, bsRep(0xff, 4), false)
	}
	f.Add("1.2.3.4", append(bsRep(0, 10), bsRep(0xff, 6)...), false) // IPv4 + 16-byte mask without the all-ones prefix
	f.Add("1.2.3.4", bsRep(0xf0, 16), false)
	f.Add("2001:db8::1", bsRep(0xff, 17), false)
	f.Add("2001:db8::1", []byte{}, false)

	dir, err := os.MkdirTemp(bsTmpRoot(), "c13-fuzz-")
	if err != nil {
		f.Fatalf("HARNESS-ERROR mkdtemp: %v", err)
	}
	db, err := bsOpenDB(dir, true)
	if err != nil {
		os.RemoveAll(dir)
		f.Fatalf("HARNESS-ERROR create db: %v", err)
	}
	f.Cleanup(func() {
		db.Close()
		os.RemoveAll(dir)
	})
	store, err := banman.NewStore(db)
	if err != nil {
		f.Fatalf("HARNESS-ERROR NewStore: %v", err)
	}

	f.Fuzz(func(t *testing.T, addr string, mask []byte, noMask bool) {
		var m net.IPMask
		if !noMask {
			m = net.IPMask(append([]byte{}, mask...)) // non-nil, possibly empty
		}
		// A panic anywhere below is reported by the fuzzing engine as a crash.
		n, err := banman.ParseIPNet(addr, m)

		ref, zone, isIP := bsRefHost(addr)
		if !isIP {
			if err == nil {
				t.Fatalf("C13/parse/junk-accepted: ParseIPNet(%q, %x) = %v without an error", addr, []byte(m), n)
			}
			if !errors.Is(err, banman.ErrUnsupportedIP) {
				t.Fatalf("C13/parse/junk-error-kind: ParseIPNet(%q) fails with %v, documented error is ErrUnsupportedIP", addr, err)
			}
			return
		}
		if err != nil {
			if zone {
				return // a zoned literal is not a plain IP address: rejecting it is allowed
			}
			t.Fatalf("C13/parse/rejected-valid: ParseIPNet(%q [= %v], %x) fails: %v", addr, ref, []byte(m), err)
		}
		if n == nil {
			t.Fatalf("C13/parse/nil-without-error: ParseIPNet(%q, %x) returns nil, nil", addr, []byte(m))
		}
		key, _, supported := bsRefKey(ref, m)
		// An IPv4 address with a 16-byte mask that does not start with 96 one
		// bits is not pinned by the property (the code turns it into an IPv6
		// network): only self-consistency of the round trip is required.
		unpinned := ref.Is4() && len(m) == 16 && !bsAllFF(m[:12])
		if supported {
			if k, ok := bsNetKey(n); !ok || k != key {
				t.Fatalf("C13/parse/wrong-network: ParseIPNet(%q [= %v], %x) = ip %x mask %x, want network %s", addr, ref, []byte(m), []byte(n.IP), []byte(n.Mask), key)
			}
			if m == nil && !n.Contains(net.IP(ref.AsSlice())) {
				t.Fatalf("C13/parse/wrong-network: default network %v does not contain %v", n, ref)
			}
		}

		if err := bsFuzzPurge(db); err != nil {
			t.Fatalf("HARNESS-ERROR purge: %v", err)
		}
		err = store.BanIPNet(n, banman.InvalidBlock, time.Hour)
		if !supported && !unpinned {
			if err == nil {
				t.Fatalf("C13/unsupported-accepted/ban: BanIPNet of %q with mask %x (length does not fit the family) succeeds; ParseIPNet gave ip %x", addr, []byte(m), []byte(n.IP))
			}
			return
		}
		if err != nil {
			if unpinned {
				return
			}
			t.Fatalf("C13/op-error/ban: BanIPNet(%v) fails: %v", n, err)
		}
		recs, orphans, rerr := bsRawScan(db)
		if rerr != nil {
			t.Fatalf("HARNESS-ERROR raw scan: %v", rerr)
		}
		if len(recs) != 1 || len(orphans) != 0 || len(recs[0].reason) != 1 || recs[0].reason[0] != byte(banman.InvalidBlock) {
			t.Fatalf("C13/raw/one-ban-one-record: after one ban of %v the indexes hold %d records, %d orphan reasons: %+v", n, len(recs), len(orphans), recs)
		}
		n2, derr := bsDecodeRawKey(recs[0].key)
		if derr != nil {
			t.Fatalf("C13/raw/undecodable-key: %x: %v", recs[0].key, derr)
		}
		if !n2.IP.Equal(n.IP) || !bytes.Equal(n2.Mask, n.Mask) {
			t.Fatalf("C13/codec/round-trip: %q mask %x -> network ip %x mask %x -> key %x -> network ip %x mask %x", addr, []byte(m), []byte(n.IP), []byte(n.Mask), recs[0].key, []byte(n2.IP), []byte(n2.Mask))
		}
		// the decoded network, and its text form parsed again, name the record
		for i, q := range []func() (*net.IPNet, error){
			func() (*net.IPNet, error) { return n, nil },
			func() (*net.IPNet, error) { return n2, nil },
			func() (*net.IPNet, error) { return banman.ParseIPNet(n2.IP.String(), n2.Mask) },
			func() (*net.IPNet, error) {
				return banman.ParseIPNet(net.JoinHostPort(n2.IP.String(), "8333"), n2.Mask)
			},
			// the canonical spelling of the same address with the same mask
			// argument denotes the same record
			func() (*net.IPNet, error) { return banman.ParseIPNet(ref.String(), m) },
		} {
			qn, err := q()
			if err != nil {
				t.Fatalf("C13/codec/round-trip: decoded network %v cannot be parsed back (%d): %v", n2, i, err)
			}
			st, err := store.Status(qn)
			if err != nil {
				t.Fatalf("C13/op-error/status: Status(%v) fails: %v", qn, err)
			}
			if !st.Banned || st.Reason != banman.InvalidBlock {
				t.Fatalf("C13/codec/round-trip: %q mask %x was banned, but query %d through ip %x mask %x answers %+v", addr, []byte(m), i, []byte(qn.IP), []byte(qn.Mask), st)
			}
		}
		if err := store.UnbanIPNet(n2); err != nil {
			t.Fatalf("C13/op-error/unban: UnbanIPNet(%v) fails: %v", n2, err)
		}
		recs, orphans, rerr = bsRawScan(db)
		if rerr != nil {
			t.Fatalf("HARNESS-ERROR raw scan: %v", rerr)
		}
		if len(recs) != 0 || len(orphans) != 0 {
			t.Fatalf("C13/raw/stale-record: after unban of %v the indexes still hold %+v %x", n2, recs, orphans)
		}
	})
}
