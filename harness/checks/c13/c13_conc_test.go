// Part (c) of C13: the ban store under concurrent callers.
//
// In the client the store is shared by the connection path (IsBanned for
// every candidate and every inbound/outbound connection), the block manager
// and the query handlers (BanPeer) and the API (BanPeer / UnbanPeer /
// IsBanned), all on goroutines of their own. "An address banned for a
// duration is reported banned by every query before the ban lapses" must
// therefore also hold when a query runs at the same time as a ban of that
// address. The sequential state machine of part (a) cannot see that.
//
// A case is a number of rounds on one real store (bbolt file, real time, no
// bubble). Before a round every network is put into a generated state (no
// record; a lapsed record that no query has removed yet; an active ban), then
// 2-4 free-running goroutines execute generated operation lists (status, ban
// for an hour, unban). Every operation is stamped with a global sequence
// number at its start and at its end.
//
// Oracle (only real-time order is used, so every accepted outcome is a
// linearisation; nothing is demanded of operations that overlap):
//   - no operation fails or panics;
//   - after the round, a query of network n answers like the last write on n:
//     any write W on n that no other write on n started after (W.end <
//     W'.start for no W') may be the last one; without writes the generated
//     state stands;
//   - a query during the round reports "banned" if a ban of n had been
//     acknowledged before the query started (or n was active from the start)
//     and the round has no unban of n at all;
//   - a reported reason is the reason of some ban of that network.
//
// Every identifier is prefixed bc ("ban, concurrent").
package c13

import (
	"fmt"
	"net"
	"os"
	"runtime"
	"sync"
	"sync/atomic"
	"testing"
	"time"

	"github.com/lightninglabs/neutrino/banman"
	"pgregory.net/rapid"

	"verifharness/kit"
)

type bcOp struct {
	// Kind: status | ban | unban
	Kind   string `json:"kind"`
	Net    int    `json:"net"`
	Reason uint8  `json:"reason,omitempty"`
	// Yield: processor yields before the operation
	Yield int `json:"yield,omitempty"`
}

type bcRound struct {
	// Pre[n]: none | lapsed | active
	Pre []string `json:"pre"`
	Gs  [][]bcOp `json:"gs"`
}

type bcCase struct {
	Nets   []string  `json:"nets"`
	Rounds []bcRound `json:"rounds"`
}

var bcNetPool = []string{"10.1.2.3/32", "10.1.2.0/24", "192.168.7.9/32", "2001:db8::1/128", "2001:db8:1::/64"}

func bcGenCase(t *rapid.T) bcCase {
	nn := rapid.IntRange(1, 3).Draw(t, "nnets")
	c := bcCase{}
	off := rapid.IntRange(0, len(bcNetPool)-1).Draw(t, "netoff")
	for i := 0; i < nn; i++ {
		c.Nets = append(c.Nets, bcNetPool[(off+i)%len(bcNetPool)])
	}
	nr := rapid.IntRange(2, 10).Draw(t, "rounds")
	for r := 0; r < nr; r++ {
		rd := bcRound{}
		for i := 0; i < nn; i++ {
			rd.Pre = append(rd.Pre, kit.Pick(t, "pre", []string{"none", "lapsed", "lapsed", "active"}))
		}
		ng := rapid.IntRange(2, 4).Draw(t, "goroutines")
		for g := 0; g < ng; g++ {
			n := rapid.IntRange(1, 4).Draw(t, "nops")
			var ops []bcOp
			for k := 0; k < n; k++ {
				op := bcOp{Kind: kit.Pick(t, "kind", []string{"status", "status", "status", "ban", "ban", "unban"}),
					Net: rapid.IntRange(0, nn-1).Draw(t, "net"), Yield: kit.Pick(t, "yield", []int{0, 0, 1, 3, 20})}
				if op.Kind == "ban" {
					op.Reason = uint8(rapid.IntRange(1, 4).Draw(t, "reason"))
				}
				ops = append(ops, op)
			}
			rd.Gs = append(rd.Gs, ops)
		}
		c.Rounds = append(c.Rounds, rd)
	}
	return c
}

type bcDone struct {
	op         bcOp
	g          int
	start, end int64
	st         banman.Status
	err        error
	panicked   string
}

func bcRunCase(t *testing.T, c bcCase) kit.Verdict {
	var v kit.Verdict
	dir, err := os.MkdirTemp(bsTmpRoot(), "c13-conc-")
	if err != nil {
		v.Harness = "mkdtemp: " + err.Error()
		return v
	}
	defer os.RemoveAll(dir)
	db, err := bsOpenDB(dir, true)
	if err != nil {
		v.Harness = "create db: " + err.Error()
		return v
	}
	defer db.Close()
	store, err := banman.NewStore(db)
	if err != nil {
		v.Harness = "NewStore: " + err.Error()
		return v
	}
	var nets []*net.IPNet
	for _, s := range c.Nets {
		_, n, err := net.ParseCIDR(s)
		if err != nil {
			v.Harness = "bad network " + s
			return v
		}
		nets = append(nets, n)
	}
	const preReason = banman.Reason(200)
	for ri, rd := range c.Rounds {
		// generated state of every network
		for i, n := range nets {
			if err := store.UnbanIPNet(n); err != nil {
				v.Harness = "reset unban: " + err.Error()
				return v
			}
			switch rd.Pre[i] {
			case "lapsed":
				// expiry is stored in whole seconds: a ban of one
				// nanosecond has lapsed as soon as it is written
				err = store.BanIPNet(n, preReason, time.Nanosecond)
			case "active":
				err = store.BanIPNet(n, preReason, time.Hour)
			}
			if err != nil {
				v.Harness = "pre-state ban: " + err.Error()
				return v
			}
		}
		var seq atomic.Int64
		var mu sync.Mutex
		var done []bcDone
		var wg sync.WaitGroup
		startGate := make(chan struct{})
		for g, ops := range rd.Gs {
			wg.Add(1)
			go func(g int, ops []bcOp) {
				defer wg.Done()
				<-startGate
				for _, op := range ops {
					for y := 0; y < op.Yield; y++ {
						runtime.Gosched()
					}
					d := bcDone{op: op, g: g}
					func() {
						defer func() {
							if x := recover(); x != nil {
								d.panicked = fmt.Sprint(x)
							}
						}()
						d.start = seq.Add(1)
						switch op.Kind {
						case "status":
							d.st, d.err = store.Status(nets[op.Net])
						case "ban":
							d.err = store.BanIPNet(nets[op.Net], banman.Reason(op.Reason), time.Hour)
						case "unban":
							d.err = store.UnbanIPNet(nets[op.Net])
						}
						d.end = seq.Add(1)
					}()
					mu.Lock()
					done = append(done, d)
					mu.Unlock()
				}
			}(g, ops)
		}
		close(startGate)
		wg.Wait()

		for _, d := range done {
			v.Logf("round %d g%d %s(net %d, reason %d) [%d,%d] -> banned=%v reason=%d err=%v", ri, d.g, d.op.Kind, d.op.Net, d.op.Reason, d.start, d.end, d.st.Banned, d.st.Reason, d.err)
		}
		for _, d := range done {
			if d.panicked != "" {
				v.Fail("C13/concurrent/panic", "round %d: %s on %s panicked: %s", ri, d.op.Kind, c.Nets[d.op.Net], d.panicked)
				return v
			}
			if d.err != nil {
				v.Fail("C13/concurrent/op-error", "round %d: %s on %s failed with concurrent callers: %v", ri, d.op.Kind, c.Nets[d.op.Net], d.err)
				return v
			}
		}
		for i, n := range nets {
			var writes, bans, unbans []bcDone
			reasons := map[banman.Reason]bool{}
			if rd.Pre[i] == "active" {
				reasons[preReason] = true
			}
			for _, d := range done {
				if d.op.Net != i || d.op.Kind == "status" {
					continue
				}
				writes = append(writes, d)
				if d.op.Kind == "ban" {
					bans = append(bans, d)
					reasons[banman.Reason(d.op.Reason)] = true
				} else {
					unbans = append(unbans, d)
				}
			}
			overlap := false
			for _, d := range done {
				if d.op.Net != i || d.op.Kind != "status" {
					continue
				}
				for _, w := range writes {
					if w.start < d.end && d.start < w.end {
						overlap = true
					}
				}
				if d.st.Banned && !reasons[d.st.Reason] {
					v.Fail("C13/concurrent/foreign-reason", "round %d: a query of %s reports reason %d, which no ban of that network carried", ri, c.Nets[i], d.st.Reason)
					return v
				}
				if len(unbans) > 0 {
					continue
				}
				must := rd.Pre[i] == "active"
				for _, b := range bans {
					if b.end < d.start {
						must = true
					}
				}
				if must && !d.st.Banned {
					v.Fail("C13/concurrent/ban-not-reported", "round %d: a query of %s that started after a one-hour ban of it had been acknowledged (and with no unban of it anywhere in the round) reports it as not banned", ri, c.Nets[i])
					return v
				}
			}
			if overlap {
				v.Nontrivial = true
				v.Class("status-overlaps-write:pre-%s", rd.Pre[i])
			}
			// the state after the round
			fin, err := store.Status(n)
			if err != nil {
				v.Fail("C13/concurrent/op-error", "round %d: query of %s after the round failed: %v", ri, c.Nets[i], err)
				return v
			}
			ok := false
			var allowed []string
			if len(writes) == 0 {
				want := rd.Pre[i] == "active"
				ok = fin.Banned == want && (!want || fin.Reason == preReason)
				allowed = append(allowed, fmt.Sprintf("initial state banned=%v", want))
			}
			for _, w := range writes {
				last := true
				for _, w2 := range writes {
					if w2.start > w.end {
						last = false
					}
				}
				if !last {
					continue
				}
				if w.op.Kind == "ban" {
					allowed = append(allowed, fmt.Sprintf("banned(reason %d)", w.op.Reason))
					if fin.Banned && fin.Reason == banman.Reason(w.op.Reason) {
						ok = true
					}
				} else {
					allowed = append(allowed, "not banned")
					if !fin.Banned {
						ok = true
					}
				}
			}
			if !ok {
				v.Fail("C13/concurrent/final-state", "round %d (initial state of %s: %s): after all callers had returned a query reports banned=%v reason=%d; the writes that can have been the last one allow only %v", ri, c.Nets[i], rd.Pre[i], fin.Banned, fin.Reason, allowed)
				return v
			}
			if fin.Banned && time.Until(fin.Expiration) < 58*time.Minute {
				v.Fail("C13/concurrent/expiry", "round %d: %s is banned for an hour but the reported expiry is %v away", ri, c.Nets[i], time.Until(fin.Expiration))
				return v
			}
		}
	}
	v.Class("rounds:%s", bsBucket(len(c.Rounds)))
	return v
}

func TestC13Concurrent(t *testing.T) {
	kit.RunProp(t, kit.Prop[bcCase]{ID: "C13", Name: "store-concurrent", Gen: bcGenCase, Run: bcRunCase})
}
