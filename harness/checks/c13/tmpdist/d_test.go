package tmpdist
import ("testing";"fmt";"pgregory.net/rapid")
func TestD(t *testing.T){
 h:=map[string][]int{"int":make([]int,10),"samp":make([]int,10),"perm":make([]int,10), "u64":make([]int,10)}
 lst:=make([]int,100); for i:=range lst{lst[i]=i}
 rapid.Check(t, func(t *rapid.T){
  h["int"][rapid.IntRange(0,99).Draw(t,"a")/10]++
  h["samp"][rapid.SampledFrom(lst).Draw(t,"b")/10]++
  h["u64"][int(rapid.Uint64().Draw(t,"c")%100)/10]++
  h["perm"][int(rapid.Uint64Range(0,1<<62).Draw(t,"c")%100)/10]++
 })
 for k,v:=range h{fmt.Println(k,v)}
}
