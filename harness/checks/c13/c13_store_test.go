// Package c13: bans are exact, durable and enforced (property C13).
//
// This file holds part (a): a state-machine check of the ban store
// (banman.NewStore / BanIPNet / UnbanIPNet / Status / ParseIPNet) against a
// reference model, on a real bbolt database, inside a testing/synctest bubble
// (the store reads time.Now(); only virtual time can test expiry exactly).
// Every identifier in this file is prefixed with bs ("ban store") so that the
// enforcement check (part (b)) can live in the same package.
package c13

import (
	"bytes"
	"encoding/hex"
	"errors"
	"fmt"
	"net"
	"net/netip"
	"os"
	"path/filepath"
	"runtime"
	"sort"
	"strings"
	"testing"
	"testing/synctest"
	"time"

	"github.com/btcsuite/btcwallet/walletdb"
	_ "github.com/btcsuite/btcwallet/walletdb/bdb"
	"github.com/lightninglabs/neutrino/banman"
	"pgregory.net/rapid"

	"verifharness/kit"
)

// bsGen16ByteV4Masks enables the mask spellings "v4in16full"/"v4in16net": an
// IPv4 network written with a 16-byte (IPv6-form) mask whose first 96 bits are
// ones. Go's net package treats it as the very same network as the 4-byte
// form (identical String() and Contains()); the oracle therefore expects the
// same record. Violations that involve both forms of one network get the
// narrow signature "C13/v4-net-16byte-mask/separate-record".
const bsGen16ByteV4Masks = false

// ---------------------------------------------------------------- the case

type bsCase struct {
	// StartNs is slept before the first operation, so that the wall clock is
	// not aligned to a whole second (the bubble starts at 2000-01-01T00:00:00Z).
	StartNs int64 `json:"start_ns"`
	// Addrs is the pool of addresses (canonical text) the operations refer to.
	// It is built from one base address plus relatives (same /24 or /64, the
	// network base address, unrelated addresses).
	Addrs []string `json:"addrs"`
	Ops   []bsOp   `json:"ops"`
}

type bsOp struct {
	// Kind: ban | unban | status | census | advance | reopen | junk
	Kind string `json:"kind"`
	// Use selects the network the operation is about: "own" = (A, Mask) of
	// this op; "recent" = address and mask of the Back-th most recent ban;
	// "recent-mask" = own address A with the mask of that ban. Without a
	// previous ban every value means "own".
	Use  string `json:"use,omitempty"`
	Back int    `json:"back,omitempty"`
	A    int    `json:"a,omitempty"`
	// Style and Port choose the spelling of the address (bsSpell).
	Style int `json:"style,omitempty"`
	Port  int `json:"port,omitempty"`
	// Mask is symbolic (bsMask), resolved according to the address family.
	Mask string `json:"mask,omitempty"`
	// All: a status query is repeated through every spelling of the address.
	All    bool  `json:"all,omitempty"`
	DurNs  int64 `json:"dur_ns,omitempty"`
	Reason uint8 `json:"reason,omitempty"`
	// Adv: ns | ms | s | h | toexp | tofloor. N is the amount; toexp/tofloor
	// jump to (expiry | floor-to-second(expiry)) of the Back-th most recent
	// ban plus Delta nanoseconds (no move if that is not in the future).
	Adv   string `json:"adv,omitempty"`
	N     int64  `json:"n,omitempty"`
	Delta int64  `json:"delta,omitempty"`
	// Junk is a text that is not an IP address by any reading.
	Junk string `json:"junk,omitempty"`
}

// ------------------------------------------------------------- generator

var bsFixed4 = []string{"1.2.3.4", "10.0.0.1", "127.0.0.1", "0.0.0.0", "255.255.255.255", "192.168.1.77", "1.2.3.0", "8.0.0.0"}
var bsFixed6 = []string{"::1", "::", "2001:db8::1", "fe80::1", "ff02::1", "2001:db8:0:0:1::1", "::102:304",
	"64:ff9b::102:304", "1::ffff:102:304", "ffff:ffff:ffff:ffff:ffff:ffff:ffff:ffff", "2001:db8::", "2001:db8:1:2:3:4:5:6"}

var bsJunk = []string{"", " ", "1.2.3", "1.2.3.4.5", "256.1.1.1", "1.2.3.-4", "1..2.3", ":::", "12345::", "1:2:3:4:5:6:7:8:9",
	"example.com", "localhost:8333", "::g", "1.2.3.4/24", "2001:db8::/32", "[::1", "::1]", "[]:80", "[]", ":8333", ":",
	"1.2.3.4:80:90", "0x1.2.3.4", "1.2.3.4 ", " 1.2.3.4", "1.2.3.4\x00", "::ffff:1.2.3", "::ffff:1.2.3.4.5", "1:2:3:4:5:6:7",
	"1::2::3", "\xff\xfe", "١.٢.٣.٤", "[[::1]]:80", "[::1]]:80", "::1%", "1.2.3.4%eth0",
	strings.Repeat("1", 300), strings.Repeat(":", 300), strings.Repeat("[", 100) + "::1" + strings.Repeat("]", 100) + ":1"}

var bsDurations = []int64{0, 1, -1, int64(-5 * time.Second), 999_999_999, int64(time.Second), int64(time.Second) + 1,
	int64(1500 * time.Millisecond), int64(2 * time.Second), int64(3250 * time.Millisecond), int64(10 * time.Second),
	int64(time.Minute), int64(time.Hour), int64(24 * time.Hour), int64(^uint64(0) >> 1), -int64(^uint64(0)>>1) - 1}

var bsDeltas = []int64{int64(-1500 * time.Millisecond), int64(-time.Second), int64(-time.Millisecond), -1, 0, 1,
	int64(time.Millisecond), int64(999 * time.Millisecond), int64(time.Second)}

// bsUni draws an (almost exactly) uniform integer in [0, n), n <= 128.
// rapid's integer ranges and SampledFrom are strongly biased towards the
// lower bound (about 40% of IntRange(0,99) draws are below 10), which wrecks
// weighted choices; fair coin flips are not biased. Shrinks towards 0.
func bsUni(t *rapid.T, label string, n int) int {
	v := 0
	for i := 0; i < 10; i++ {
		v <<= 1
		if rapid.Bool().Draw(t, label) {
			v |= 1
		}
	}
	return v % n
}

func bsPick[T any](t *rapid.T, label string, list []T) T {
	return list[bsUni(t, label, len(list))]
}

func bsGenMask(t *rapid.T) string {
	n := bsUni(t, "maskw", 100)
	switch {
	case n < 36:
		return "nil"
	case n < 44:
		return "full"
	case n < 74:
		return "net"
	case n < 79:
		return "wide"
	case n < 83:
		return "zero"
	case n < 86:
		return "odd"
	case n < 89:
		return "noncontig"
	case n < 92:
		if bsGen16ByteV4Masks {
			return "v4in16full"
		}
		return "full"
	case n < 94:
		if bsGen16ByteV4Masks {
			return "v4in16net"
		}
		return "net"
	case n < 96:
		return "bad-empty"
	case n < 98:
		return "bad-short"
	}
	return "bad-fam"
}

func bsGenAddr(t *rapid.T, label string) netip.Addr {
	switch bsUni(t, label+"-src", 4) {
	case 0:
		return netip.MustParseAddr(bsPick(t, label+"-f4", bsFixed4))
	case 1:
		return netip.MustParseAddr(bsPick(t, label+"-f6", bsFixed6))
	case 2:
		b := rapid.SliceOfN(rapid.Byte(), 4, 4).Draw(t, label+"-r4")
		return netip.AddrFrom4([4]byte(b))
	}
	b := rapid.SliceOfN(rapid.Byte(), 16, 16).Draw(t, label+"-r6")
	return netip.AddrFrom16([16]byte(b)).Unmap()
}

// bsRelative derives an address related to base: rel 0 = network base (host
// bits under the "net" mask cleared), 1 = sibling in the same "net" network,
// 2 = base of the "wide" network, 3 = sibling in the same "odd" network.
func bsRelative(base netip.Addr, rel int, rnd []byte) netip.Addr {
	if base.Is4() {
		b := base.As4()
		switch rel {
		case 0:
			b[3] = 0
		case 1:
			b[3] = rnd[0]
		case 2:
			b[1], b[2], b[3] = 0, 0, 0
		default:
			b[3] = b[3]&0x80 | rnd[0]&0x7f
		}
		return netip.AddrFrom4(b)
	}
	b := base.As16()
	switch rel {
	case 0:
		copy(b[8:], make([]byte, 8))
	case 1:
		copy(b[8:], rnd[:8])
	case 2:
		copy(b[4:], make([]byte, 12))
	default:
		b[8] = b[8]&0x80 | rnd[0]&0x7f
		copy(b[9:], rnd[1:8])
	}
	return netip.AddrFrom16(b).Unmap()
}

// bsGenDur: mostly a few seconds with a sub-second part (rapid's wide integer
// ranges are strongly biased towards tiny values, hence the composition).
func bsGenDur(t *rapid.T) int64 {
	w := bsUni(t, "durw", 20)
	if w < 3 {
		return bsPick(t, "dur", bsDurations)
	}
	d := int64(bsUni(t, "dursec", 13)) * int64(time.Second)
	switch bsUni(t, "durfrac", 7) {
	case 0, 1:
	case 2:
		d += 1
	case 3:
		d += 999_999_999
	case 4:
		d += int64((1 + bsUni(t, "durms", 999))) * int64(time.Millisecond)
	case 5:
		d += int64((1 + bsUni(t, "durus", 999))) * int64(time.Microsecond)
	default:
		d += int64((1 + bsUni(t, "durns", 999)))
	}
	if w == 19 {
		return -d
	}
	return d
}

func bsGenOp(t *rapid.T) bsOp {
	w := bsUni(t, "kind", 100)
	var op bsOp
	target := func(ownPct, recentPct int) {
		u := bsUni(t, "use", 100)
		switch {
		case u < ownPct:
			op.Use = "own"
		case u < ownPct+recentPct:
			op.Use = "recent"
		default:
			op.Use = "recent-mask"
		}
		op.Back = bsUni(t, "back", 4)
		op.A = bsUni(t, "a", 4)
		op.Style = bsUni(t, "style", 12)
		op.Port = bsPick(t, "port", []int{8333, 0, 1, 18333, 65535, 80})
		op.Mask = bsGenMask(t)
	}
	switch {
	case w < 24:
		op.Kind = "ban"
		target(65, 20)
		op.DurNs = bsGenDur(t)
		if bsUni(t, "reasonw", 10) < 8 {
			op.Reason = uint8((1 + bsUni(t, "reason", 5)))
		} else {
			op.Reason = rapid.Byte().Draw(t, "reasonb")
		}
	case w < 52:
		op.Kind = "status"
		target(25, 50)
		op.All = bsUni(t, "all", 5) == 0
	case w < 60:
		// status of every network banned so far, through one spelling style
		op.Kind = "census"
		op.Style = bsUni(t, "style", 12)
		op.Port = bsPick(t, "port", []int{8333, 0, 65535})
	case w < 65:
		op.Kind = "unban"
		target(35, 55)
	case w < 90:
		op.Kind = "advance"
		op.Adv = bsPick(t, "adv", []string{"ns", "ms", "ms", "s", "s", "s", "h", "toexp", "toexp", "toexp", "tofloor", "tofloor"})
		switch op.Adv {
		case "ns", "ms":
			op.N = int64(1 + bsUni(t, "n", 999))
		case "s":
			op.N = int64(1 + bsUni(t, "n", 12))
		case "h":
			op.N = int64(1 + bsUni(t, "n", 30))
		case "toexp":
			op.Back = bsUni(t, "back", 4)
			op.Delta = bsPick(t, "delta", bsDeltas)
		case "tofloor":
			op.Back = bsUni(t, "back", 4)
			op.Delta = bsPick(t, "delta", []int64{-1, 0, 1, int64(-time.Millisecond), int64(time.Millisecond)})
		}
	case w < 97:
		op.Kind = "reopen"
	default:
		op.Kind = "junk"
		op.Junk = bsPick(t, "junk", bsJunk)
		op.Mask = bsPick(t, "junkmask", []string{"nil", "nil", "full", "net", "bad-empty"})
	}
	return op
}

type bsExtra struct {
	Rel int
	Rnd []byte
}

func bsGenCase(t *rapid.T) bsCase {
	var c bsCase
	if bsUni(t, "aligned", 4) != 0 {
		c.StartNs = int64(1+bsUni(t, "start-ms", 999))*int64(time.Millisecond) - int64(bsUni(t, "start-ns", 2)*bsUni(t, "start-ns", 1000))
	}
	base := bsGenAddr(t, "base")
	c.Addrs = append(c.Addrs, base.String())
	extras := rapid.SliceOfN(rapid.Custom(func(t *rapid.T) bsExtra {
		return bsExtra{Rel: bsUni(t, "rel", 6), Rnd: rapid.SliceOfN(rapid.Byte(), 16, 16).Draw(t, "rnd")}
	}), 1, 3).Draw(t, "extras")
	for _, e := range extras {
		var a netip.Addr
		switch {
		case e.Rel <= 3:
			a = bsRelative(base, e.Rel, e.Rnd)
		case e.Rel == 4: // unrelated address, other family
			if base.Is4() {
				a = netip.AddrFrom16([16]byte(e.Rnd)).Unmap()
			} else {
				a = netip.AddrFrom4([4]byte(e.Rnd[:4]))
			}
		default: // the numerically "same" bits in the other family / a fixed one
			if base.Is4() {
				b4 := base.As4()
				var b [16]byte
				copy(b[12:], b4[:]) // ::a.b.c.d (IPv4-compatible, NOT IPv4-mapped: a different address)
				a = netip.AddrFrom16(b).Unmap()
			} else {
				b := base.As16()
				a = netip.AddrFrom4([4]byte(b[12:]))
			}
		}
		c.Addrs = append(c.Addrs, a.String())
	}
	// Three segments: rapid's slices have a small average length (about 5);
	// concatenation gives longer histories and still shrinks element-wise.
	c.Ops = rapid.SliceOfN(rapid.Custom(bsGenOp), 1, 20).Draw(t, "ops")
	c.Ops = append(c.Ops, rapid.SliceOfN(rapid.Custom(bsGenOp), 0, 20).Draw(t, "ops2")...)
	c.Ops = append(c.Ops, rapid.SliceOfN(rapid.Custom(bsGenOp), 0, 20).Draw(t, "ops3")...)
	return c
}

// ------------------------------------------------- spellings and masks

type bsStyle struct {
	name string
	// may: a form the property does not oblige the parser to accept (it is
	// not a plain IP address literal). Accepted outcomes: an error, or the
	// same network as the plain literal.
	may bool
	f   func(a netip.Addr, port int) string
}

func bsGroups(a netip.Addr) [8]uint16 {
	b := a.As16()
	var g [8]uint16
	for i := range g {
		g[i] = uint16(b[2*i])<<8 | uint16(b[2*i+1])
	}
	return g
}

func bsNoCompress(a netip.Addr, n int) string {
	g := bsGroups(a)
	parts := make([]string, 0, 8)
	for i := 0; i < n; i++ {
		parts = append(parts, fmt.Sprintf("%x", g[i]))
	}
	return strings.Join(parts, ":")
}

func bsMixedCase(s string) string {
	b := []byte(s)
	for i := range b {
		if i%2 == 0 {
			b[i] = byte(strings.ToUpper(string(b[i]))[0])
		}
	}
	return string(b)
}

var bsStyles4 = []bsStyle{
	{"dotted", false, func(a netip.Addr, p int) string { return a.String() }},
	{"dotted:port", false, func(a netip.Addr, p int) string { return fmt.Sprintf("%s:%d", a, p) }},
	{"mapped", false, func(a netip.Addr, p int) string { return "::ffff:" + a.String() }},
	{"mapped-hex", false, func(a netip.Addr, p int) string {
		b := a.As4()
		return fmt.Sprintf("::ffff:%x:%x", uint16(b[0])<<8|uint16(b[1]), uint16(b[2])<<8|uint16(b[3]))
	}},
	{"mapped-expanded-dotted", false, func(a netip.Addr, p int) string { return "0:0:0:0:0:ffff:" + a.String() }},
	{"mapped-expanded-hex-upper", false, func(a netip.Addr, p int) string {
		b := a.As4()
		return fmt.Sprintf("0000:0000:0000:0000:0000:FFFF:%02X%02X:%02X%02X", b[0], b[1], b[2], b[3])
	}},
	{"[mapped]:port", false, func(a netip.Addr, p int) string { return fmt.Sprintf("[::ffff:%s]:%d", a, p) }},
	{"mapped-upper", false, func(a netip.Addr, p int) string { return "::FFFF:" + a.String() }},
	{"[dotted]:port", true, func(a netip.Addr, p int) string { return fmt.Sprintf("[%s]:%d", a, p) }},
	{"dotted:emptyport", true, func(a netip.Addr, p int) string { return a.String() + ":" }},
	{"[dotted]", true, func(a netip.Addr, p int) string { return "[" + a.String() + "]" }},
	{"dotted:service", true, func(a netip.Addr, p int) string { return a.String() + ":http" }},
}

var bsStyles6 = []bsStyle{
	{"compressed", false, func(a netip.Addr, p int) string { return a.String() }},
	{"[compressed]:port", false, func(a netip.Addr, p int) string { return fmt.Sprintf("[%s]:%d", a, p) }},
	{"expanded", false, func(a netip.Addr, p int) string { return a.StringExpanded() }},
	{"expanded-upper", false, func(a netip.Addr, p int) string { return strings.ToUpper(a.StringExpanded()) }},
	{"compressed-upper", false, func(a netip.Addr, p int) string { return strings.ToUpper(a.String()) }},
	{"no-compression", false, func(a netip.Addr, p int) string { return bsNoCompress(a, 8) }},
	{"dotted-tail", false, func(a netip.Addr, p int) string {
		b := a.As16()
		return fmt.Sprintf("%s:%d.%d.%d.%d", bsNoCompress(a, 6), b[12], b[13], b[14], b[15])
	}},
	{"[expanded]:port", false, func(a netip.Addr, p int) string { return fmt.Sprintf("[%s]:%d", a.StringExpanded(), p) }},
	{"expanded-mixedcase", false, func(a netip.Addr, p int) string { return bsMixedCase(a.StringExpanded()) }},
	{"[compressed]", true, func(a netip.Addr, p int) string { return "[" + a.String() + "]" }},
	{"zone", true, func(a netip.Addr, p int) string { return a.String() + "%eth0" }},
	{"[compressed]:emptyport", true, func(a netip.Addr, p int) string { return "[" + a.String() + "]:" }},
}

func bsSpell(a netip.Addr, style, port int) (string, bsStyle) {
	list := bsStyles6
	if a.Is4() {
		list = bsStyles4
	}
	st := list[((style%len(list))+len(list))%len(list)]
	return st.f(a, port), st
}

func bsRep(b byte, n int) []byte { return bytes.Repeat([]byte{b}, n) }

// bsMask resolves a symbolic mask for an address family; nil means "no mask
// given" (ParseIPNet then uses the single-address default).
func bsMask(name string, is4 bool) net.IPMask {
	switch name {
	case "nil", "":
		return nil
	case "full":
		if is4 {
			return net.CIDRMask(32, 32)
		}
		return net.CIDRMask(128, 128)
	case "net":
		if is4 {
			return net.CIDRMask(24, 32)
		}
		return net.CIDRMask(64, 128)
	case "wide":
		if is4 {
			return net.CIDRMask(8, 32)
		}
		return net.CIDRMask(32, 128)
	case "zero":
		if is4 {
			return net.CIDRMask(0, 32)
		}
		return net.CIDRMask(0, 128)
	case "odd":
		if is4 {
			return net.CIDRMask(25, 32)
		}
		return net.CIDRMask(65, 128)
	case "noncontig":
		if is4 {
			return net.IPMask{0xff, 0x00, 0xff, 0x0f}
		}
		return net.IPMask(bytes.Repeat([]byte{0xff, 0xff, 0x00, 0xf0}, 4))
	case "v4in16full":
		return net.CIDRMask(128, 128)
	case "v4in16net":
		return net.CIDRMask(120, 128)
	case "bad-empty":
		return net.IPMask{}
	case "bad-short":
		return net.IPMask{0xff, 0xff, 0xff}
	case "bad-fam":
		if is4 {
			return net.IPMask(bsRep(0xff, 8))
		}
		return net.IPMask{0xff, 0xff, 0xff, 0x00}
	}
	panic("unknown mask " + name)
}

func bsAllFF(b []byte) bool {
	for _, x := range b {
		if x != 0xff {
			return false
		}
	}
	return true
}

// bsRefKey is the reference: the canonical identity of the network denoted by
// an address and an optional mask. ok=false: the combination is not a network
// (mask length does not fit the address family) and must be rejected with an
// error somewhere between ParseIPNet and the store operation. form16 reports
// an IPv4 network written with a 16-byte mask.
func bsRefKey(a netip.Addr, mask net.IPMask) (key string, form16, ok bool) {
	a = a.Unmap()
	if a.Is4() {
		b := a.As4()
		var m []byte
		switch {
		case mask == nil:
			m = bsRep(0xff, 4)
		case len(mask) == 4:
			m = mask
		case len(mask) == 16 && bsAllFF(mask[:12]):
			m, form16 = mask[12:], true
		default:
			return "", false, false
		}
		for i := range b {
			b[i] &= m[i]
		}
		return "4|" + hex.EncodeToString(b[:]) + "|" + hex.EncodeToString(m), form16, true
	}
	b := a.As16()
	var m []byte
	switch {
	case mask == nil:
		m = bsRep(0xff, 16)
	case len(mask) == 16:
		m = mask
	default:
		return "", false, false
	}
	for i := range b {
		b[i] &= m[i]
	}
	return "6|" + hex.EncodeToString(b[:]) + "|" + hex.EncodeToString(m), false, true
}

// bsNetKey maps an IP network produced by the code under test (or decoded
// from a raw database key) into the same canonical space as bsRefKey.
func bsNetKey(n *net.IPNet) (key string, ok bool) {
	if n == nil {
		return "", false
	}
	if ip4 := n.IP.To4(); ip4 != nil {
		switch {
		case len(n.Mask) == 4:
			return "4|" + hex.EncodeToString(ip4) + "|" + hex.EncodeToString(n.Mask), true
		case len(n.Mask) == 16 && bsAllFF(n.Mask[:12]):
			return "4|" + hex.EncodeToString(ip4) + "|" + hex.EncodeToString(n.Mask[12:]), true
		case len(n.Mask) == 16:
			return "6|" + hex.EncodeToString(n.IP.To16()) + "|" + hex.EncodeToString(n.Mask), true
		}
		return "", false
	}
	if ip16 := n.IP.To16(); ip16 != nil && len(n.Mask) == 16 {
		return "6|" + hex.EncodeToString(ip16) + "|" + hex.EncodeToString(n.Mask), true
	}
	return "", false
}

// bsDecodeRawKey is a reference decoder of the documented on-disk key
// (codec.go): one type byte (0 = IPv4, 1 = IPv6), the IP, then the mask.
func bsDecodeRawKey(k []byte) (*net.IPNet, error) {
	if len(k) < 1 {
		return nil, errors.New("empty key")
	}
	n := 0
	switch k[0] {
	case 0:
		n = 4
	case 1:
		n = 16
	default:
		return nil, fmt.Errorf("unknown ip type %d", k[0])
	}
	if len(k) < 1+n {
		return nil, fmt.Errorf("short key %x", k)
	}
	return &net.IPNet{IP: net.IP(append([]byte{}, k[1:1+n]...)), Mask: net.IPMask(append([]byte{}, k[1+n:]...))}, nil
}

// bsRefHost is the reference reading of an address text: an optional port is
// removed ("If the address includes a port, we'll remove it"), the rest must
// be an IP literal. zone=true: an IPv6 literal with a zone (not obliged).
func bsRefHost(text string) (a netip.Addr, zone, ok bool) {
	host := text
	if h, _, err := net.SplitHostPort(text); err == nil {
		host = h
	}
	p, err := netip.ParseAddr(host)
	if err != nil {
		return netip.Addr{}, false, false
	}
	if p.Zone() != "" {
		return p.WithZone("").Unmap(), true, true
	}
	return p.Unmap(), false, true
}

// -------------------------------------------------------------- database

func bsTmpRoot() string {
	if d := os.Getenv("VERIF_TMP"); d != "" {
		return d
	}
	return os.TempDir()
}

func bsOpenDB(dir string, create bool) (walletdb.DB, error) {
	path := filepath.Join(dir, "bans.db")
	if create {
		return walletdb.Create("bdb", path, true, 10*time.Second, false)
	}
	return walletdb.Open("bdb", path, true, 10*time.Second, false)
}

type bsRaw struct {
	key    []byte
	expiry []byte
	reason []byte // nil: no entry in the reason index
}

// bsRawScan reads the store's two indexes directly (bucket names and layout
// as documented in store.go). orphans = reason entries without a ban entry.
func bsRawScan(db walletdb.DB) (recs []bsRaw, orphans [][]byte, err error) {
	err = walletdb.View(db, func(tx walletdb.ReadTx) error {
		top := tx.ReadBucket([]byte("ban-store"))
		if top == nil {
			return errors.New("no ban-store bucket")
		}
		bi := top.NestedReadBucket([]byte("ban-index"))
		ri := top.NestedReadBucket([]byte("reason-index"))
		if bi == nil || ri == nil {
			return errors.New("ban-index / reason-index bucket missing")
		}
		seen := map[string]bool{}
		if e := bi.ForEach(func(k, v []byte) error {
			r := bsRaw{key: append([]byte{}, k...), expiry: append([]byte{}, v...)}
			if rv := ri.Get(k); rv != nil {
				r.reason = append([]byte{}, rv...)
			}
			seen[string(k)] = true
			recs = append(recs, r)
			return nil
		}); e != nil {
			return e
		}
		return ri.ForEach(func(k, v []byte) error {
			if !seen[string(k)] {
				orphans = append(orphans, append([]byte{}, k...))
			}
			return nil
		})
	})
	return
}

// ----------------------------------------------------------- the runner

type bsRec struct {
	exp    time.Time
	reason uint8
}

type bsEntry struct {
	cur *bsRec
	// alts: earlier, not lifted bans of the same network whose expiry is
	// later than cur's. The property does not say whether a shorter re-ban
	// supersedes a longer one (the code overwrites); both readings are
	// accepted while such a ban would still be in force.
	alts   []bsRec
	addr   netip.Addr // representative for sweeps
	mask   net.IPMask
	lifted bool
	// forms: bit 0 = touched with a family-sized mask, bit 1 = touched with a
	// 16-byte mask on an IPv4 network (bsGen16ByteV4Masks).
	forms int
	// non-triviality bookkeeping (since the last ban of this network)
	qBefore  bool
	reopened bool
	// gone: the record can no longer be in the database: it was lifted, or a
	// Status query was made at or after every candidate expiry.
	gone     bool
	banStyle string
}

type bsRun struct {
	v       *kit.Verdict
	c       bsCase
	addrs   []netip.Addr
	dir     string
	db      walletdb.DB
	store   banman.Store
	t0      time.Time
	model   map[string]*bsEntry
	bans    []bsBanRef // history of successful bans (for Use/Back)
	classes map[string]bool
	nt      bool // by generated operations
	inSweep bool
}

type bsBanRef struct {
	a    int
	mask string
	key  string
}

func (r *bsRun) class(format string, a ...any) {
	s := fmt.Sprintf(format, a...)
	if !r.classes[s] {
		r.classes[s] = true
	}
}

func (r *bsRun) at() string {
	return fmt.Sprintf("t+%.9fs", time.Since(r.t0).Seconds())
}

// bsGuard runs f and converts a panic into a message.
func bsGuard(f func()) (p string) {
	defer func() {
		if x := recover(); x != nil {
			buf := make([]byte, 4096)
			buf = buf[:runtime.Stack(buf, false)]
			p = fmt.Sprintf("%v\n%s", x, buf)
		}
	}()
	f()
	return ""
}

func (r *bsRun) fail(e *bsEntry, opForm int, sig, format string, a ...any) {
	if e != nil && (e.forms|opForm) == 3 {
		sig = "C13/v4-net-16byte-mask/separate-record"
	}
	msg := fmt.Sprintf(format, a...)
	r.v.Fail(sig, "%s", msg)
	r.v.Logf("VIOLATION [%s] %s", sig, msg)
}

func (r *bsRun) open(create bool) bool {
	db, err := bsOpenDB(r.dir, create)
	if err != nil {
		r.v.Harness = "open db: " + err.Error()
		return false
	}
	r.db = db
	var st banman.Store
	if p := bsGuard(func() { st, err = banman.NewStore(db) }); p != "" {
		r.fail(nil, 0, "C13/panic/newstore", "NewStore panics: %s", p)
		return false
	}
	if err != nil {
		if create {
			r.v.Harness = "NewStore on a fresh db: " + err.Error()
		} else {
			r.fail(nil, 0, "C13/reopen/newstore-error", "NewStore fails on the reopened database: %v", err)
		}
		return false
	}
	r.store = st
	return true
}

type bsTarget struct {
	a      int
	addr   netip.Addr
	maskNm string
	mask   net.IPMask
	text   string
	style  bsStyle
	key    string
	form   int // 1 family-sized mask, 2 IPv4 with 16-byte mask
	ok     bool
}

func (r *bsRun) resolve(op bsOp) bsTarget {
	a, maskNm := op.A%len(r.addrs), op.Mask
	if op.Use != "own" && op.Use != "" && len(r.bans) > 0 {
		b := r.bans[len(r.bans)-1-op.Back%len(r.bans)]
		maskNm = b.mask
		if op.Use == "recent" {
			a = b.a
		}
	}
	return r.target(a, maskNm, op.Style, op.Port)
}

func (r *bsRun) target(a int, maskNm string, style, port int) bsTarget {
	t := bsTarget{a: a, addr: r.addrs[a], maskNm: maskNm}
	t.mask = bsMask(maskNm, t.addr.Is4())
	t.text, t.style = bsSpell(t.addr, style, port)
	var f16 bool
	t.key, f16, t.ok = bsRefKey(t.addr, t.mask)
	t.form = 1
	if f16 {
		t.form = 2
	}
	return t
}

// parse calls ParseIPNet for a target and judges the answer. proceed=false:
// the operation ends here (rejected, or a violation was recorded).
func (r *bsRun) parse(t bsTarget, what string) (n *net.IPNet, proceed bool) {
	var err error
	if p := bsGuard(func() { n, err = banman.ParseIPNet(t.text, t.mask) }); p != "" {
		r.fail(nil, 0, "C13/panic/parse", "ParseIPNet(%q, %v) panics: %s", t.text, t.mask, p)
		return nil, false
	}
	if !t.style.may {
		// sanity of the generator: the spelling must denote the pool address
		if ra, zone, ok := bsRefHost(t.text); !ok || zone || ra != t.addr {
			r.v.Harness = fmt.Sprintf("spelling %q (%s) of %v is not read back as that address by the reference", t.text, t.style.name, t.addr)
			return nil, false
		}
	}
	if err != nil {
		switch {
		case t.style.may:
			r.class("may-form:%s/rejected", t.style.name)
			r.v.Logf("%s %s %q: spelling not accepted (%v) - allowed", r.at(), what, t.text, err)
		case !t.ok:
			r.class("rejected:%s/at-parse", t.maskNm)
			r.v.Logf("%s %s %q mask %s: rejected by ParseIPNet (%v) - required", r.at(), what, t.text, t.maskNm, err)
		default:
			r.fail(nil, 0, "C13/parse/rejected-valid", "ParseIPNet(%q [%s of %v], mask %s=%v) fails: %v", t.text, t.style.name, t.addr, t.maskNm, t.mask, err)
		}
		return nil, false
	}
	if n == nil {
		r.fail(nil, 0, "C13/parse/nil-without-error", "ParseIPNet(%q, %v) returns nil, nil", t.text, t.mask)
		return nil, false
	}
	if t.style.may {
		r.class("may-form:%s/accepted", t.style.name)
	}
	if t.ok {
		if k, ok := bsNetKey(n); !ok || k != t.key {
			r.fail(nil, 0, "C13/parse/wrong-network", "ParseIPNet(%q [%s of %v], mask %s) = %v (ip %x mask %x): not the network %s", t.text, t.style.name, t.addr, t.maskNm, n, []byte(n.IP), []byte(n.Mask), t.key)
			return nil, false
		}
	}
	return n, true
}

// rejected handles the outcome of a store operation for a target that is not
// a network (t.ok == false): it must have failed.
func (r *bsRun) rejected(t bsTarget, what string, err error) {
	if err == nil {
		r.fail(nil, 0, "C13/unsupported-accepted/"+what, "%s of %q with mask %s=%x (length does not fit the address family) succeeds without an error", what, t.text, t.maskNm, []byte(t.mask))
		return
	}
	r.class("rejected:%s/at-store", t.maskNm)
	r.v.Logf("%s %s %q mask %s: rejected by the store (%v) - required", r.at(), what, t.text, t.maskNm, err)
}

func (r *bsRun) entry(t bsTarget) *bsEntry {
	e := r.model[t.key]
	if e == nil {
		e = &bsEntry{addr: t.addr, mask: t.mask}
		r.model[t.key] = e
	}
	return e
}

func (r *bsRun) doBan(op bsOp) {
	t := r.resolve(op)
	n, ok := r.parse(t, "ban")
	if !ok {
		return
	}
	dur := time.Duration(op.DurNs)
	var err error
	if p := bsGuard(func() { err = r.store.BanIPNet(n, banman.Reason(op.Reason), dur) }); p != "" {
		r.fail(nil, 0, "C13/panic/ban", "BanIPNet(%v, %d, %v) panics: %s", n, op.Reason, dur, p)
		return
	}
	if !t.ok {
		r.rejected(t, "ban", err)
		return
	}
	if err != nil {
		r.fail(nil, 0, "C13/op-error/ban", "BanIPNet(%v [%q], %d, %v) fails: %v", n, t.text, op.Reason, dur, err)
		return
	}
	now := time.Now()
	rec := bsRec{exp: now.Add(dur), reason: op.Reason}
	e := r.entry(t)
	var alts []bsRec
	if e.cur != nil {
		old := append([]bsRec{*e.cur}, e.alts...)
		for _, o := range old {
			if o.exp.After(rec.exp) && now.Before(o.exp) {
				alts = append(alts, o)
			}
		}
		if len(alts) > 0 {
			r.class("reban:shorter-than-ban-in-force")
		} else {
			r.class("reban:other")
		}
	}
	e.cur, e.alts, e.lifted, e.gone = &rec, alts, false, false
	e.qBefore, e.reopened = false, false
	e.forms |= t.form
	e.banStyle = t.style.name
	r.bans = append(r.bans, bsBanRef{a: t.a, mask: t.maskNm, key: t.key})
	if dur <= 0 {
		r.class("ban:duration<=0")
	}
	r.class("mask:%s", t.maskNm)
	r.class("spelling:%s", t.style.name)
	r.v.Logf("%s ban %q [%s of %v] mask %s reason %d for %v -> key %s expiry t+%.9fs", r.at(), t.text, t.style.name, t.addr, t.maskNm, op.Reason, dur, t.key, rec.exp.Sub(r.t0).Seconds())
}

func (r *bsRun) doUnban(op bsOp) {
	t := r.resolve(op)
	n, ok := r.parse(t, "unban")
	if !ok {
		return
	}
	var err error
	if p := bsGuard(func() { err = r.store.UnbanIPNet(n) }); p != "" {
		r.fail(nil, 0, "C13/panic/unban", "UnbanIPNet(%v) panics: %s", n, p)
		return
	}
	if !t.ok {
		r.rejected(t, "unban", err)
		return
	}
	if err != nil {
		// Lifting a ban (or a ban that does not exist) is not an unsupported
		// input; the store documents no error for it.
		r.fail(r.model[t.key], t.form, "C13/op-error/unban", "UnbanIPNet(%v [%q]) fails: %v", n, t.text, err)
		return
	}
	e := r.model[t.key]
	if e != nil && e.cur != nil {
		r.class("unban:of-record")
		if e.banStyle != t.style.name {
			r.class("unban:other-spelling")
		}
	} else {
		r.class("unban:no-record")
	}
	if e != nil {
		e.cur, e.alts, e.lifted, e.gone = nil, nil, true, true
		e.forms |= t.form
	}
	r.v.Logf("%s unban %q [%s of %v] mask %s -> key %s", r.at(), t.text, t.style.name, t.addr, t.maskNm, t.key)
}

// expOK: the stored expiry has one-second granularity by design; the reported
// expiration may be anywhere in (expiry-1s, expiry].
func bsExpOK(got, exp time.Time) bool {
	return !got.After(exp) && got.After(exp.Add(-time.Second))
}

// query performs one Status call and judges it against the model.
func (r *bsRun) query(t bsTarget, what string) (st banman.Status, answered bool) {
	n, ok := r.parse(t, what)
	if !ok {
		return st, false
	}
	var err error
	if p := bsGuard(func() { st, err = r.store.Status(n) }); p != "" {
		r.fail(nil, 0, "C13/panic/status", "Status(%v) panics: %s", n, p)
		return st, false
	}
	if !t.ok {
		r.rejected(t, "status", err)
		return st, false
	}
	e := r.model[t.key]
	if err != nil {
		r.fail(e, t.form, "C13/op-error/status", "Status(%v [%q]) fails: %v", n, t.text, err)
		return st, false
	}
	now := time.Now()
	desc := fmt.Sprintf("%s %s %q [%s of %v] mask %s key %s -> banned=%v reason=%d exp=t+%.3fs", r.at(), what, t.text, t.style.name, t.addr, t.maskNm, t.key,
		st.Banned, st.Reason, st.Expiration.Sub(r.t0).Seconds())
	if !st.Banned {
		desc = fmt.Sprintf("%s %s %q [%s of %v] mask %s key %s -> not banned", r.at(), what, t.text, t.style.name, t.addr, t.maskNm, t.key)
	}
	if e == nil || e.cur == nil {
		phase := "no-record"
		if e != nil && e.lifted {
			phase = "after-unban"
		}
		if !r.inSweep {
			r.class("query:%s", phase)
		}
		r.v.Logf("%s (model: %s)", desc, phase)
		if e != nil {
			e.forms |= t.form
		}
		if st.Banned {
			if phase == "after-unban" {
				r.fail(e, t.form, "C13/status/banned-after-unban", "%q (%s) is reported banned (reason %d) although its ban was lifted", t.text, t.key, st.Reason)
			} else {
				r.fail(e, t.form, "C13/status/banned-without-ban", "%q (%s) is reported banned (reason %d) but was never banned", t.text, t.key, st.Reason)
			}
		}
		return st, true
	}
	e.forms |= t.form
	cur := e.cur
	floorE := time.Unix(cur.exp.Unix(), 0)
	phase := "after"
	switch {
	case now.Before(floorE):
		phase = "before"
	case now.Before(cur.exp):
		phase = "window"
	}
	maxE := cur.exp
	altLive := false
	for _, a := range e.alts {
		if a.exp.After(maxE) {
			maxE = a.exp
		}
		if now.Before(a.exp) {
			altLive = true
		}
	}
	r.v.Logf("%s (model: %s expiry t+%.9fs reason %d%s)", desc, phase, cur.exp.Sub(r.t0).Seconds(), cur.reason, map[bool]string{true: ", longer earlier ban in force", false: ""}[altLive])
	if !r.inSweep {
		r.class("query:%s", phase)
		if e.banStyle != t.style.name {
			r.class("query:other-spelling-than-ban")
		}
		if t.addr != e.addr {
			r.class("query:other-host-of-same-network")
		}
		if phase == "window" {
			r.class("window-answer:banned=%v", st.Banned)
		}
		// non-triviality
		if e.reopened {
			r.nt = true
			r.class("nt:reopen-between-ban-and-query")
		}
		if phase == "before" {
			e.qBefore = true
		}
		if phase == "after" && e.qBefore {
			r.nt = true
			r.class("nt:query-on-both-sides-of-expiry")
		}
	}
	if !now.Before(maxE) {
		e.gone = true
	}
	if st.Banned {
		if phase != "after" && st.Reason == banman.Reason(cur.reason) && bsExpOK(st.Expiration, cur.exp) {
			return st, true
		}
		for _, a := range e.alts {
			if now.Before(a.exp) && st.Reason == banman.Reason(a.reason) && bsExpOK(st.Expiration, a.exp) {
				r.class("reban:earlier-longer-ban-reported")
				return st, true
			}
		}
		switch {
		case phase == "after" && !altLive:
			r.fail(e, t.form, "C13/status/banned-after-expiry", "%q (%s) is reported banned at %s, but its ban lapsed at t+%.9fs (reported expiration t+%.9fs)", t.text, t.key, r.at(), cur.exp.Sub(r.t0).Seconds(), st.Expiration.Sub(r.t0).Seconds())
		case st.Reason != banman.Reason(cur.reason) && !altLive:
			r.fail(e, t.form, "C13/status/wrong-reason", "%q (%s) is banned with reason %d, recorded reason is %d", t.text, t.key, st.Reason, cur.reason)
		default:
			r.fail(e, t.form, "C13/status/wrong-expiration", "%q (%s) is banned with reason %d until t+%.9fs; recorded: reason %d until t+%.9fs (one second granularity allowed)", t.text, t.key, st.Reason, st.Expiration.Sub(r.t0).Seconds(), cur.reason, cur.exp.Sub(r.t0).Seconds())
		}
		return st, true
	}
	if phase == "before" {
		r.fail(e, t.form, "C13/status/not-banned-before-expiry", "%q (%s) is reported not banned at %s, but it is banned (reason %d) until t+%.9fs", t.text, t.key, r.at(), cur.reason, cur.exp.Sub(r.t0).Seconds())
	}
	return st, true
}

func (r *bsRun) doStatus(op bsOp) {
	t := r.resolve(op)
	first, ok := r.query(t, "status")
	if !ok || !op.All || r.v.Violation != "" || r.v.Harness != "" {
		return
	}
	// the same network through every spelling, at the same instant
	r.class("status-all-spellings")
	for s := 0; s < 12; s++ {
		t2 := r.target(t.a, t.maskNm, s, op.Port)
		if t2.text == t.text {
			continue
		}
		st, ok := r.query(t2, "status*")
		if r.v.Violation != "" || r.v.Harness != "" {
			return
		}
		if !ok {
			continue
		}
		if st.Banned != first.Banned || (st.Banned && (st.Reason != first.Reason || !st.Expiration.Equal(first.Expiration))) {
			r.fail(r.model[t.key], t.form, "C13/status/spellings-disagree", "at the same instant %q answers %+v and %q answers %+v (same network %s)", t.text, first, t2.text, st, t.key)
			return
		}
	}
}

func (r *bsRun) doAdvance(op bsOp) {
	var d time.Duration
	switch op.Adv {
	case "ns":
		d = time.Duration(op.N)
	case "ms":
		d = time.Duration(op.N) * time.Millisecond
	case "s":
		d = time.Duration(op.N) * time.Second
	case "h":
		d = time.Duration(op.N) * time.Hour
	case "toexp", "tofloor":
		if len(r.bans) == 0 {
			r.class("advance:%s/no-ban", op.Adv)
			return
		}
		b := r.bans[len(r.bans)-1-op.Back%len(r.bans)]
		e := r.model[b.key]
		if e == nil || e.cur == nil {
			r.class("advance:%s/lifted", op.Adv)
			return
		}
		at := e.cur.exp
		if op.Adv == "tofloor" {
			at = time.Unix(at.Unix(), 0)
		}
		d = time.Until(at.Add(time.Duration(op.Delta)))
		if d <= 0 || d > 100*24*time.Hour {
			r.class("advance:%s/not-reachable", op.Adv)
			r.v.Logf("%s advance %s%+d of %s: not in the (near) future, clock not moved", r.at(), op.Adv, op.Delta, b.key)
			return
		}
		r.class("advance:%s/hit", op.Adv)
	}
	if d > 0 {
		time.Sleep(d)
	}
	r.v.Logf("%s clock advanced by %v (%s)", r.at(), d, op.Adv)
}

func (r *bsRun) doReopen() bool {
	if err := r.db.Close(); err != nil {
		r.v.Harness = "close db: " + err.Error()
		return false
	}
	r.db, r.store = nil, nil
	if !r.open(false) {
		return false
	}
	for _, e := range r.model {
		if e.cur != nil {
			e.reopened = true
		}
	}
	r.v.Logf("%s database closed and reopened", r.at())
	return true
}

func (r *bsRun) doJunk(op bsOp) {
	if _, _, ok := bsRefHost(op.Junk); ok {
		r.v.Harness = fmt.Sprintf("junk text %q is an IP address by the reference", op.Junk)
		return
	}
	var n *net.IPNet
	var err error
	m := bsMask(op.Mask, true)
	if p := bsGuard(func() { n, err = banman.ParseIPNet(op.Junk, m) }); p != "" {
		r.fail(nil, 0, "C13/panic/parse", "ParseIPNet(%.60q, %v) panics: %s", op.Junk, m, p)
		return
	}
	if err == nil {
		r.fail(nil, 0, "C13/parse/junk-accepted", "ParseIPNet(%.60q, %v) = %v without an error", op.Junk, m, n)
		return
	}
	r.class("rejected:junk")
	r.v.Logf("%s parse %.40q: rejected (%v) - required", r.at(), op.Junk, err)
}

// sweep queries every network of the model through one spelling style.
// counted=false: a closing sweep added by the harness, which is left out of
// the classification and of the non-triviality rule.
func (r *bsRun) sweep(what string, styleN, port int, counted bool) {
	r.inSweep = !counted
	defer func() { r.inSweep = false }()
	keys := make([]string, 0, len(r.model))
	for k := range r.model {
		keys = append(keys, k)
	}
	sort.Strings(keys)
	for _, k := range keys {
		e := r.model[k]
		text, style := bsSpell(e.addr, styleN, port)
		form := 1
		if _, f16, _ := bsRefKey(e.addr, e.mask); f16 {
			form = 2
		}
		if (e.forms|form) == 3 && e.forms != 3 {
			// do not let the sweep itself mix the two mask forms
			continue
		}
		maskNm := "nil"
		if e.mask != nil {
			maskNm = fmt.Sprintf("%x", []byte(e.mask))
		}
		t := bsTarget{addr: e.addr, maskNm: maskNm, mask: e.mask, text: text, style: style, key: k, form: form, ok: true}
		r.query(t, what)
		if r.v.Violation != "" || r.v.Harness != "" {
			return
		}
	}
}

// rawCheck: "The record will exist until a call to Status is made after the
// ban expiration" (BanIPNet) and UnbanIPNet "removes" it: no record may be
// left for a network whose ban was lifted or was seen lapsed by Status, the
// two indexes must agree, and every key must be a network of the model.
func (r *bsRun) rawCheck() {
	recs, orphans, err := bsRawScan(r.db)
	if err != nil {
		r.v.Harness = "raw scan: " + err.Error()
		return
	}
	for _, k := range orphans {
		r.fail(nil, 0, "C13/raw/orphan-reason", "reason index holds key %x without a ban record", k)
		return
	}
	for _, rec := range recs {
		if len(rec.reason) != 1 {
			r.fail(nil, 0, "C13/raw/no-reason", "ban record %x has reason entry %x", rec.key, rec.reason)
			return
		}
		n, err := bsDecodeRawKey(rec.key)
		var key string
		ok := false
		if err == nil {
			key, ok = bsNetKey(n)
		}
		if !ok {
			r.fail(nil, 0, "C13/raw/undecodable-key", "ban record key %x is not an encoded IP network (%v)", rec.key, err)
			return
		}
		e := r.model[key]
		switch {
		case e == nil:
			r.fail(nil, 0, "C13/raw/unknown-record", "database holds a ban record for %v (%s) that was never banned", n, key)
		case e.forms == 3:
			// both mask forms of an IPv4 network were used: covered by the
			// narrow signature at query level, not judged here
		case e.gone:
			r.fail(e, 0, "C13/raw/stale-record", "database still holds the record of %v (%s) although the ban was lifted or was seen lapsed by a Status call", n, key)
		}
		if r.v.Violation != "" {
			return
		}
	}
	r.class("raw-records-left:%s", bsBucket(len(recs)))
}

func bsBucket(n int) string {
	switch {
	case n == 0:
		return "0"
	case n <= 2:
		return "1-2"
	case n <= 5:
		return "3-5"
	case n <= 10:
		return "6-10"
	case n <= 20:
		return "11-20"
	}
	return ">20"
}

func (r *bsRun) stopped() bool { return r.v.Violation != "" || r.v.Harness != "" }

func (r *bsRun) body() {
	r.t0 = time.Now()
	if !r.open(true) {
		return
	}
	defer func() {
		if r.db != nil {
			r.db.Close()
		}
	}()
	if r.c.StartNs > 0 {
		time.Sleep(time.Duration(r.c.StartNs))
	}
	for _, op := range r.c.Ops {
		switch op.Kind {
		case "ban":
			r.doBan(op)
		case "unban":
			r.doUnban(op)
		case "status":
			r.doStatus(op)
		case "census":
			r.class("census")
			r.sweep("census", op.Style, op.Port, true)
		case "advance":
			r.doAdvance(op)
		case "reopen":
			if !r.doReopen() {
				return
			}
		case "junk":
			r.doJunk(op)
		default:
			r.v.Harness = "unknown op kind " + op.Kind
		}
		if r.stopped() {
			return
		}
	}
	// Closing sweeps (not counted for non-triviality): every network now,
	// again after a reopen, again after every reachable expiry has passed;
	// then the raw database content.
	r.sweep("final", 0, 0, false)
	if r.stopped() || !r.doReopen() {
		return
	}
	r.sweep("final-reopened", 1, 8333, false)
	if r.stopped() {
		return
	}
	var last time.Time
	now := time.Now()
	for _, e := range r.model {
		if e.cur == nil {
			continue
		}
		for _, x := range append([]bsRec{*e.cur}, e.alts...) {
			if x.exp.After(last) && x.exp.Sub(now) < 48*time.Hour {
				last = x.exp
			}
		}
	}
	if last.After(now) {
		time.Sleep(time.Until(last))
		r.v.Logf("%s clock advanced to the last reachable expiry", r.at())
		r.sweep("final-lapsed", 2, 0, false)
		if r.stopped() {
			return
		}
	}
	r.rawCheck()
}

func bsRunCase(t *testing.T, c bsCase) kit.Verdict {
	var v kit.Verdict
	r := &bsRun{v: &v, c: c, model: map[string]*bsEntry{}, classes: map[string]bool{}}
	for _, s := range c.Addrs {
		a, err := netip.ParseAddr(s)
		if err != nil {
			v.Harness = "bad pool address " + s
			return v
		}
		r.addrs = append(r.addrs, a.Unmap())
	}
	if len(r.addrs) == 0 {
		v.Harness = "empty address pool"
		return v
	}
	dir, err := os.MkdirTemp(bsTmpRoot(), "c13-store-")
	if err != nil {
		v.Harness = "mkdtemp: " + err.Error()
		return v
	}
	defer os.RemoveAll(dir)
	r.dir = dir

	func() {
		defer func() {
			if x := recover(); x != nil {
				buf := make([]byte, 1<<14)
				buf = buf[:runtime.Stack(buf, false)]
				v.Harness = fmt.Sprintf("panic in the harness or bubble: %v\n%s", x, buf)
			}
		}()
		synctest.Test(t, func(t *testing.T) { r.body() })
	}()

	v.Nontrivial = r.nt
	nb := len(r.bans)
	r.class("bans:%s", bsBucket(nb))
	r.class("ops:%s", bsBucket(len(c.Ops)))
	r.class("networks:%s", bsBucket(len(r.model)))
	fam := map[bool]string{true: "v4", false: "v6"}
	for _, a := range r.addrs {
		r.class("family:%s", fam[a.Is4()])
	}
	if r.nt {
		r.class("nontrivial")
	}
	cl := make([]string, 0, len(r.classes))
	for k := range r.classes {
		cl = append(cl, k)
	}
	sort.Strings(cl)
	v.Classes = cl
	if os.Getenv("VERIF_DEBUG") != "" && v.Violation != "" {
		fmt.Println(strings.Join(v.Trace, "\n"))
	}
	return v
}

func TestC13Store(t *testing.T) {
	kit.RunProp(t, kit.Prop[bsCase]{ID: "C13", Name: "banstore", Gen: bsGenCase, Run: bsRunCase})
}
