package netsim

import (
	"fmt"
	"testing"
	"time"

	"github.com/btcsuite/btcd/chainhash/v2"
	"github.com/btcsuite/btcd/wire/v2"
	"pgregory.net/rapid"

	"verifharness/kit"
)

// NodeRef names the node at height H on the path of branch B's tip.
type NodeRef struct {
	B int `json:"b"`
	H int `json:"h"`
}

// Event is one scripted step of a header-level simulation.
type Event struct {
	// Kind: connect | drop | view | headers | inv | advance | lie | garbage
	Kind string `json:"kind"`
	Peer int    `json:"peer"`
	// view/headers/inv: the node the event refers to.
	To NodeRef `json:"to"`
	// view: Announce sends an inv for the new tip.
	Announce bool `json:"announce,omitempty"`
	// headers: the batch is the Len headers ending at To; K/Mut mutate the
	// K-th header; Mode: "" | shuffle | gap | dupfirst.
	Len  int    `json:"len,omitempty"`
	K    int    `json:"k,omitempty"`
	Mut  string `json:"mut,omitempty"`
	Mode string `json:"mode,omitempty"`
	// headers: FromTip makes the batch start right above the client's
	// current stored tip when that tip lies on To's path (resolved at run
	// time), so that the batch connects.
	FromTip bool `json:"fromtip,omitempty"`
	// headers: Chase sends, right behind a batch mutated at index K >= 1,
	// the honest continuation that connects to the batch's valid prefix
	// (both messages are on the wire before the client reacts).
	Chase bool `json:"chase,omitempty"`
	// inv: InvKind known | unknown | mixed
	InvKind string `json:"invkind,omitempty"`
	// advance: seconds of virtual time.
	Secs int `json:"secs,omitempty"`
}

func (e Event) String() string {
	switch e.Kind {
	case "connect", "drop", "garbage":
		return fmt.Sprintf("%s p%d", e.Kind, e.Peer)
	case "view":
		return fmt.Sprintf("view p%d -> b%d@%d announce=%v", e.Peer, e.To.B, e.To.H, e.Announce)
	case "headers":
		return fmt.Sprintf("headers p%d to=b%d@%d len=%d fromtip=%v mut=%s@%d mode=%s chase=%v", e.Peer, e.To.B, e.To.H, e.Len, e.FromTip, e.Mut, e.K, e.Mode, e.Chase)
	case "lie":
		return fmt.Sprintf("lie p%d next-getheaders mut=%s@%d", e.Peer, e.Mut, e.K)
	case "inv":
		return fmt.Sprintf("inv p%d %s b%d@%d", e.Peer, e.InvKind, e.To.B, e.To.H)
	case "advance":
		return fmt.Sprintf("advance %ds", e.Secs)
	}
	return e.Kind
}

// Script is a complete header-level case.
type Script struct {
	World kit.WorldSpec `json:"world"`
	// NPeers peers exist; the first Initial of them are dialled at start.
	NPeers  int `json:"npeers"`
	Initial int `json:"initial"`
	// Views are the peers' initial best tips; ClaimExtra is added to the
	// height a peer advertises in its version message.
	Views      []NodeRef `json:"views"`
	ClaimExtra []int     `json:"claim_extra,omitempty"`
	// Prefill heights of the main branch already in the stores.
	Prefill int `json:"prefill,omitempty"`
	// InitLies[i], if Mut != "", mutates the reply of peer i to the first
	// getheaders it receives (a dishonest peer during initial sync).
	InitLies []Event `json:"init_lies,omitempty"`
	Events   []Event `json:"events"`
}

// Delivered describes what an event actually put on the wire.
type Delivered struct {
	Event   Event
	Index   int
	Sent    bool
	Headers []*wire.BlockHeader // for headers events (and lie answers: nil)
	// Nodes are the honest nodes the batch was built from (same length as
	// Headers unless Mode changed it).
	Nodes []*kit.Node
	// BadFrom is the index in Headers of the first header that is not an
	// honest world header (-1 if all are honest).
	BadFrom int
	At      int64 // virtual time of delivery
}

// Observer is called at every quiescent point of a script run.
type Observer interface {
	Started(s *Sim)
	After(s *Sim, d *Delivered)
	Finished(s *Sim)
}

// PreObserver is an optional extension of Observer: Before is called right
// before an event is applied (after any automatic reconnect wait).
type PreObserver interface {
	Before(s *Sim, index int, e Event)
}

// GenOpts biases the script generator.
type GenOpts struct {
	MaxBase, MaxFuture   int
	MaxBranches, MaxBLen int
	MaxPeers             int
	MinEvents, MaxEvents int
	Checkpoints          bool
	Tx                   bool
	ForkBias             bool // prefer view changes to fork branches
	Prefill              bool // allow pre-filled stores
	MinBase              int  // smallest main-branch length before the script
	FixedParams          bool // one cheap parameter set (large worlds)
}

// GenScript draws a header-level script.
func GenScript(t *rapid.T, o GenOpts) Script {
	p := kit.GenParams(t)
	if o.FixedParams {
		p = kit.ParamSpec{Retarget: 0, Spacing: 60, Adj: 4, VerFloor: 1}
	}
	base := rapid.IntRange(o.MinBase, o.MaxBase).Draw(t, "base")
	fut := rapid.IntRange(1, o.MaxFuture).Draw(t, "future")
	// Context mode (one case in six when stores may be pre-filled): the
	// client starts on a non-genesis tip with more than eleven stored
	// ancestors, the clocks are bursty, and the first answer of the first
	// peer carries a few valid headers followed by one that breaks a rule
	// which depends on the ancestors (median time, required bits). This is
	// the shape in which a validation context that forgets the stored
	// ancestors accepts a header it must refuse.
	ctxMode := o.Prefill && o.MaxBase >= 16 && kit.Uni(t, "ctxmode", 6) == 0
	pace := kit.Pick(t, "pace", []int{0, 1, 2, 3, 4, 4})
	if ctxMode {
		base = 14 + kit.Uni(t, "ctxbase", o.MaxBase-13)
		pace = kit.Pick(t, "ctxpace", []int{3, 4, 4})
	}
	ws := kit.WorldSpec{P: p, Seed: rapid.Uint64Range(0, 7).Draw(t, "wseed"), Base: base, Future: fut,
		Pace: pace, Tx: o.Tx}
	ws.Branches = kit.GenBranches(t, base+fut, base, o.MaxBranches, o.MaxBLen)
	if o.Checkpoints && base+fut > 2 {
		n := rapid.IntRange(0, 3).Draw(t, "ncp")
		last := 0
		for i := 0; i < n; i++ {
			h := rapid.IntRange(last+1, base+fut).Draw(t, "cp")
			if h <= last {
				break
			}
			ws.Checkpoints = append(ws.Checkpoints, h)
			last = h
			if last >= base+fut {
				break
			}
		}
	}
	sc := Script{World: ws}
	sc.NPeers = rapid.IntRange(1, o.MaxPeers).Draw(t, "npeers")
	sc.Initial = rapid.IntRange(1, sc.NPeers).Draw(t, "initial")
	if o.Prefill && base > 0 && rapid.IntRange(0, 2).Draw(t, "prefillp") == 0 {
		sc.Prefill = rapid.IntRange(1, base).Draw(t, "prefill")
	}
	if ctxMode {
		sc.Prefill = 11 + kit.Uni(t, "ctxprefill", base-12)
	}
	nb := len(ws.Branches)
	tipH := func(b int) int {
		if b == 0 {
			return base + fut
		}
		return ws.Branches[b-1].At + ws.Branches[b-1].Len
	}
	forkH := func(b int) int {
		if b == 0 {
			return 0
		}
		return ws.Branches[b-1].At
	}
	drawRefT := func(t *rapid.T, label string) NodeRef {
		b := 0
		if nb > 0 && (o.ForkBias || rapid.Bool().Draw(t, label+"onbranch")) {
			b = rapid.IntRange(0, nb).Draw(t, label+"b")
		}
		lo, hi := forkH(b), tipH(b)
		if b == 0 {
			lo = base - 3
			if lo < 0 {
				lo = 0
			}
		}
		if lo > hi {
			lo = hi
		}
		h := hi
		if rapid.IntRange(0, 2).Draw(t, label+"tipp") != 0 {
			h = rapid.IntRange(lo, hi).Draw(t, label+"h")
		}
		return NodeRef{B: b, H: h}
	}
	drawRef := func(label string) NodeRef { return drawRefT(t, label) }
	for i := 0; i < sc.NPeers; i++ {
		v := NodeRef{B: 0, H: base}
		if rapid.IntRange(0, 4).Draw(t, "viewalt") == 0 {
			v = drawRef("iv")
		}
		sc.Views = append(sc.Views, v)
		ce := 0
		if rapid.IntRange(0, 5).Draw(t, "claimalt") == 0 {
			ce = rapid.IntRange(1, 50).Draw(t, "claimextra")
		}
		sc.ClaimExtra = append(sc.ClaimExtra, ce)
		il := Event{}
		if rapid.IntRange(0, 2).Draw(t, "initlie") == 0 {
			il.Mut = kit.GenMut(t, "ilmut")
			il.K = rapid.IntRange(0, 12).Draw(t, "ilk")
		}
		if ctxMode && i == 0 {
			il.Mut = kit.Pick(t, "ctxmut", []string{kit.MutMTP, kit.MutMTP, kit.MutBits})
			il.K = 1 + kit.Uni(t, "ctxk", 9)
		}
		sc.InitLies = append(sc.InitLies, il)
	}
	kinds := []string{"view", "view", "view", "headers", "headers", "headers", "inv", "advance", "drop", "connect", "lie", "garbage"}
	evGen := rapid.Custom(func(t *rapid.T) Event {
		e := Event{Kind: kit.Pick(t, "kind", kinds), Peer: rapid.IntRange(0, sc.NPeers-1).Draw(t, "peer")}
		switch e.Kind {
		case "view":
			e.To = drawRefT(t, "v")
			e.Announce = rapid.IntRange(0, 4).Draw(t, "announce") != 0
		case "headers":
			e.To = drawRefT(t, "h")
			e.Len = rapid.IntRange(1, 12).Draw(t, "len")
			e.FromTip = rapid.Bool().Draw(t, "fromtip")
			if rapid.IntRange(0, 5).Draw(t, "longbatch") == 0 {
				e.Len = rapid.IntRange(1, 60).Draw(t, "lenlong")
			}
			switch kit.Uni(t, "mutp", 6) {
			case 0, 1:
				e.Mut = kit.GenMut(t, "mut")
				e.K = rapid.IntRange(0, e.Len-1).Draw(t, "k")
				e.Chase = e.K >= 1 && kit.Uni(t, "chase", 3) == 0
			case 2:
				e.Mode = kit.Pick(t, "mode", []string{"shuffle", "gap", "dupfirst"})
			}
		case "lie":
			e.Mut = kit.GenMut(t, "mut")
			e.K = rapid.IntRange(0, 8).Draw(t, "k")
		case "inv":
			e.To = drawRefT(t, "i")
			e.InvKind = kit.Pick(t, "invkind", []string{"known", "unknown", "mixed"})
		case "advance":
			e.Secs = kit.Pick(t, "secs", []int{1, 3, 10, 40, 120, 700})
		}
		return e
	})
	sc.Events = rapid.SliceOfN(evGen, o.MinEvents, o.MaxEvents).Draw(t, "events")
	if o.Checkpoints && !ctxMode && o.MaxBase >= 20 && o.MinBase == 0 && kit.Uni(t, "cpmode", 6) == 0 {
		checkpointMode(t, &sc, o)
	}
	return sc
}

// checkpointMode rewrites the script into the shape in which the client's
// notion of "the next header checkpoint" matters: two checkpoints on the main
// branch, the client synced (from peer 0, its sync peer) to a height between
// them, a competing branch that forks there and runs across the height of the
// second checkpoint with another block, and a script that opens with headers
// messages which do not extend the tip (known headers, an empty message, a
// duplicate) before the branch is revealed from the client's tip on - by the
// sync peer or by another peer. The branch must never be stored at or beyond
// the checkpoint's height.
func checkpointMode(t *rapid.T, sc *Script, o GenOpts) {
	base := rapid.IntRange(14, max(14, o.MaxBase)).Draw(t, "cpbase")
	cp1 := rapid.IntRange(2, base-8).Draw(t, "cp1")
	cp2 := rapid.IntRange(cp1+3, base).Draw(t, "cp2")
	f := rapid.IntRange(cp1, cp2-1).Draw(t, "cpfork")
	sc.World.Base = base
	sc.World.Future = rapid.IntRange(1, 10).Draw(t, "cpfut")
	sc.World.Checkpoints = []int{cp1, cp2}
	sc.World.Branches = []kit.BranchSpec{{Parent: 0, At: f, Len: cp2 - f + rapid.IntRange(1, 8).Draw(t, "cpblen"), Pace: kit.Pick(t, "cpbpace", []int{0, 1, 2})}}
	sc.NPeers = rapid.IntRange(1, 3).Draw(t, "cpnpeers")
	sc.Initial = sc.NPeers
	sc.Prefill = 0
	sc.Views, sc.ClaimExtra, sc.InitLies = nil, nil, nil
	for i := 0; i < sc.NPeers; i++ {
		sc.Views = append(sc.Views, NodeRef{B: 0, H: f})
		sc.ClaimExtra = append(sc.ClaimExtra, 0)
		sc.InitLies = append(sc.InitLies, Event{})
	}
	var ev []Event
	for i, n := 0, rapid.IntRange(0, 3).Draw(t, "cppre"); i < n; i++ {
		switch kit.Uni(t, "cpprek", 4) {
		case 0:
			ev = append(ev, Event{Kind: "advance", Secs: kit.Pick(t, "cpsecs", []int{1, 3, 10})})
		case 1:
			// a single known header
			ev = append(ev, Event{Kind: "headers", Peer: 0, To: NodeRef{B: 0, H: f}, Len: 1})
		default:
			// the last few headers again: nothing extends the tip
			ev = append(ev, Event{Kind: "headers", Peer: rapid.IntRange(0, sc.NPeers-1).Draw(t, "cpkp"), To: NodeRef{B: 0, H: f - rapid.IntRange(0, 2).Draw(t, "cpkback")},
				Len: rapid.IntRange(1, 6).Draw(t, "cpklen")})
		}
	}
	// the branch, from the client's tip on, across the second checkpoint
	ev = append(ev, Event{Kind: "headers", Peer: kit.Pick(t, "cpbp", []int{0, 0, sc.NPeers - 1}), To: NodeRef{B: 1, H: 1 << 20}, Len: rapid.IntRange(cp2-f, cp2-f+8).Draw(t, "cpblen2"), FromTip: true})
	for i, n := 0, rapid.IntRange(0, 4).Draw(t, "cppost"); i < n; i++ {
		switch kit.Uni(t, "cppostk", 3) {
		case 0:
			ev = append(ev, Event{Kind: "advance", Secs: kit.Pick(t, "cpsecs2", []int{1, 10, 40})})
		case 1:
			ev = append(ev, Event{Kind: "view", Peer: rapid.IntRange(0, sc.NPeers-1).Draw(t, "cpvp"), To: NodeRef{B: 0, H: base + sc.World.Future}, Announce: true})
		default:
			ev = append(ev, Event{Kind: "headers", Peer: rapid.IntRange(0, sc.NPeers-1).Draw(t, "cphp"), To: NodeRef{B: 1, H: 1 << 20}, Len: rapid.IntRange(1, 12).Draw(t, "cphl"), FromTip: rapid.Bool().Draw(t, "cphft")})
		}
	}
	sc.Events = ev
}

type liePlan struct {
	K   int
	Mut string
}

// Exec runs the script against a fresh client, calling the observers at each
// quiescent point. It returns the simulation result.
func Exec(t *testing.T, sc Script, cfg Config, obs ...Observer) Result {
	w := kit.BuildWorld(sc.World)
	cfg.World = w
	cfg.NumPeers = sc.NPeers
	cfg.Initial = nil
	for i := 0; i < sc.Initial && i < sc.NPeers; i++ {
		cfg.Initial = append(cfg.Initial, i)
	}
	cfg.Prefill = sc.Prefill
	resolve := func(r NodeRef) *kit.Node {
		n := w.Node(r.B, r.H)
		if n == nil {
			if r.B >= 0 && r.B < len(w.Br) {
				return w.Br[r.B].Tip()
			}
			return w.Br[0].Tip()
		}
		return n
	}
	setup := func(s *Sim) {
		// peer setup (before the client starts)
		for i, p := range s.Peers {
			p.view = resolve(sc.Views[i])
			if i < len(sc.ClaimExtra) && sc.ClaimExtra[i] > 0 {
				p.ClaimHeight = p.view.Height + int32(sc.ClaimExtra[i])
			}
			if i < len(sc.InitLies) && sc.InitLies[i].Mut != "" {
				s.lies[i] = &liePlan{K: sc.InitLies[i].K, Mut: sc.InitLies[i].Mut}
			}
			pi := i
			p.Override = func(p *Peer, m wire.Message) bool {
				gh, ok := m.(*wire.MsgGetHeaders)
				if !ok {
					return false
				}
				s.mu.Lock()
				lp := s.lies[pi]
				delete(s.lies, pi)
				s.mu.Unlock()
				if lp == nil {
					return false
				}
				hon := p.HeadersFor(gh)
				if len(hon) == 0 {
					return false
				}
				var nodes []*kit.Node
				for _, h := range hon {
					nodes = append(nodes, w.ByHash[h.BlockHash()])
				}
				k := lp.K
				if k >= len(nodes) {
					k = len(nodes) - 1
				}
				p.SendHeaders(w.Batch(nodes, k, lp.Mut))
				return true
			}
		}
	}
	return Run(t, cfg, setup, func(s *Sim) {
		wanted := map[int]bool{}
		for i := 0; i < sc.Initial; i++ {
			wanted[i] = true
		}
		for _, o := range obs {
			o.Started(s)
		}
		for i, e := range sc.Events {
			if e.Peer < 0 || e.Peer >= len(s.Peers) {
				continue
			}
			p := s.Peers[e.Peer]
			if wanted[e.Peer] && !p.Connected() && e.Kind != "advance" && e.Kind != "connect" && e.Kind != "lie" {
				// The client redials persistent peers with a growing
				// back-off; give it (virtual) time to do so.
				for k := 0; k < 12 && !p.Connected(); k++ {
					if !s.Advance(time.Duration(6*(k+1)) * time.Second) {
						return
					}
				}
			}
			for _, o := range obs {
				if po, ok := o.(PreObserver); ok {
					po.Before(s, i, e)
				}
			}
			d := &Delivered{Event: e, Index: i, BadFrom: -1, At: Now()}
			switch e.Kind {
			case "connect":
				if !wanted[e.Peer] {
					_ = s.Connect(e.Peer)
					wanted[e.Peer] = true
					d.Sent = true
				}
			case "drop":
				d.Sent = p.Connected()
				p.Disconnect()
			case "view":
				p.SetView(resolve(e.To), e.Announce)
				d.Sent = p.Connected()
			case "lie":
				s.mu.Lock()
				s.lies[e.Peer] = &liePlan{K: e.K, Mut: e.Mut}
				s.mu.Unlock()
				d.Sent = true
			case "headers":
				to := resolve(e.To)
				n := e.Len
				if n > int(to.Height) {
					n = int(to.Height)
				}
				if n <= 0 {
					break
				}
				from := to.Height - int32(n)
				if e.FromTip {
					if th, tip, err := s.CS.BlockHeaders.ChainTip(); err == nil {
						if a := to.Ancestor(int32(tip)); a != nil && a.Hash == th.BlockHash() && int32(tip) < to.Height {
							from = int32(tip)
							if to.Height-from > int32(e.Len) {
								to = to.Ancestor(from + int32(e.Len))
							}
						}
					}
				}
				nodes := kit.Segment(from, to)
				hdrs := w.Batch(nodes, e.K, e.Mut)
				if e.Mut != "" && e.K >= 0 && e.K < len(nodes) {
					d.BadFrom = e.K
				}
				switch e.Mode {
				case "shuffle":
					if len(hdrs) >= 2 {
						hdrs[0], hdrs[len(hdrs)-1] = hdrs[len(hdrs)-1], hdrs[0]
						nodes = nil
					}
				case "gap":
					if len(hdrs) >= 3 {
						hdrs = append(hdrs[:1:1], hdrs[2:]...)
						nodes = nil
					}
				case "dupfirst":
					hdrs = append(hdrs, hdrs[0])
					nodes = nil
				}
				d.Headers, d.Nodes = hdrs, nodes
				d.Sent = p.SendHeaders(hdrs)
				if e.Chase && e.Mut != "" && e.K >= 1 && e.K < len(nodes) && e.Mode == "" {
					p.SendHeaders(w.Batch(nodes[e.K:], -1, ""))
				}
			case "inv":
				to := resolve(e.To)
				inv := wire.NewMsgInv()
				unk := chainhash.HashH([]byte(fmt.Sprintf("unknown-%d", i)))
				switch e.InvKind {
				case "known":
					_ = inv.AddInvVect(wire.NewInvVect(wire.InvTypeBlock, &to.Hash))
				case "unknown":
					_ = inv.AddInvVect(wire.NewInvVect(wire.InvTypeBlock, &unk))
				default:
					_ = inv.AddInvVect(wire.NewInvVect(wire.InvTypeTx, &unk))
					_ = inv.AddInvVect(wire.NewInvVect(wire.InvTypeBlock, &to.Hash))
					_ = inv.AddInvVect(wire.NewInvVect(wire.InvTypeBlock, &unk))
				}
				d.Sent = p.Send(inv)
			case "garbage":
				d.Sent = p.SendRaw([]byte("\x00\x01garbage-not-a-bitcoin-message-\xff\xfe\xfd\xfc\x00\x00\x00\x00\x00\x00"))
			case "advance":
				s.Advance(time.Duration(e.Secs) * time.Second)
				d.Sent = true
			}
			if !s.Settle() {
				return
			}
			for _, o := range obs {
				o.After(s, d)
			}
		}
		for _, o := range obs {
			o.Finished(s)
		}
	})
}
