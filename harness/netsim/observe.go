package netsim

import (
	"fmt"

	"github.com/btcsuite/btcd/chainhash/v2"
	"github.com/btcsuite/btcd/wire/v2"
	"github.com/lightninglabs/neutrino/headerfs"
)

// ChainSnap is the full content of a block-header store read by height.
type ChainSnap struct {
	Tip    uint32
	Hdrs   []*wire.BlockHeader
	Hashes []chainhash.Hash
}

// SnapChain reads ChainTip and every header by height. Any failing read is
// reported as an error string (the store must be readable at every instant).
func SnapChain(bs headerfs.BlockHeaderStore) (*ChainSnap, string) {
	tipHdr, tip, err := bs.ChainTip()
	if err != nil {
		return nil, fmt.Sprintf("ChainTip fails: %v", err)
	}
	sn := &ChainSnap{Tip: tip, Hdrs: make([]*wire.BlockHeader, tip+1), Hashes: make([]chainhash.Hash, tip+1)}
	for h := uint32(0); h <= tip; h++ {
		hdr, err := bs.FetchHeaderByHeight(h)
		if err != nil {
			return nil, fmt.Sprintf("FetchHeaderByHeight(%d) fails with tip %d: %v", h, tip, err)
		}
		sn.Hdrs[h] = hdr
		sn.Hashes[h] = hdr.BlockHash()
	}
	if tipHdr.BlockHash() != sn.Hashes[tip] {
		return sn, fmt.Sprintf("ChainTip header %v differs from header at tip height %d (%v)", tipHdr.BlockHash(), tip, sn.Hashes[tip])
	}
	return sn, ""
}

// CheckLookups verifies that by-hash lookups agree with the by-height
// snapshot for heights >= from, that heights above the tip are absent and
// that the hashes in gone are not found.
func CheckLookups(bs headerfs.BlockHeaderStore, sn *ChainSnap, from uint32, gone map[chainhash.Hash]bool) string {
	for h := from; h <= sn.Tip; h++ {
		hash := sn.Hashes[h]
		hdr, hh, err := bs.FetchHeader(&hash)
		if err != nil {
			return fmt.Sprintf("FetchHeader(hash of height %d) fails: %v", h, err)
		}
		if hh != h || hdr.BlockHash() != hash {
			return fmt.Sprintf("FetchHeader(hash of height %d) returns height %d hash %v", h, hh, hdr.BlockHash())
		}
		h2, err := bs.HeightFromHash(&hash)
		if err != nil || h2 != h {
			return fmt.Sprintf("HeightFromHash(hash of height %d) = %d, %v", h, h2, err)
		}
	}
	for d := uint32(1); d <= 2; d++ {
		if hdr, err := bs.FetchHeaderByHeight(sn.Tip + d); err == nil {
			return fmt.Sprintf("FetchHeaderByHeight(%d) above tip %d succeeds (%v)", sn.Tip+d, sn.Tip, hdr.BlockHash())
		}
	}
	for g := range gone {
		g := g
		if _, h, err := bs.FetchHeader(&g); err == nil {
			return fmt.Sprintf("hash %v that left the chain is still found at height %d", g, h)
		}
		if h, err := bs.HeightFromHash(&g); err == nil {
			return fmt.Sprintf("hash %v that left the chain still has height %d", g, h)
		}
	}
	return ""
}

// FilterSnap is the content of the filter-header store read by height.
type FilterSnap struct {
	Tip  uint32
	Hdrs []chainhash.Hash
}

func SnapFilters(fs headerfs.FilterHeaderStore) (*FilterSnap, string) {
	tipHdr, tip, err := fs.ChainTip()
	if err != nil {
		return nil, fmt.Sprintf("filter ChainTip fails: %v", err)
	}
	sn := &FilterSnap{Tip: tip, Hdrs: make([]chainhash.Hash, tip+1)}
	for h := uint32(0); h <= tip; h++ {
		x, err := fs.FetchHeaderByHeight(h)
		if err != nil {
			return nil, fmt.Sprintf("filter FetchHeaderByHeight(%d) fails with tip %d: %v", h, tip, err)
		}
		sn.Hdrs[h] = *x
	}
	if *tipHdr != sn.Hdrs[tip] {
		return sn, fmt.Sprintf("filter ChainTip value differs from entry at tip height %d", tip)
	}
	return sn, ""
}
