package netsim

import (
	"fmt"
	"net"
	"runtime"
	"sync"
	"sync/atomic"
	"time"

	"github.com/btcsuite/btcd/chainhash/v2"
	"github.com/btcsuite/btcd/wire/v2"

	"verifharness/kit"
)

const pver = wire.AddrV2Version

// Peer is a scripted full node speaking raw wire messages.
type Peer struct {
	Sim  *Sim
	Idx  int
	Addr *net.TCPAddr

	mu   sync.Mutex
	view *kit.Node
	conn net.Conn
	wmu  sync.Mutex

	// Advertised in the version message.
	Services    wire.ServiceFlag
	ClaimHeight int32 // if >0 overrides the advertised height

	// Refuse makes the dialer fail for this peer (set before the run; use
	// SetRefuse to change it while the client is running).
	Refuse bool
	refuse atomic.Bool

	// Manual: requests are queued in Pending instead of being answered.
	Manual  bool
	Pending []wire.Message

	// Override, if set, sees every request before the default server;
	// returning true means it was handled.
	Override func(p *Peer, m wire.Message) bool

	// Behaviour knobs of the default server.
	EmptyHeaders bool   // answer getheaders with an empty headers message
	Silent       bool   // answer nothing after the handshake (pings too)
	LieCFFrom    int32  // >0: filter hashes at heights >= this are falsified
	LieCFKind    string // how: see FHash
	LieCkptFrom  int32  // >0: cfcheckpt entries at heights >= this are falsified
	NoFilters    bool   // do not answer getcfilters
	NoBlocks     bool   // do not answer getdata(block)

	// Delay, if >0, is the virtual time the peer takes to answer each
	// request (requests are answered one after the other).
	Delay time.Duration
	// OnSend, if set (in setup, before the peer serves), is called with
	// every message right before it is written to the connection.
	OnSend func(p *Peer, m wire.Message)

	// Log of received request commands, and counters.
	Recv       []string
	Sessions   int
	GotHeaders int // number of getheaders received
	// Lied is set once the peer has put a falsified filter header, filter
	// hash or filter checkpoint on the wire.
	Lied bool
}

// SetRefuse makes the dialer fail (or succeed again) for this peer; safe
// while the client is running.
func (p *Peer) SetRefuse(v bool) { p.refuse.Store(v) }

// Refusing reports whether dials to this peer fail.
func (p *Peer) Refusing() bool { return p.Refuse || p.refuse.Load() }

// SessionCount is the number of sessions (dials that reached the peer) so far.
func (p *Peer) SessionCount() int { p.mu.Lock(); defer p.mu.Unlock(); return p.Sessions }

// HasLied reports whether the peer has served falsified filter data.
func (p *Peer) HasLied() bool { p.mu.Lock(); defer p.mu.Unlock(); return p.Lied }

func (p *Peer) noteLie() { p.mu.Lock(); p.Lied = true; p.mu.Unlock() }

func (p *Peer) String() string { return p.Addr.String() }

func (p *Peer) View() *kit.Node { p.mu.Lock(); defer p.mu.Unlock(); return p.view }

func (p *Peer) Connected() bool { p.mu.Lock(); defer p.mu.Unlock(); return p.conn != nil }

// SetView moves the peer's best tip; announce sends an inv for it.
func (p *Peer) SetView(n *kit.Node, announce bool) {
	p.mu.Lock()
	p.view = n
	p.mu.Unlock()
	if announce {
		inv := wire.NewMsgInv()
		_ = inv.AddInvVect(wire.NewInvVect(wire.InvTypeBlock, &n.Hash))
		p.Send(inv)
	}
}

// serveConns maps the goroutine serving a session to that session's
// connection: a reply sent from inside a request handler (default server or
// Override) goes out on the connection the request came in on, also when the
// client holds a second, newer connection to the same peer.
var serveConns sync.Map

func goid() int64 {
	var buf [64]byte
	n := runtime.Stack(buf[:], false)
	// "goroutine 123 [running]:..."
	var id int64
	for _, ch := range buf[10:n] {
		if ch < '0' || ch > '9' {
			break
		}
		id = id*10 + int64(ch-'0')
	}
	return id
}

// Send writes a message on the session whose request is being handled by the
// calling goroutine, otherwise on the most recent session (no-op when
// disconnected).
func (p *Peer) Send(m wire.Message) bool {
	if c, ok := serveConns.Load(goid()); ok {
		p.send(c.(net.Conn), m)
		return true
	}
	p.mu.Lock()
	c := p.conn
	p.mu.Unlock()
	if c == nil {
		return false
	}
	p.send(c, m)
	return true
}

// SendRaw writes raw bytes on the current session.
func (p *Peer) SendRaw(b []byte) bool {
	p.mu.Lock()
	c := p.conn
	p.mu.Unlock()
	if c == nil {
		return false
	}
	p.wmu.Lock()
	defer p.wmu.Unlock()
	_, _ = c.Write(b)
	return true
}

func (p *Peer) send(c net.Conn, m wire.Message) {
	if f := p.OnSend; f != nil {
		f(p, m)
	}
	p.wmu.Lock()
	defer p.wmu.Unlock()
	if h, ok := m.(*wire.MsgHeaders); ok {
		p.Sim.noteHeadersSent(p, h)
	}
	_, _ = wire.WriteMessageWithEncodingN(c, m, pver, p.Sim.W.Params.Net, wire.WitnessEncoding)
}

// Disconnect closes the current session from the peer's side.
func (p *Peer) Disconnect() {
	p.mu.Lock()
	c := p.conn
	p.mu.Unlock()
	if c != nil {
		c.Close()
	}
}

// SendHeaders sends an unsolicited / scripted headers message.
func (p *Peer) SendHeaders(hdrs []*wire.BlockHeader) bool {
	m := wire.NewMsgHeaders()
	for _, h := range hdrs {
		hh := *h
		if err := m.AddBlockHeader(&hh); err != nil {
			break
		}
	}
	return p.Send(m)
}

// lie reports whether this peer falsifies the filter of n, and how.
func (p *Peer) lie(n *kit.Node) string {
	if p.LieCFFrom > 0 && n.Height >= p.LieCFFrom {
		k := p.LieCFKind
		if k == "" {
			k = "inconsistent"
		}
		return k
	}
	return ""
}

// FHash is the filter hash this peer claims for n.
//
// Lie kinds (LieCFKind): "omit" - a consistent lie, the served filter leaves
// out an output script; "empty" - the same with a filter that has no entries at
// all; "extra" - a consistent lie that cannot be refuted
// from the block (superset filter); "inconsistent" - a made-up hash while the
// true filter is served; "unserved" - a made-up hash and no filter at all.
func (p *Peer) FHash(n *kit.Node) chainhash.Hash {
	switch p.lie(n) {
	case "":
		return n.FHash
	case "omit", "empty", "extra":
		if _, h, ok := p.Sim.W.FakeFilter(n, p.lie(n)); ok {
			return h
		}
	}
	return chainhash.HashH(append([]byte(fmt.Sprintf("lie-%d-", p.Idx)), n.FHash[:]...))
}

// FHdrs returns this peer's claimed filter headers along path.
func (p *Peer) FHdrs(path []*kit.Node) []chainhash.Hash {
	out := make([]chainhash.Hash, len(path))
	out[0] = path[0].FHdr
	for i := 1; i < len(path); i++ {
		fh := p.FHash(path[i])
		out[i] = chainhash.DoubleHashH(append(fh[:], out[i-1][:]...))
	}
	return out
}

// Serve handles one session until the conn closes.
func (p *Peer) Serve(c net.Conn) {
	p.mu.Lock()
	p.conn = c
	p.Sessions++
	p.mu.Unlock()
	id := goid()
	serveConns.Store(id, c)
	defer func() {
		serveConns.Delete(id)
		c.Close()
		p.mu.Lock()
		if p.conn == c {
			p.conn = nil
		}
		p.mu.Unlock()
	}()
	for {
		_, msg, _, err := wire.ReadMessageWithEncodingN(c, pver, p.Sim.W.Params.Net, wire.WitnessEncoding)
		if err != nil {
			if _, ok := err.(*wire.MessageError); ok {
				continue
			}
			return
		}
		p.handle(c, msg)
	}
}

func (p *Peer) handle(c net.Conn, msg wire.Message) {
	switch m := msg.(type) {
	case *wire.MsgVersion:
		tip := p.View()
		me := wire.NewNetAddressIPPort(p.Addr.IP, uint16(p.Addr.Port), p.Services)
		you := wire.NewNetAddressIPPort(net.ParseIP("10.9.9.9"), 18444, 0)
		p.mu.Lock()
		nonce := uint64(p.Idx+1)<<40 | uint64(p.Sessions)<<8 | 1
		p.mu.Unlock()
		h := tip.Height
		if p.ClaimHeight > 0 {
			h = p.ClaimHeight
		}
		v := wire.NewMsgVersion(me, you, nonce, h)
		v.Services = p.Services
		v.ProtocolVersion = int32(pver)
		v.Timestamp = time.Now()
		p.send(c, v)
		p.send(c, wire.NewMsgVerAck())
		return
	case *wire.MsgVerAck, *wire.MsgSendHeaders, *wire.MsgSendAddrV2, *wire.MsgGetAddr:
		return
	case *wire.MsgPing:
		if !p.Silent {
			p.send(c, wire.NewMsgPong(m.Nonce))
		}
		return
	}
	p.mu.Lock()
	p.Recv = append(p.Recv, msg.Command())
	if _, ok := msg.(*wire.MsgGetHeaders); ok {
		p.GotHeaders++
	}
	p.mu.Unlock()
	p.Sim.noteRequest(p, msg)
	if p.Silent {
		return
	}
	if p.Override != nil && p.Override(p, msg) {
		return
	}
	if p.Manual {
		p.mu.Lock()
		p.Pending = append(p.Pending, msg)
		p.mu.Unlock()
		return
	}
	if p.Delay > 0 {
		time.Sleep(p.Delay)
	}
	p.Answer(msg)
}

// TakePending removes and returns the oldest pending request (manual mode).
func (p *Peer) TakePending() wire.Message {
	p.mu.Lock()
	defer p.mu.Unlock()
	if len(p.Pending) == 0 {
		return nil
	}
	m := p.Pending[0]
	p.Pending = p.Pending[1:]
	return m
}

// onPath resolves a hash to a node on this peer's best path.
func (p *Peer) onPath(h *chainhash.Hash) (*kit.Node, bool) {
	tip := p.View()
	n, ok := p.Sim.W.ByHash[*h]
	if !ok || !tip.OnPath(n) {
		return nil, false
	}
	return n, true
}

// known resolves a hash to any block of the world (a real node keeps and
// serves blocks of stale branches too).
func (p *Peer) known(h *chainhash.Hash) (*kit.Node, bool) {
	n, ok := p.Sim.W.ByHash[*h]
	return n, ok
}

// HeadersFor computes the honest reply to a getheaders.
func (p *Peer) HeadersFor(m *wire.MsgGetHeaders) []*wire.BlockHeader {
	tip := p.View()
	start := int32(0)
	for _, h := range m.BlockLocatorHashes {
		if n, ok := p.onPath(h); ok {
			start = n.Height
			break
		}
	}
	var out []*wire.BlockHeader
	for i := start + 1; i <= tip.Height && len(out) < wire.MaxBlockHeadersPerMsg; i++ {
		n := tip.Ancestor(i)
		hh := n.Header
		out = append(out, &hh)
		if n.Hash == m.HashStop {
			break
		}
	}
	return out
}

// Answer replies honestly (modulo the behaviour knobs) to a request.
func (p *Peer) Answer(msg wire.Message) {
	switch m := msg.(type) {
	case *wire.MsgGetHeaders:
		out := wire.NewMsgHeaders()
		if !p.EmptyHeaders {
			for _, h := range p.HeadersFor(m) {
				_ = out.AddBlockHeader(h)
			}
		}
		p.Send(out)
	case *wire.MsgGetCFCheckpt:
		// Like a real node, compact-filter data is served for any block
		// the peer knows, also off its current best chain.
		stop, ok := p.known(&m.StopHash)
		if !ok {
			return
		}
		fh := p.FHdrs(stop.Path())
		out := wire.NewMsgCFCheckpt(m.FilterType, &m.StopHash, int(stop.Height)/wire.CFCheckptInterval)
		for i := int32(wire.CFCheckptInterval); i <= stop.Height; i += wire.CFCheckptInterval {
			x := fh[i]
			if p.LieCkptFrom > 0 && i >= p.LieCkptFrom {
				x = chainhash.HashH(append([]byte(fmt.Sprintf("ckpt-lie-%d-", p.Idx)), x[:]...))
				p.noteLie()
			}
			if p.LieCFFrom > 0 && i >= p.LieCFFrom {
				p.noteLie()
			}
			_ = out.AddCFHeader(&x)
		}
		p.Send(out)
	case *wire.MsgGetCFHeaders:
		stop, ok := p.known(&m.StopHash)
		if !ok || int32(m.StartHeight) > stop.Height {
			return
		}
		path := stop.Path()
		fh := p.FHdrs(path)
		out := wire.NewMsgCFHeaders()
		out.FilterType = m.FilterType
		out.StopHash = m.StopHash
		if m.StartHeight > 0 {
			out.PrevFilterHeader = fh[m.StartHeight-1]
		}
		if p.LieCFFrom > 0 && stop.Height >= p.LieCFFrom {
			p.noteLie()
		}
		for i := int32(m.StartHeight); i <= stop.Height; i++ {
			x := p.FHash(path[i])
			_ = out.AddCFHash(&x)
		}
		p.Send(out)
	case *wire.MsgGetCFilters:
		if p.NoFilters {
			return
		}
		stop, ok := p.known(&m.StopHash)
		if !ok {
			return
		}
		for i := int32(m.StartHeight); i <= stop.Height; i++ {
			n := stop.Ancestor(i)
			if fb := p.FilterBytes(n); fb != nil {
				p.Send(wire.NewMsgCFilter(m.FilterType, &n.Hash, fb))
			}
		}
	case *wire.MsgGetData:
		for _, iv := range m.InvList {
			if iv.Type == wire.InvTypeWitnessBlock || iv.Type == wire.InvTypeBlock {
				if p.NoBlocks {
					continue
				}
				if n, ok := p.Sim.W.ByHash[iv.Hash]; ok {
					p.Send(n.Block)
				}
			}
		}
	}
}

// FilterBytes is the serialized filter this peer serves for n (nil: none).
func (p *Peer) FilterBytes(n *kit.Node) []byte {
	switch p.lie(n) {
	case "omit", "empty", "extra":
		if d, _, ok := p.Sim.W.FakeFilter(n, p.lie(n)); ok {
			return d
		}
	case "unserved":
		return nil
	}
	return n.FBytes
}
