// Package netsim runs the real neutrino ChainService against scripted wire
// peers over in-memory connections inside a testing/synctest bubble.
package netsim

import (
	"context"
	"fmt"
	"io"
	"net"
	"os"
	"path/filepath"
	"runtime"
	"strings"
	"sync"
	"testing"
	"testing/synctest"
	"time"

	"github.com/btcsuite/btcd/wire/v2"
	"github.com/btcsuite/btclog"
	"github.com/btcsuite/btcwallet/walletdb"
	_ "github.com/btcsuite/btcwallet/walletdb/bdb"
	"github.com/btcsuite/btcd/chainhash/v2"
	"github.com/lightninglabs/neutrino"
	"github.com/lightninglabs/neutrino/chainsync"
	"github.com/lightninglabs/neutrino/headerfs"

	"verifharness/kit"
)

// Config of one simulated run.
type Config struct {
	World    *kit.World
	NumPeers int
	// Initial peers to connect at start (indices); others can be connected
	// later with Sim.Connect.
	Initial []int
	// Prefill: heights 1..Prefill of the main branch are written into both
	// header stores before the client starts (0 = fresh stores).
	Prefill int
	// PrefillFilterTip, if non-zero and < Prefill, stops the filter headers
	// early (negative: only the genesis filter header).
	PrefillFilterTip int
	// WrapDB lets a check wrap the database (crashdb/faultdb/stamps).
	WrapDB func(walletdb.DB) walletdb.DB
	// Tweak lets a check adjust the client configuration.
	Tweak func(*neutrino.Config)
	// DialGate, if set, returns a channel the dialer waits on before it
	// lets the connection to peer i be established (nil: no wait).
	DialGate func(i int) <-chan struct{}
	// AfterStart is called right after ChainService.Start returned and
	// before any peer connection is allowed to be established.
	AfterStart func(s *Sim)
	// KeepDir: do not delete the data directory (caller does).
	KeepDir bool
	// ReuseDir: run on this existing data directory (a restart of the client
	// on what an earlier run left behind) instead of a copy of a template;
	// the directory is never removed by Run.
	ReuseDir string
	// HardCF: hard-coded filter-header checkpoints of the generated
	// network (height -> value), installed through the verif-tagged setter
	// in chainsync for the duration of the run.
	HardCF map[uint32]chainhash.Hash
}

type Sim struct {
	W     *kit.World
	Cfg   Config
	Dir   string
	RawDB walletdb.DB
	DB    walletdb.DB
	CS    *neutrino.ChainService
	Peers []*Peer

	mu       sync.Mutex
	lastHdrs *Peer // peer the client most recently sent getheaders to
	lies     map[int]*liePlan
	hdrLog   []SentHeaders
	spin     *spinDB
	gate     chan struct{}
	Requests int
	stopped  bool
	closed   bool
	stopErr  error
}

func (s *Sim) noteRequest(p *Peer, m wire.Message) {
	s.mu.Lock()
	defer s.mu.Unlock()
	s.Requests++
	if _, ok := m.(*wire.MsgGetHeaders); ok {
		s.lastHdrs = p
	}
}

// SentHeaders is one headers message put on the wire by a scripted peer.
type SentHeaders struct {
	Peer int
	Hdrs []*wire.BlockHeader
}

func (s *Sim) noteHeadersSent(p *Peer, m *wire.MsgHeaders) {
	s.mu.Lock()
	defer s.mu.Unlock()
	s.hdrLog = append(s.hdrLog, SentHeaders{Peer: p.Idx, Hdrs: m.Headers})
}

// TakeHeadersLog returns and clears the log of headers messages sent by
// peers since the last call.
func (s *Sim) TakeHeadersLog() []SentHeaders {
	s.mu.Lock()
	defer s.mu.Unlock()
	l := s.hdrLog
	s.hdrLog = nil
	return l
}

// LastHeadersPeer is the peer the client most recently asked for headers.
func (s *Sim) LastHeadersPeer() *Peer { s.mu.Lock(); defer s.mu.Unlock(); return s.lastHdrs }

// Now is the virtual time in seconds.
func Now() int64 { return time.Now().Unix() }

// Settle waits until every goroutine in the bubble is durably blocked. It
// returns false if the client was found busy-looping (see spinDB); the case
// must then be abandoned.
func (s *Sim) Settle() bool {
	s.spin.n.Store(0)
	s.spin.settling.Store(true)
	synctest.Wait()
	s.spin.settling.Store(false)
	return s.spin.spin.Load() == nil
}

// Spin returns the stack of a busy-looping client goroutine, if one was found.
func (s *Sim) Spin() string {
	if p := s.spin.spin.Load(); p != nil {
		return *p
	}
	return ""
}

// Advance moves the virtual clock and settles.
func (s *Sim) Advance(d time.Duration) bool {
	s.spin.n.Store(0)
	s.spin.settling.Store(true)
	time.Sleep(d)
	synctest.Wait()
	s.spin.settling.Store(false)
	return s.spin.spin.Load() == nil
}

// Connect asks the client to connect to peer i (no-op if already asked).
func (s *Sim) Connect(i int) error {
	return s.CS.ConnectNode(s.Peers[i].Addr.String(), true)
}

var (
	tmplMu sync.Mutex
	tmpls  = map[string]string{}
)

// TmpRoot is where data directories live (VERIF_TMP, default /dev/shm or the
// OS temp dir).
func TmpRoot() string {
	if d := os.Getenv("VERIF_TMP"); d != "" {
		return d
	}
	if st, err := os.Stat("/dev/shm"); err == nil && st.IsDir() {
		return "/dev/shm"
	}
	return os.TempDir()
}

func copyFile(src, dst string) error {
	in, err := os.Open(src)
	if err != nil {
		return err
	}
	defer in.Close()
	out, err := os.Create(dst)
	if err != nil {
		return err
	}
	if _, err := io.Copy(out, in); err != nil {
		out.Close()
		return err
	}
	return out.Close()
}

// CopyDir copies the regular files of src into dst (created).
func CopyDir(src, dst string) error {
	if err := os.MkdirAll(dst, 0o755); err != nil {
		return err
	}
	ents, err := os.ReadDir(src)
	if err != nil {
		return err
	}
	for _, e := range ents {
		if e.Type().IsRegular() {
			if err := copyFile(filepath.Join(src, e.Name()), filepath.Join(dst, e.Name())); err != nil {
				return err
			}
		}
	}
	return nil
}

// OpenDB opens (or creates) the bbolt database of a data directory.
func OpenDB(dir string, create bool) (walletdb.DB, error) {
	path := filepath.Join(dir, "neutrino.db")
	if create {
		return walletdb.Create("bdb", path, true, 10*time.Second, false)
	}
	return walletdb.Open("bdb", path, true, 10*time.Second, false)
}

// Template returns a data directory holding header stores pre-filled with
// heights 1..n of the main branch (filter headers up to fn). It is built once
// per process and world and must only be copied.
func Template(w *kit.World, n, fn int) (string, error) {
	key := fmt.Sprintf("%s|%d|%d", w.Spec.Key(), n, fn)
	if n == 0 {
		key = "fresh"
	}
	tmplMu.Lock()
	defer tmplMu.Unlock()
	return templateLocked(w, n, fn, key)
}

// maxTemplates bounds the template directories kept per process (they live
// in RAM-backed storage); the least recently used one is removed.
const maxTemplates = 48

var tmplOrder []string

func templateLocked(w *kit.World, n, fn int, key string) (string, error) {
	touch := func() {
		for i, k := range tmplOrder {
			if k == key {
				tmplOrder = append(tmplOrder[:i], tmplOrder[i+1:]...)
				break
			}
		}
		tmplOrder = append(tmplOrder, key)
	}
	if d, ok := tmpls[key]; ok {
		touch()
		return d, nil
	}
	for len(tmplOrder) >= maxTemplates {
		old := tmplOrder[0]
		tmplOrder = tmplOrder[1:]
		if d, ok := tmpls[old]; ok {
			os.RemoveAll(d)
			delete(tmpls, old)
		}
	}
	defer touch()
	dir, err := os.MkdirTemp(TmpRoot(), "vtmpl-")
	if err != nil {
		return "", err
	}
	db, err := OpenDB(dir, true)
	if err != nil {
		return "", err
	}
	params := w.Params
	bs, err := headerfs.NewBlockHeaderStore(dir, db, &params)
	if err != nil {
		return "", err
	}
	fs, err := headerfs.NewFilterHeaderStore(dir, db, headerfs.RegularFilter, &params, nil)
	if err != nil {
		return "", err
	}
	if n > 0 {
		path := w.Br[0].Tip().Path()
		var bh []headerfs.BlockHeader
		var fh []headerfs.FilterHeader
		for i := 1; i <= n; i++ {
			h := path[i].Header
			bh = append(bh, headerfs.BlockHeader{BlockHeader: &h, Height: uint32(i)})
			if i <= fn {
				fh = append(fh, headerfs.FilterHeader{FilterHash: path[i].FHdr, HeaderHash: path[i].Hash, Height: uint32(i)})
			}
		}
		if err := bs.WriteHeaders(bh...); err != nil {
			return "", err
		}
		if len(fh) > 0 {
			if err := fs.WriteHeaders(fh...); err != nil {
				return "", err
			}
		}
	}
	if err := db.Close(); err != nil {
		return "", err
	}
	tmpls[key] = dir
	return dir, nil
}

// CleanupTemplates removes the template directories of this process.
func CleanupTemplates() {
	tmplMu.Lock()
	defer tmplMu.Unlock()
	for k, d := range tmpls {
		os.RemoveAll(d)
		delete(tmpls, k)
	}
}

// NewDataDir returns a fresh copy of the template.
func NewDataDir(w *kit.World, n, fn int) (string, error) {
	key := fmt.Sprintf("%s|%d|%d", w.Spec.Key(), n, fn)
	if n == 0 {
		key = "fresh"
	}
	// The copy is made under the lock so that the template cannot be
	// evicted underneath it.
	tmplMu.Lock()
	defer tmplMu.Unlock()
	t, err := templateLocked(w, n, fn, key)
	if err != nil {
		return "", err
	}
	dir, err := os.MkdirTemp(TmpRoot(), "vcase-")
	if err != nil {
		return "", err
	}
	if err := CopyDir(t, dir); err != nil {
		return "", err
	}
	return dir, nil
}

// resetYield is set by hook_verif.go (verif tag) and clears the per-run state
// of the yield hook.
var resetYield = func() {}

var logOnce sync.Once

func setupLogging() {
	logOnce.Do(func() {
		if os.Getenv("VERIF_LOG") != "" {
			backend := btclog.NewBackend(os.Stdout)
			l := backend.Logger("NTRN")
			lvl, _ := btclog.LevelFromString(os.Getenv("VERIF_LOG"))
			l.SetLevel(lvl)
			neutrino.UseLogger(l)
		}
		neutrino.DisableDNSSeed = true
	})
}

// Result of a simulated run.
type Result struct {
	// Harness is set when the simulation infrastructure failed.
	Harness string
	// Leak is set when goroutines were still blocked inside the bubble
	// after Stop returned and all peer connections were closed.
	Leak string
	// StopErr is the error returned by ChainService.Stop.
	StopErr error
	// Spin is the stack of a client goroutine found busy-looping; the
	// case was abandoned at that point.
	Spin string
}

// Run executes script against a fresh client. It never calls t.Fatal.
func Run(t *testing.T, cfg Config, setup func(s *Sim), script func(s *Sim)) (res Result) {
	setupLogging()
	w := cfg.World
	fn := cfg.Prefill
	if cfg.PrefillFilterTip != 0 && cfg.PrefillFilterTip < fn {
		fn = cfg.PrefillFilterTip
		if fn < 0 {
			fn = 0
		}
	}
	var dir string
	if cfg.ReuseDir != "" {
		dir = cfg.ReuseDir
	} else {
		var err error
		dir, err = NewDataDir(w, cfg.Prefill, fn)
		if err != nil {
			res.Harness = "datadir: " + err.Error()
			return
		}
		if !cfg.KeepDir {
			defer os.RemoveAll(dir)
		}
	}
	s := &Sim{W: w, Cfg: cfg, Dir: dir, lies: map[int]*liePlan{}}
	for i := 0; i < cfg.NumPeers; i++ {
		a := &net.TCPAddr{IP: net.ParseIP(fmt.Sprintf("10.0.%d.%d", i/200, i%200+1)), Port: 18444}
		s.Peers = append(s.Peers, &Peer{Sim: s, Idx: i, Addr: a, view: w.Genesis,
			Services: wire.SFNodeNetwork | wire.SFNodeWitness | wire.SFNodeCF})
	}
	byAddr := map[string]*Peer{}
	for _, p := range s.Peers {
		byAddr[p.Addr.String()] = p
	}
	if setup != nil {
		setup(s)
	}

	defer func() {
		if r := recover(); r != nil {
			msg := fmt.Sprint(r)
			if strings.Contains(msg, "deadlock") {
				res.Leak = msg
				return
			}
			buf := make([]byte, 1<<16)
			buf = buf[:runtime.Stack(buf, false)]
			res.Harness = "panic in simulation: " + msg + "\n" + string(buf)
		}
	}()

	resetYield()
	if len(cfg.HardCF) > 0 {
		m := map[uint32]*chainhash.Hash{}
		for h, x := range cfg.HardCF {
			x := x
			m[h] = &x
		}
		chainsync.VerifSetFilterHeaderCheckpoints(w.Params.Net, m)
		defer chainsync.VerifSetFilterHeaderCheckpoints(w.Params.Net, nil)
	}
	synctest.Test(t, func(t *testing.T) {
		s.gate = make(chan struct{})
		raw, err := OpenDB(dir, false)
		if err != nil {
			res.Harness = "open db: " + err.Error()
			return
		}
		s.RawDB = raw
		s.spin = &spinDB{DB: raw}
		s.DB = s.spin
		if cfg.WrapDB != nil {
			s.DB = cfg.WrapDB(s.spin)
		}
		var addrs []string
		for _, i := range cfg.Initial {
			addrs = append(addrs, s.Peers[i].Addr.String())
		}
		if len(addrs) == 0 {
			// ConnectPeers must be non-empty to keep the client in
			// connect-only mode; use an address nobody answers on.
			addrs = []string{"10.255.255.1:18444"}
		}
		ncfg := neutrino.Config{
			DataDir: dir, Database: s.DB, ChainParams: w.Params,
			ConnectPeers: addrs,
			NameResolver: func(h string) ([]net.IP, error) {
				ip := net.ParseIP(h)
				if ip == nil {
					return nil, fmt.Errorf("no such host %q", h)
				}
				return []net.IP{ip}, nil
			},
			Dialer: func(a net.Addr) (net.Conn, error) {
				p := byAddr[a.String()]
				if p == nil || p.Refusing() {
					return nil, fmt.Errorf("connection refused")
				}
				s.mu.Lock()
				stopped := s.stopped
				s.mu.Unlock()
				if stopped {
					return nil, fmt.Errorf("simulation over")
				}
				<-s.gate
				if cfg.DialGate != nil {
					if g := cfg.DialGate(p.Idx); g != nil {
						<-g
					}
				}
				cl, sv := bufPipe(&net.TCPAddr{IP: net.ParseIP("10.9.9.9"), Port: 5555}, a)
				go p.Serve(sv)
				return cl, nil
			},
		}
		if cfg.Tweak != nil {
			cfg.Tweak(&ncfg)
		}
		cs, err := neutrino.NewChainService(ncfg)
		if err != nil {
			res.Harness = "NewChainService: " + err.Error()
			raw.Close()
			return
		}
		s.CS = cs
		if err := cs.Start(context.Background()); err != nil {
			res.Harness = "Start: " + err.Error()
			raw.Close()
			return
		}
		if cfg.AfterStart != nil {
			cfg.AfterStart(s)
		}
		close(s.gate)
		s.Settle()

		script(s)

		if sp := s.Spin(); sp != "" {
			// The spinning goroutine is parked; Stop would wait for
			// it forever. Abandon the bubble (recovered as a leak).
			res.Spin = sp
			s.mu.Lock()
			s.stopped = true
			s.mu.Unlock()
			return
		}
		s.Shutdown(&res)
	})
	return
}

// StopClient calls ChainService.Stop once (safe to call from any goroutine of
// the bubble; it does not wait for quiescence).
func (s *Sim) StopClient() error {
	s.mu.Lock()
	if s.stopped {
		s.mu.Unlock()
		return s.stopErr
	}
	s.stopped = true
	s.mu.Unlock()
	err := s.CS.Stop()
	s.mu.Lock()
	s.stopErr = err
	s.mu.Unlock()
	return err
}

// Shutdown stops the client, closes peers and the database (idempotent). It
// must be called from the bubble's main goroutine.
func (s *Sim) Shutdown(res *Result) {
	s.mu.Lock()
	if s.closed {
		s.mu.Unlock()
		return
	}
	s.closed = true
	s.mu.Unlock()
	err := s.StopClient()
	if res != nil {
		res.StopErr = err
	}
	for _, p := range s.Peers {
		p.Disconnect()
	}
	synctest.Wait()
	s.RawDB.Close()
}
