package netsim

import (
	"runtime"
	"sync/atomic"

	"github.com/btcsuite/btcwallet/walletdb"
)

// spinDB wraps the database to detect a client goroutine that busy-loops
// (never blocks) during a quiescence wait: such a loop would keep
// synctest.Wait from ever returning. After SpinLimit transactions inside one
// wait, the calling goroutine is parked forever and the stack is recorded.
type spinDB struct {
	walletdb.DB
	settling atomic.Bool
	n        atomic.Int64
	spin     atomic.Pointer[string]
}

const SpinLimit = 100000

func (d *spinDB) tick() {
	if !d.settling.Load() {
		return
	}
	if d.n.Add(1) > SpinLimit {
		buf := make([]byte, 1<<14)
		s := string(buf[:runtime.Stack(buf, false)])
		d.spin.CompareAndSwap(nil, &s)
		select {}
	}
}

func (d *spinDB) View(f func(tx walletdb.ReadTx) error, reset func()) error {
	d.tick()
	return d.DB.View(f, reset)
}

func (d *spinDB) Update(f func(tx walletdb.ReadWriteTx) error, reset func()) error {
	d.tick()
	return d.DB.Update(f, reset)
}

func (d *spinDB) BeginReadTx() (walletdb.ReadTx, error) {
	d.tick()
	return d.DB.BeginReadTx()
}

func (d *spinDB) BeginReadWriteTx() (walletdb.ReadWriteTx, error) {
	d.tick()
	return d.DB.BeginReadWriteTx()
}
