package netsim

import (
	"io"
	"net"
	"sync"
	"time"
)

type half struct {
	mu     sync.Mutex
	buf    []byte
	closed bool
	notify chan struct{}
}

func newHalf() *half { return &half{notify: make(chan struct{}, 1)} }

func (h *half) kick() {
	select {
	case h.notify <- struct{}{}:
	default:
	}
}

func (h *half) write(p []byte) (int, error) {
	h.mu.Lock()
	if h.closed {
		h.mu.Unlock()
		return 0, io.ErrClosedPipe
	}
	h.buf = append(h.buf, p...)
	h.mu.Unlock()
	h.kick()
	return len(p), nil
}

func (h *half) read(p []byte) (int, error) {
	for {
		h.mu.Lock()
		if len(h.buf) > 0 {
			n := copy(p, h.buf)
			h.buf = h.buf[n:]
			more := len(h.buf) > 0 || h.closed
			h.mu.Unlock()
			if more {
				h.kick()
			}
			return n, nil
		}
		if h.closed {
			h.mu.Unlock()
			h.kick()
			return 0, io.EOF
		}
		h.mu.Unlock()
		<-h.notify
	}
}

func (h *half) close() {
	h.mu.Lock()
	h.closed = true
	h.mu.Unlock()
	h.kick()
}

type bconn struct {
	r, w          *half
	local, remote net.Addr
}

func (c *bconn) Read(p []byte) (int, error)       { return c.r.read(p) }
func (c *bconn) Write(p []byte) (int, error)      { return c.w.write(p) }
func (c *bconn) Close() error                     { c.r.close(); c.w.close(); return nil }
func (c *bconn) LocalAddr() net.Addr              { return c.local }
func (c *bconn) RemoteAddr() net.Addr             { return c.remote }
func (c *bconn) SetDeadline(time.Time) error      { return nil }
func (c *bconn) SetReadDeadline(time.Time) error  { return nil }
func (c *bconn) SetWriteDeadline(time.Time) error { return nil }

func bufPipe(a, b net.Addr) (net.Conn, net.Conn) {
	x, y := newHalf(), newHalf()
	return &bconn{r: x, w: y, local: a, remote: b}, &bconn{r: y, w: x, local: b, remote: a}
}
