//go:build verif

package netsim

import (
	"os"
	"runtime"
	"strconv"
	"strings"
	"sync"
	"sync/atomic"
	"time"

	"github.com/lightninglabs/neutrino"
)

// With the verif tag the client exposes named yield points. Two loops of the
// client can busy-wait: the utxo scanner's batch manager re-runs an empty scan
// without blocking while a queued request starts above the best block, and the
// at-tip filter-header loop can busy-wait (it re-polls the stores without blocking
// when its cached tip hashes disagree but the stores are level); a busy-wait
// never lets the bubble reach quiescence, so the harness turns each iteration
// into a short virtual-time sleep. No client lock is held at that point.
//
// A third loop: the checkpointed filter-header loop of cfHandler re-issues its
// queries without blocking while they fail at once.
//
// Only a loop that comes round again at the same virtual instant is slowed
// down: the first few iterations per instant run undisturbed.
func init() {
	if s, err := strconv.ParseUint(os.Getenv("VERIF_SHARD_SEED"), 10, 64); err == nil {
		schedBase = s
	}
	neutrino.VerifYield = func(point string) {
		if strings.HasPrefix(point, "sched:") {
			if h := schedHook.Load(); h != nil {
				(*h)(point)
			}
			schedYield(point)
			// The checkpointed filter-header loop comes round without
			// blocking while its queries fail at once (work manager
			// already stopped, block manager not yet: the window inside
			// Stop). Its yield point holds no client lock, so that loop
			// is paced like the other two.
			if !strings.HasPrefix(point, "sched:cfhandler:") {
				return
			}
		}
		now := time.Now()
		yieldMu.Lock()
		st := yieldState[point]
		if st == nil {
			st = &yieldPoint{}
			yieldState[point] = st
		}
		if now.Equal(st.last) {
			st.count++
		} else {
			st.last, st.count = now, 0
		}
		spin := st.count >= 3
		yieldMu.Unlock()
		if spin {
			time.Sleep(250 * time.Millisecond)
		}
	}
	resetYield = func() {
		schedHook.Store(nil)
		yieldMu.Lock()
		yieldState = map[string]*yieldPoint{}
		yieldMu.Unlock()
		schedRun.Add(1)
		schedStep.Store(0)
	}
}

type yieldPoint struct {
	last  time.Time
	count int
}

var (
	yieldMu    sync.Mutex
	yieldState = map[string]*yieldPoint{}
)

// The "sched:" points sit between the individual store updates and
// notifications of the block manager's multi-step operations (filter header
// write, rollback, header write), some of them under client locks. Any delay
// there is a legal schedule, so the harness stretches a pseudo-randomly chosen
// subset of them by yielding the processor a number of times: this widens the
// windows in which another client goroutine can interleave. No virtual-time
// sleep is used, because a goroutine waiting for a sync.Mutex held across
// such a sleep would freeze the bubble.
var (
	schedBase uint64
	schedRun  atomic.Uint64
	schedStep atomic.Uint64
	// SchedOff disables the perturbation (used by self-tests).
	SchedOff atomic.Bool
)

func schedYield(point string) {
	if SchedOff.Load() {
		return
	}
	x := schedBase ^ (schedRun.Load() * 0x9e3779b97f4a7c15) ^ (schedStep.Add(1) * 0xbf58476d1ce4e5b9)
	for i := 0; i < len(point); i++ {
		x = (x ^ uint64(point[i])) * 0x100000001b3
	}
	x ^= x >> 31
	x *= 0x94d049bb133111eb
	x ^= x >> 29
	n := 0
	switch r := x % 100; {
	case r < 45:
		n = 0
	case r < 70:
		n = 20
	case r < 85:
		n = 300
	case r < 95:
		n = 3000
	default:
		n = 30000
	}
	for i := 0; i < n; i++ {
		runtime.Gosched()
	}
}

// schedHook, if set, is called at every "sched:" point of the client, on the
// client goroutine that reached it (possibly under client locks: it must not
// sleep or wait, only start goroutines, count and yield the processor). It
// is cleared at the start of every run.
var schedHook atomic.Pointer[func(point string)]

// SetSchedHook installs the hook for the current run (call it from
// Config.AfterStart: the hook is cleared when a run begins).
func SetSchedHook(f func(point string)) {
	if f == nil {
		schedHook.Store(nil)
		return
	}
	schedHook.Store(&f)
}
