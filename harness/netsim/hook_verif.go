//go:build verif

package netsim

import (
	"time"

	"github.com/lightninglabs/neutrino"
)

// With the verif tag the client exposes named yield points. The at-tip
// filter-header loop can busy-wait (it re-polls the stores without blocking
// when its cached tip hashes disagree but the stores are level); a busy-wait
// never lets the bubble reach quiescence, so the harness turns each iteration
// into a short virtual-time sleep. No client lock is held at that point.
func init() {
	neutrino.VerifYield = func(point string) {
		if point == "cfhandler:at-tip" {
			time.Sleep(250 * time.Millisecond)
		}
	}
}
