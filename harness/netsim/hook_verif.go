//go:build verif

package netsim

import (
	"sync"
	"time"

	"github.com/lightninglabs/neutrino"
)

// With the verif tag the client exposes named yield points. Two loops of the
// client can busy-wait: the utxo scanner's batch manager re-runs an empty scan
// without blocking while a queued request starts above the best block, and the
// at-tip filter-header loop can busy-wait (it re-polls the stores without blocking
// when its cached tip hashes disagree but the stores are level); a busy-wait
// never lets the bubble reach quiescence, so the harness turns each iteration
// into a short virtual-time sleep. No client lock is held at that point.
//
// Only a loop that comes round again at the same virtual instant is slowed
// down: the first few iterations per instant run undisturbed.
func init() {
	neutrino.VerifYield = func(point string) {
		now := time.Now()
		yieldMu.Lock()
		st := yieldState[point]
		if st == nil {
			st = &yieldPoint{}
			yieldState[point] = st
		}
		if now.Equal(st.last) {
			st.count++
		} else {
			st.last, st.count = now, 0
		}
		spin := st.count >= 3
		yieldMu.Unlock()
		if spin {
			time.Sleep(250 * time.Millisecond)
		}
	}
	resetYield = func() {
		yieldMu.Lock()
		yieldState = map[string]*yieldPoint{}
		yieldMu.Unlock()
	}
}

type yieldPoint struct {
	last  time.Time
	count int
}

var (
	yieldMu    sync.Mutex
	yieldState = map[string]*yieldPoint{}
)
