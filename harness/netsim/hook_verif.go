//go:build verif

package netsim

import (
	"sync"
	"time"

	"github.com/lightninglabs/neutrino"
)

// With the verif tag the client exposes named yield points. The at-tip
// filter-header loop can busy-wait (it re-polls the stores without blocking
// when its cached tip hashes disagree but the stores are level); a busy-wait
// never lets the bubble reach quiescence, so the harness turns each iteration
// into a short virtual-time sleep. No client lock is held at that point.
//
// Only a loop that comes round again at the same virtual instant is slowed
// down: the first few iterations per instant run undisturbed.
func init() {
	neutrino.VerifYield = func(point string) {
		if point != "cfhandler:at-tip" {
			return
		}
		now := time.Now()
		yieldMu.Lock()
		if now.Equal(yieldLast) {
			yieldCount++
		} else {
			yieldLast, yieldCount = now, 0
		}
		spin := yieldCount >= 3
		yieldMu.Unlock()
		if spin {
			time.Sleep(250 * time.Millisecond)
		}
	}
	resetYield = func() {
		yieldMu.Lock()
		yieldLast, yieldCount = time.Time{}, 0
		yieldMu.Unlock()
	}
}

var (
	yieldMu    sync.Mutex
	yieldLast  time.Time
	yieldCount int
)
