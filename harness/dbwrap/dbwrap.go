// Package dbwrap wraps a walletdb.DB to count, observe and fail read-write
// transactions. Every store in neutrino takes the database as a parameter, so
// no hook in /repo is needed.
package dbwrap

import (
	"errors"
	"sync"

	"github.com/btcsuite/btcwallet/walletdb"
)

// ErrInjected is returned by a commit that was made to fail.
var ErrInjected = errors.New("verif: injected database write failure")

type DB struct {
	walletdb.DB

	mu sync.Mutex
	// Commits counts read-write transactions that reached their commit
	// point.
	Commits int64
	// FailNext makes the next n commits fail (rolled back, ErrInjected).
	FailNext int
	// FailAt, if > 0, makes exactly the commit with that number fail.
	FailAt int64
	// Hook, if set, is called with the commit number right before ("pre")
	// and right after ("post") each commit. It runs in the caller's
	// goroutine and must not block.
	Hook func(k int64, phase string)
	// TxHook, if set, is called inside the transaction right before its
	// commit (after the caller's function returned nil). It must only
	// read.
	TxHook func(k int64, tx walletdb.ReadWriteTx)
}

func Wrap(db walletdb.DB) *DB { return &DB{DB: db} }

func (d *DB) Update(f func(tx walletdb.ReadWriteTx) error, reset func()) error {
	tx, err := d.DB.BeginReadWriteTx()
	if err != nil {
		return err
	}
	reset()
	if err := f(tx); err != nil {
		_ = tx.Rollback()
		return err
	}
	d.mu.Lock()
	d.Commits++
	k := d.Commits
	fail := d.FailNext > 0
	if fail {
		d.FailNext--
	}
	if d.FailAt > 0 && k == d.FailAt {
		fail = true
	}
	hook := d.Hook
	txHook := d.TxHook
	d.mu.Unlock()
	if txHook != nil && !fail {
		txHook(k, tx)
	}
	if fail {
		_ = tx.Rollback()
		return ErrInjected
	}
	if hook != nil {
		hook(k, "pre")
	}
	err = tx.Commit()
	if hook != nil {
		hook(k, "post")
	}
	return err
}

// SetFailNext arms n failing commits.
func (d *DB) SetFailNext(n int) { d.mu.Lock(); d.FailNext = n; d.mu.Unlock() }

// SetHook installs the commit hook.
func (d *DB) SetHook(h func(k int64, phase string)) { d.mu.Lock(); d.Hook = h; d.mu.Unlock() }
