package kit

import (
	"github.com/btcsuite/btcd/blockchain"
	"github.com/btcsuite/btcd/chaincfg/v2"
	"github.com/btcsuite/btcd/chainhash/v2"
	"github.com/btcsuite/btcd/wire/v2"
	"time"
)

// btcdHdrCtx adapts a world node to btcd's blockchain.HeaderCtx; used only to
// differential-test the reference validator against btcd.
type btcdHdrCtx struct{ n *Node }

func (c btcdHdrCtx) Height() int32    { return c.n.Height }
func (c btcdHdrCtx) Bits() uint32     { return c.n.Header.Bits }
func (c btcdHdrCtx) Timestamp() int64 { return c.n.Header.Timestamp.Unix() }
func (c btcdHdrCtx) Parent() blockchain.HeaderCtx {
	if c.n.Parent == nil {
		return nil
	}
	return btcdHdrCtx{c.n.Parent}
}
func (c btcdHdrCtx) RelativeAncestorCtx(d int32) blockchain.HeaderCtx {
	a := c.n.Ancestor(c.n.Height - d)
	if a == nil {
		return nil
	}
	return btcdHdrCtx{a}
}

type btcdChainCtx struct{ p *chaincfg.Params }

func (c btcdChainCtx) ChainParams() *chaincfg.Params { return c.p }
func (c btcdChainCtx) BlocksPerRetarget() int32 {
	return int32(c.p.TargetTimespan / c.p.TargetTimePerBlock)
}
func (c btcdChainCtx) MinRetargetTimespan() int64 {
	return int64(c.p.TargetTimespan/time.Second) / c.p.RetargetAdjustmentFactor
}
func (c btcdChainCtx) MaxRetargetTimespan() int64 {
	return int64(c.p.TargetTimespan/time.Second) * c.p.RetargetAdjustmentFactor
}
func (c btcdChainCtx) VerifyCheckpoint(int32, *chainhash.Hash) bool { return false }
func (c btcdChainCtx) FindPreviousCheckpoint() (blockchain.HeaderCtx, error) {
	return nil, nil
}

type fixedTime struct{ t time.Time }

func (f fixedTime) AdjustedTime() time.Time         { return f.t }
func (f fixedTime) AddTimeSample(string, time.Time) {}
func (f fixedTime) Offset() time.Duration           { return 0 }

// BtcdCheck runs btcd's header checks for hdr as a child of parent.
func (w *World) BtcdCheck(parent *Node, hdr *wire.BlockHeader, now int64) error {
	p := w.Params
	err := blockchain.CheckBlockHeaderContext(hdr, btcdHdrCtx{parent}, blockchain.BFNone, btcdChainCtx{&p}, true)
	if err != nil {
		return err
	}
	return blockchain.CheckBlockHeaderSanity(hdr, p.PowLimit, fixedTime{time.Unix(now, 0)}, blockchain.BFNone)
}
