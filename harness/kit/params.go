// Package kit holds the parts of the verification framework that do not
// depend on the neutrino packages: world (chain tree) generation, the
// reference header validator, evidence accounting and the rapid glue.
package kit

import (
	"math/big"
	"sync"
	"time"

	"github.com/btcsuite/btcd/chaincfg/v2"
	"github.com/btcsuite/btcd/chainhash/v2"
	"github.com/btcsuite/btcd/wire/v2"
)

// Epoch is the instant at which a testing/synctest bubble's clock starts
// (2000-01-01T00:00:00Z). All generated chains are laid out around it.
const Epoch int64 = 946684800

// GenesisTime is the fixed timestamp of the re-mined genesis block of every
// generated parameter set: ten years before the bubble epoch, so that block 1
// can carry any later timestamp.
const GenesisTime int64 = Epoch - 10*365*24*3600

// ParamSpec is the JSON-able description of a generated chain-parameter set.
type ParamSpec struct {
	// Retarget is the number of blocks per difficulty period. 0 means the
	// regtest rule "never retarget" (PoWNoRetargeting).
	Retarget int `json:"retarget"`
	// Spacing is the target number of seconds per block.
	Spacing int `json:"spacing"`
	// Adj is the retarget adjustment factor (clamp), 2 or 4.
	Adj int `json:"adj"`
	// MinDiff enables the testnet "minimum difficulty after 2*spacing" rule.
	MinDiff bool `json:"mindiff"`
	// BIP94 enables the testnet4 rules (retarget from first block of the
	// period, time-warp limit).
	BIP94 bool `json:"bip94"`
	// VerFloor is the height from which header version >= 4 is required.
	VerFloor int `json:"verfloor"`
}

func (p ParamSpec) Key() string {
	b := []byte{byte(p.Retarget), byte(p.Retarget >> 8), byte(p.Spacing), byte(p.Spacing >> 8), byte(p.Adj), 0, 0, byte(p.VerFloor), byte(p.VerFloor >> 8)}
	if p.MinDiff {
		b[5] = 1
	}
	if p.BIP94 {
		b[6] = 1
	}
	return string(b)
}

var (
	genesisOnce  sync.Once
	genesisBlock *wire.MsgBlock
	genesisHash  chainhash.Hash
)

func compactToBig(compact uint32) *big.Int {
	mantissa := compact & 0x007fffff
	isNegative := compact&0x00800000 != 0
	exponent := uint(compact >> 24)
	var bn *big.Int
	if exponent <= 3 {
		mantissa >>= 8 * (3 - exponent)
		bn = big.NewInt(int64(mantissa))
	} else {
		bn = big.NewInt(int64(mantissa))
		bn.Lsh(bn, 8*(exponent-3))
	}
	if isNegative {
		bn = bn.Neg(bn)
	}
	return bn
}

func bigToCompact(n *big.Int) uint32 {
	if n.Sign() == 0 {
		return 0
	}
	var mantissa uint32
	exponent := uint(len(n.Bytes()))
	if exponent <= 3 {
		mantissa = uint32(n.Bits()[0])
		mantissa <<= 8 * (3 - exponent)
	} else {
		tn := new(big.Int).Set(n)
		mantissa = uint32(tn.Rsh(tn, 8*(exponent-3)).Bits()[0])
	}
	if mantissa&0x00800000 != 0 {
		mantissa >>= 8
		exponent++
	}
	compact := uint32(exponent<<24) | mantissa
	if n.Sign() < 0 {
		compact |= 0x00800000
	}
	return compact
}

func hashToBig(h *chainhash.Hash) *big.Int {
	var buf [32]byte
	for i := 0; i < 32; i++ {
		buf[i] = h[31-i]
	}
	return new(big.Int).SetBytes(buf[:])
}

// Work is 2^256 / (target+1), as in Bitcoin.
func Work(bits uint32) *big.Int {
	t := compactToBig(bits)
	if t.Sign() <= 0 {
		return big.NewInt(0)
	}
	den := new(big.Int).Add(t, big.NewInt(1))
	return new(big.Int).Div(new(big.Int).Lsh(big.NewInt(1), 256), den)
}

// Mine increments the nonce until the header hash meets its own target.
func Mine(h *wire.BlockHeader) {
	target := compactToBig(h.Bits)
	for {
		hash := h.BlockHash()
		if hashToBig(&hash).Cmp(target) <= 0 {
			return
		}
		h.Nonce++
	}
}

// MineBad increments the nonce until the header hash does NOT meet its target.
func MineBad(h *wire.BlockHeader) {
	target := compactToBig(h.Bits)
	for {
		hash := h.BlockHash()
		if hashToBig(&hash).Cmp(target) > 0 {
			return
		}
		h.Nonce++
	}
}

func genesis() (*wire.MsgBlock, chainhash.Hash) {
	genesisOnce.Do(func() {
		gb := *chaincfg.RegressionNetParams.GenesisBlock
		gb.Header.Timestamp = time.Unix(GenesisTime, 0)
		gb.Header.Nonce = 0
		Mine(&gb.Header)
		genesisBlock = &gb
		genesisHash = gb.Header.BlockHash()
	})
	return genesisBlock, genesisHash
}

// Build turns the spec into btcd chain parameters (regtest magic, re-mined
// genesis, generated retarget rules). Checkpoints are added by the world.
func (p ParamSpec) Build() chaincfg.Params {
	cp := chaincfg.RegressionNetParams
	gb, gh := genesis()
	cp.GenesisBlock = gb
	h := gh
	cp.GenesisHash = &h
	cp.Checkpoints = nil
	spacing := p.Spacing
	if spacing <= 0 {
		spacing = 600
	}
	cp.TargetTimePerBlock = time.Duration(spacing) * time.Second
	if p.Retarget <= 0 {
		cp.PoWNoRetargeting = true
		cp.TargetTimespan = 2016 * cp.TargetTimePerBlock
	} else {
		cp.PoWNoRetargeting = false
		cp.TargetTimespan = time.Duration(p.Retarget) * cp.TargetTimePerBlock
	}
	adj := p.Adj
	if adj < 2 {
		adj = 4
	}
	cp.RetargetAdjustmentFactor = int64(adj)
	cp.ReduceMinDifficulty = p.MinDiff
	cp.MinDiffReductionTime = 2 * cp.TargetTimePerBlock
	cp.EnforceBIP94 = p.BIP94
	vf := int32(p.VerFloor)
	if vf <= 0 {
		vf = 1
	}
	cp.BIP0034Height, cp.BIP0065Height, cp.BIP0066Height = vf, vf, vf
	return cp
}
