package kit

import (
	"crypto/sha256"
	"encoding/binary"
	"fmt"
	"math/big"
	"math/rand/v2"
	"sync"
	"time"

	"github.com/btcsuite/btcd/btcutil/v2/gcs"
	"github.com/btcsuite/btcd/btcutil/v2/gcs/builder"
	"github.com/btcsuite/btcd/chaincfg/v2"
	"github.com/btcsuite/btcd/chainhash/v2"
	"github.com/btcsuite/btcd/wire/v2"
	"golang.org/x/crypto/ripemd160"
)

// BaseTipTime is the timestamp of the last "already existing" block of the
// main branch: six hours before the bubble epoch, so the client regards a
// chain ending there as current, and later blocks fit below the two-hour
// future limit.
const BaseTipTime = Epoch - 6*3600

// FutureCap is the largest timestamp given to any honest block.
const FutureCap = Epoch + 90*60

// WorldSpec is the JSON-able recipe of a block tree. The tree is a pure
// function of the spec.
type WorldSpec struct {
	P    ParamSpec `json:"p"`
	Seed uint64    `json:"seed"`
	// Base blocks of the main branch lie in the past (heights 1..Base),
	// Future more follow.
	Base   int `json:"base"`
	Future int `json:"future"`
	// Pace of the main branch.
	Pace     int          `json:"pace"`
	Branches []BranchSpec `json:"branches,omitempty"`
	// Checkpoints are heights of the main branch that become hard-coded
	// header checkpoints of the parameter set.
	Checkpoints []int `json:"checkpoints,omitempty"`
	// Tx: blocks carry wallet transactions (otherwise coinbase only).
	Tx bool `json:"tx,omitempty"`
}

// BranchSpec forks off the path of an earlier branch (0 = main, i = i-th
// entry of Branches, 1-based) at height At and is Len blocks long.
type BranchSpec struct {
	Parent int `json:"parent"`
	At     int `json:"at"`
	Len    int `json:"len"`
	// Pace: 0 fast (difficulty rises), 1 on target, 2 slow, 3 jittery,
	// 4 bursty clocks (strongly non-monotonic timestamps).
	Pace int `json:"pace"`
}

func (s WorldSpec) Key() string {
	k := s.P.Key() + fmt.Sprintf("|%d|%d|%d|%d|%v|%v", s.Seed, s.Base, s.Future, s.Pace, s.Checkpoints, s.Tx)
	for _, b := range s.Branches {
		k += fmt.Sprintf("|%d.%d.%d.%d", b.Parent, b.At, b.Len, b.Pace)
	}
	return k
}

// OutRef is an output created by a wallet transaction.
type OutRef struct {
	Op     wire.OutPoint
	Script []byte
	Value  int64
	Key    int // wallet key index, -1 for non-wallet scripts
}

// SpendRef records that input In of Tx (index in block) spends Op.
type SpendRef struct {
	Op      wire.OutPoint
	TxIndex int
	In      int
	Script  []byte
	Key     int
}

type Node struct {
	Branch  *Branch
	Parent  *Node
	Height  int32
	Header  wire.BlockHeader
	Hash    chainhash.Hash
	Block   *wire.MsgBlock
	Filter  *gcs.Filter
	FBytes  []byte
	FHash   chainhash.Hash
	FHdr    chainhash.Hash
	Work    *big.Int // cumulative work from genesis (genesis included)
	Created []OutRef
	Spent   []SpendRef
}

type Branch struct {
	Idx   int
	Fork  *Node // nil for main (whose first node's parent is genesis)
	Nodes []*Node
}

func (b *Branch) Tip() *Node { return b.Nodes[len(b.Nodes)-1] }

type World struct {
	Spec    WorldSpec
	Params  chaincfg.Params
	Rules   *Rules
	Genesis *Node
	Br      []*Branch
	ByHash  map[chainhash.Hash]*Node
	Keys    []WalletKey
	tag     uint32
	fakeMu  sync.Mutex
	fakes   map[fakeKey]fakeVal
}

type fakeKey struct {
	n    *Node
	kind string
}

type fakeVal struct {
	data []byte
	hash chainhash.Hash
	ok   bool
}

type WalletKey struct {
	Pub    []byte
	Script []byte // P2WPKH
}

// Ancestor returns the ancestor of n (or n itself) at height h.
func (n *Node) Ancestor(h int32) *Node {
	if h > n.Height || h < 0 {
		return nil
	}
	c := n
	for c.Height > h {
		if c.Branch == nil {
			return nil
		}
		first := c.Branch.Nodes[0]
		if h >= first.Height {
			return c.Branch.Nodes[h-first.Height]
		}
		c = first.Parent
	}
	return c
}

// Ctx is the (time, bits) lookup along n's path.
func (n *Node) Ctx() HdrCtx {
	return func(h int32) (int64, uint32) {
		a := n.Ancestor(h)
		return a.Header.Timestamp.Unix(), a.Header.Bits
	}
}

// Path returns genesis..n indexed by height.
func (n *Node) Path() []*Node {
	out := make([]*Node, n.Height+1)
	for c := n; c != nil; c = c.Parent {
		out[c.Height] = c
	}
	return out
}

// OnPath reports whether a is n or an ancestor of n.
func (n *Node) OnPath(a *Node) bool {
	return a != nil && a.Height <= n.Height && n.Ancestor(a.Height) == a
}

// ForkPoint returns the highest common ancestor.
func ForkPoint(a, b *Node) *Node {
	h := a.Height
	if b.Height < h {
		h = b.Height
	}
	x, y := a.Ancestor(h), b.Ancestor(h)
	for x != y {
		x, y = x.Parent, y.Parent
	}
	return x
}

// Node resolves (branch, height): the node at that height on the path of the
// branch's tip. Returns nil when out of range.
func (w *World) Node(branch, height int) *Node {
	if branch < 0 || branch >= len(w.Br) {
		return nil
	}
	return w.Br[branch].Tip().Ancestor(int32(height))
}

func hash160(b []byte) []byte {
	s := sha256.Sum256(b)
	r := ripemd160.New()
	r.Write(s[:])
	return r.Sum(nil)
}

var (
	worldMu    sync.Mutex
	worldCache = map[string]*World{}
	worldOrder []string // least recently used first
	worldNodes int
)

// The cache is bounded by the number of cached block nodes (a node carries a
// full block, its filter and derived data: a 2 600-block world weighs well
// over 100 MB), not by the number of worlds.
const (
	maxCachedWorlds = 64
	maxCachedNodes  = 9000
)

// BuildWorld builds (or returns the cached) world of a spec.
func BuildWorld(spec WorldSpec) *World {
	key := spec.Key()
	worldMu.Lock()
	defer worldMu.Unlock()
	touch := func() {
		for i, k := range worldOrder {
			if k == key {
				worldOrder = append(worldOrder[:i], worldOrder[i+1:]...)
				break
			}
		}
		worldOrder = append(worldOrder, key)
	}
	if w, ok := worldCache[key]; ok {
		touch()
		return w
	}
	w := buildWorld(spec)
	n := len(w.ByHash)
	for len(worldOrder) > 0 && (len(worldCache) >= maxCachedWorlds || worldNodes+n > maxCachedNodes) {
		old := worldOrder[0]
		worldOrder = worldOrder[1:]
		if ow, ok := worldCache[old]; ok {
			worldNodes -= len(ow.ByHash)
			delete(worldCache, old)
		}
	}
	worldCache[key] = w
	worldNodes += n
	touch()
	return w
}

func buildWorld(spec WorldSpec) *World {
	w := &World{Spec: spec, Params: spec.P.Build(), Rules: NewRules(spec.P), ByHash: map[chainhash.Hash]*Node{}}
	for k := 0; k < 6; k++ {
		s := sha256.Sum256([]byte(fmt.Sprintf("verif-key-%d", k)))
		pub := append([]byte{0x02}, s[:]...)
		script := append([]byte{0x00, 0x14}, hash160(pub)...)
		w.Keys = append(w.Keys, WalletKey{Pub: pub, Script: script})
	}
	gb, gh := genesis()
	f, err := builder.BuildBasicFilter(gb, nil)
	if err != nil {
		panic(err)
	}
	fb, _ := f.NBytes()
	fh, _ := builder.GetFilterHash(f)
	fhdr, _ := builder.MakeHeaderForFilter(f, gb.Header.PrevBlock)
	w.Genesis = &Node{Height: 0, Header: gb.Header, Hash: gh, Block: gb, Filter: f, FBytes: fb, FHash: fh, FHdr: fhdr, Work: Work(gb.Header.Bits)}
	w.ByHash[gh] = w.Genesis

	rng := rand.New(rand.NewPCG(spec.Seed, 0x9e3779b97f4a7c15))

	// Main branch: plan the base segment relative to a provisional start,
	// shift so that the base tip lands on BaseTipTime, then continue.
	main := &Branch{Idx: 0}
	w.Br = append(w.Br, main)
	n := spec.Base
	if n > 0 {
		prov := Epoch - 60*24*3600
		times, _ := w.plan(w.Genesis, n, spec.Pace, rng, prov, 1<<62)
		shift := BaseTipTime - times[n-1]
		parent := w.Genesis
		for i := 0; i < n; i++ {
			parent = w.extend(main, parent, times[i]+shift, rng)
		}
	}
	if spec.Future > 0 {
		parent := w.Genesis
		if len(main.Nodes) > 0 {
			parent = main.Tip()
		}
		times, _ := w.plan(parent, spec.Future, spec.Pace, rng, 0, FutureCap)
		for i := 0; i < spec.Future; i++ {
			parent = w.extend(main, parent, times[i], rng)
		}
	}
	for i, bs := range spec.Branches {
		br := &Branch{Idx: i + 1}
		fork := (*Node)(nil)
		if bs.Parent >= 0 && bs.Parent < len(w.Br) && len(w.Br[bs.Parent].Nodes) > 0 {
			fork = w.Br[bs.Parent].Tip().Ancestor(int32(bs.At))
		}
		if fork == nil {
			fork = w.Genesis
		}
		br.Fork = fork
		w.Br = append(w.Br, br)
		times, _ := w.plan(fork, bs.Len, bs.Pace, rng, 0, FutureCap)
		parent := fork
		for j := 0; j < bs.Len; j++ {
			parent = w.extend(br, parent, times[j], rng)
		}
		if len(br.Nodes) == 0 {
			// degenerate branch: alias of the fork point, keep Tip usable
			br.Nodes = []*Node{fork}
		}
	}
	if len(main.Nodes) == 0 {
		main.Nodes = []*Node{w.Genesis}
	}
	for _, h := range spec.Checkpoints {
		nd := main.Tip().Ancestor(int32(h))
		if nd == nil || h <= 0 {
			continue
		}
		hh := nd.Hash
		w.Params.Checkpoints = append(w.Params.Checkpoints, chaincfg.Checkpoint{Height: int32(h), Hash: &hh})
		w.Rules.Checkpoints[int32(h)] = hh
	}
	return w
}

// capTarget is the hardest target the generator lets a chain reach (keeps
// mining cheap): powLimit / 512.
func (w *World) capTarget() *big.Int {
	return new(big.Int).Rsh(w.Rules.PowLimit, 9)
}

// plan draws timestamps (and the bits they imply) for n blocks on top of
// parent. start>0 forces the first block's timestamp (provisional layout of
// the base segment); cap bounds every timestamp.
func (w *World) plan(parent *Node, n int, pace int, rng *rand.Rand, start int64, cap int64) ([]int64, []uint32) {
	type tb struct {
		t int64
		b uint32
	}
	ext := make([]tb, 0, n)
	ph := parent.Height
	anc := func(h int32) (int64, uint32) {
		if h > ph {
			e := ext[h-ph-1]
			return e.t, e.b
		}
		a := parent.Ancestor(h)
		return a.Header.Timestamp.Unix(), a.Header.Bits
	}
	sp := w.Rules.spacing()
	R := int32(w.Spec.P.Retarget)
	times := make([]int64, 0, n)
	bits := make([]uint32, 0, n)
	burstLeft, calmLeft := 0, 0
	for i := 0; i < n; i++ {
		h := ph + int32(i) + 1
		pt, _ := anc(h - 1)
		mtp := MTP(anc, h-1)
		var d int64
		switch pace {
		case 0:
			d = 1 + rng.Int64N(sp/4+1)
		case 1:
			d = sp/2 + rng.Int64N(sp+1)
		case 2:
			d = 2*sp + 1 + rng.Int64N(3*sp)
		case 4:
			// bursty clocks: mostly the lowest admissible timestamp,
			// now and then a miner whose clock runs far ahead
			// (runs of 4-7 far-ahead clocks, then 2-12 blocks at the
			// floor), which makes the 11-block median sit well above
			// the most recent timestamps.
			if burstLeft == 0 && calmLeft == 0 {
				burstLeft = 4 + rng.IntN(4)
				calmLeft = 2 + rng.IntN(11)
			}
			if burstLeft > 0 {
				burstLeft--
				d = mtp + sp + rng.Int64N(40*sp) - pt
			} else {
				calmLeft--
				d = mtp + 1 + rng.Int64N(3) - pt
			}
		default:
			d = -sp/2 + rng.Int64N(3*sp)
		}
		t := pt + d
		if i == 0 && start > 0 {
			t = start
		}
		if t <= mtp {
			t = mtp + 1
		}
		if w.Spec.P.BIP94 && R > 0 && h%R == 0 && t < pt-600 {
			t = pt - 600
			if t <= mtp {
				t = mtp + 1
			}
		}
		if t > cap {
			t = pt + 1
			if t <= mtp {
				t = mtp + 1
			}
		}
		// Keep the difficulty below the generator's cap: if this block
		// closes a period, make the period long enough.
		if R > 0 && (h+1)%R == 0 && h+1-R >= 0 {
			ext = append(ext, tb{t, 0})
			ext[len(ext)-1].b = w.Rules.RequiredBits(anc, h, t)
			nb := w.Rules.RequiredBits(anc, h+1, t+1)
			if compactToBig(nb).Cmp(w.capTarget()) < 0 {
				ft, _ := anc(h + 1 - R)
				if nt := ft + int64(R)*sp; nt > t && nt <= cap {
					t = nt
				}
			}
			ext = ext[:len(ext)-1]
		}
		b := w.Rules.RequiredBits(anc, h, t)
		ext = append(ext, tb{t, b})
		times = append(times, t)
		bits = append(bits, b)
	}
	return times, bits
}

func (w *World) spendable(parent *Node, inBlock []OutRef, spentNow map[wire.OutPoint]bool) []OutRef {
	var cands []OutRef
	spent := map[wire.OutPoint]bool{}
	for c, i := parent, 0; c != nil && i < 40; c, i = c.Parent, i+1 {
		for _, s := range c.Spent {
			spent[s.Op] = true
		}
	}
	for c, i := parent, 0; c != nil && i < 40; c, i = c.Parent, i+1 {
		for _, o := range c.Created {
			if o.Key >= 0 && !spent[o.Op] && !spentNow[o.Op] {
				cands = append(cands, o)
			}
		}
	}
	for _, o := range inBlock {
		if o.Key >= 0 && !spentNow[o.Op] {
			cands = append(cands, o)
		}
	}
	return cands
}

// extend mines a child of parent with the given timestamp and appends it to br.
func (w *World) extend(br *Branch, parent *Node, ts int64, rng *rand.Rand) *Node {
	w.tag++
	height := parent.Height + 1
	n := &Node{Branch: br, Parent: parent, Height: height}

	cb := wire.NewMsgTx(2)
	script := make([]byte, 13)
	script[0] = 12
	binary.LittleEndian.PutUint32(script[1:], uint32(height))
	binary.LittleEndian.PutUint32(script[5:], w.tag)
	binary.LittleEndian.PutUint32(script[9:], uint32(w.Spec.Seed))
	cb.AddTxIn(&wire.TxIn{
		PreviousOutPoint: *wire.NewOutPoint(&chainhash.Hash{}, wire.MaxPrevOutIndex),
		SignatureScript:  script, Sequence: wire.MaxTxInSequenceNum,
		Witness: wire.TxWitness{make([]byte, 32)},
	})
	cbKey := int(rng.IntN(len(w.Keys)))
	cb.AddTxOut(&wire.TxOut{Value: 50e8, PkScript: w.Keys[cbKey].Script})

	txs := []*wire.MsgTx{cb}
	var created []OutRef
	var prevScripts [][]byte
	if w.Spec.Tx {
		spentNow := map[wire.OutPoint]bool{}
		ntx := rng.IntN(4)
		for t := 0; t < ntx; t++ {
			cands := w.spendable(parent, created, spentNow)
			if len(cands) == 0 {
				break
			}
			tx := wire.NewMsgTx(2)
			nin := 1
			if len(cands) > 2 && rng.IntN(4) == 0 {
				nin = 2
			}
			var total int64
			for k := 0; k < nin; k++ {
				idx := rng.IntN(len(cands))
				o := cands[idx]
				cands = append(cands[:idx:idx], cands[idx+1:]...)
				spentNow[o.Op] = true
				sig := make([]byte, 71)
				sig[0] = 0x30
				tx.AddTxIn(&wire.TxIn{PreviousOutPoint: o.Op, Sequence: wire.MaxTxInSequenceNum,
					Witness: wire.TxWitness{sig, w.Keys[o.Key].Pub}})
				n.Spent = append(n.Spent, SpendRef{Op: o.Op, TxIndex: len(txs), In: k, Script: o.Script, Key: o.Key})
				prevScripts = append(prevScripts, o.Script)
				total += o.Value
			}
			nout := 1 + rng.IntN(2)
			for k := 0; k < nout; k++ {
				key := rng.IntN(len(w.Keys))
				tx.AddTxOut(&wire.TxOut{Value: total / int64(nout+1), PkScript: w.Keys[key].Script})
			}
			if rng.IntN(5) == 0 {
				tx.AddTxOut(&wire.TxOut{Value: 0, PkScript: []byte{0x6a, 0x04, byte(w.tag), byte(w.tag >> 8), byte(t), 0x01}})
			}
			txs = append(txs, tx)
			th := tx.TxHash()
			for k, o := range tx.TxOut {
				key := -1
				for ki := range w.Keys {
					if string(w.Keys[ki].Script) == string(o.PkScript) {
						key = ki
					}
				}
				created = append(created, OutRef{Op: wire.OutPoint{Hash: th, Index: uint32(k)}, Script: o.PkScript, Value: o.Value, Key: key})
			}
		}
	}
	// Witness commitment (BIP141): dSHA256(witness merkle root || nonce).
	wroot := WitnessMerkleRoot(txs)
	var pre [64]byte
	copy(pre[:32], wroot[:])
	commit := chainhash.DoubleHashH(pre[:])
	cb.AddTxOut(&wire.TxOut{Value: 0, PkScript: append([]byte{0x6a, 0x24, 0xaa, 0x21, 0xa9, 0xed}, commit[:]...)})
	cbh := cb.TxHash()
	n.Created = append([]OutRef{{Op: wire.OutPoint{Hash: cbh, Index: 0}, Script: cb.TxOut[0].PkScript, Value: 50e8, Key: cbKey}}, created...)

	blk := &wire.MsgBlock{Header: wire.BlockHeader{Version: 4, PrevBlock: parent.Hash, Timestamp: time.Unix(ts, 0)}}
	for _, tx := range txs {
		blk.AddTransaction(tx)
	}
	blk.Header.MerkleRoot = MerkleRoot(txs)
	blk.Header.Bits = w.Rules.RequiredBits(parent.Ctx(), height, ts)
	Mine(&blk.Header)
	n.Header = blk.Header
	n.Block = blk
	n.Hash = blk.Header.BlockHash()
	f, err := builder.BuildBasicFilter(blk, prevScripts)
	if err != nil {
		panic(err)
	}
	n.Filter = f
	n.FBytes, _ = f.NBytes()
	n.FHash = chainhash.DoubleHashH(n.FBytes)
	n.FHdr = chainhash.DoubleHashH(append(n.FHash[:], parent.FHdr[:]...))
	n.Work = new(big.Int).Add(parent.Work, Work(blk.Header.Bits))
	w.ByHash[n.Hash] = n
	br.Nodes = append(br.Nodes, n)
	return n
}

// MerkleRoot is an independent implementation of Bitcoin's transaction merkle
// root (txids, odd levels duplicate the last element).
func MerkleRoot(txs []*wire.MsgTx) chainhash.Hash {
	level := make([]chainhash.Hash, len(txs))
	for i, tx := range txs {
		level[i] = tx.TxHash()
	}
	return merkle(level)
}

// WitnessMerkleRoot uses wtxids, the coinbase counted as the zero hash.
func WitnessMerkleRoot(txs []*wire.MsgTx) chainhash.Hash {
	level := make([]chainhash.Hash, len(txs))
	for i, tx := range txs {
		if i > 0 {
			level[i] = tx.WitnessHash()
		}
	}
	return merkle(level)
}

func merkle(level []chainhash.Hash) chainhash.Hash {
	if len(level) == 0 {
		return chainhash.Hash{}
	}
	for len(level) > 1 {
		if len(level)%2 == 1 {
			level = append(level, level[len(level)-1])
		}
		next := make([]chainhash.Hash, len(level)/2)
		for i := range next {
			var buf [64]byte
			copy(buf[:32], level[2*i][:])
			copy(buf[32:], level[2*i+1][:])
			next[i] = chainhash.DoubleHashH(buf[:])
		}
		level = next
	}
	return level[0]
}

// FakeFilter builds a well-formed basic filter for n's block that is wrong:
// kind "omit" leaves out the script of one non-coinbase output (provably
// inconsistent with the block), kind "extra" adds an element that is not in
// the block (not provable from the block alone). ok is false when the block
// has no suitable output for "omit".
func (w *World) FakeFilter(n *Node, kind string) (data []byte, hash chainhash.Hash, ok bool) {
	ck := fakeKey{n, kind}
	w.fakeMu.Lock()
	if r, hit := w.fakes[ck]; hit {
		w.fakeMu.Unlock()
		return r.data, r.hash, r.ok
	}
	w.fakeMu.Unlock()
	defer func() {
		w.fakeMu.Lock()
		if w.fakes == nil {
			w.fakes = map[fakeKey]fakeVal{}
		}
		w.fakes[ck] = fakeVal{data, hash, ok}
		w.fakeMu.Unlock()
	}()
	var entries [][]byte
	seen := map[string]bool{}
	add := func(s []byte) {
		if len(s) == 0 || s[0] == 0x6a || seen[string(s)] {
			return
		}
		seen[string(s)] = true
		entries = append(entries, s)
	}
	for _, sp := range n.Spent {
		add(sp.Script)
	}
	for _, tx := range n.Block.Transactions {
		for _, o := range tx.TxOut {
			add(o.PkScript)
		}
	}
	switch kind {
	case "omit", "empty":
		// ("empty": the filter with no entries at all, for a block that
		// has such a script: the boundary case of an omission)
		// scripts of non-coinbase outputs that are not also paid by
		// the coinbase or spent (those would stay in the filter)
		var cand []byte
		for ti, tx := range n.Block.Transactions {
			if ti == 0 {
				continue
			}
			for _, o := range tx.TxOut {
				if len(o.PkScript) > 0 && o.PkScript[0] != 0x6a {
					cand = o.PkScript
				}
			}
		}
		if cand == nil {
			return nil, chainhash.Hash{}, false
		}
		var kept [][]byte
		for _, e := range entries {
			if string(e) != string(cand) {
				kept = append(kept, e)
			}
		}
		entries = kept
		if kind == "empty" {
			entries = nil
		}
	case "extra":
		entries = append(entries, append([]byte{0x00, 0x14}, hash160(n.Hash[:])...))
	}
	key := builder.DeriveKey(&n.Hash)
	f, err := gcs.BuildGCSFilter(builder.DefaultP, builder.DefaultM, key, entries)
	if err != nil {
		return nil, chainhash.Hash{}, false
	}
	data, _ = f.NBytes()
	return data, chainhash.DoubleHashH(data), true
}
