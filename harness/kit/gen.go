package kit

import (
	"pgregory.net/rapid"
)

// GenParams draws a chain-parameter set.
func GenParams(t *rapid.T) ParamSpec {
	p := ParamSpec{
		Retarget: rapid.SampledFrom([]int{0, 4, 5, 8, 16}).Draw(t, "retarget"),
		Spacing:  rapid.SampledFrom([]int{30, 60, 120}).Draw(t, "spacing"),
		Adj:      rapid.SampledFrom([]int{2, 4}).Draw(t, "adj"),
	}
	if p.Retarget > 0 {
		p.MinDiff = rapid.Bool().Draw(t, "mindiff")
		p.BIP94 = rapid.IntRange(0, 3).Draw(t, "bip94") == 0
	}
	p.VerFloor = rapid.SampledFrom([]int{1, 1, 7}).Draw(t, "verfloor")
	return p
}

// GenBranches draws up to max fork branches for a world whose main branch
// has n blocks; fork points are biased towards the base tip `base`.
func GenBranches(t *rapid.T, n, base, max, maxLen int) []BranchSpec {
	k := rapid.IntRange(0, max).Draw(t, "nbranches")
	var out []BranchSpec
	tipOf := []int{n}
	for i := 0; i < k; i++ {
		parent := rapid.IntRange(0, len(out)).Draw(t, "bparent")
		lo := 0
		hi := tipOf[parent]
		var at int
		switch rapid.IntRange(0, 3).Draw(t, "atmode") {
		case 0:
			at = rapid.IntRange(lo, hi).Draw(t, "at")
		default:
			// near the base tip (where the client's tip usually is)
			c := base
			if c > hi {
				c = hi
			}
			l := c - 12
			if l < lo {
				l = lo
			}
			h := c + 6
			if h > hi {
				h = hi
			}
			at = rapid.IntRange(l, h).Draw(t, "atnear")
		}
		ln := rapid.IntRange(1, maxLen).Draw(t, "blen")
		// bias towards exact length ties / one-more with the displaced part
		switch rapid.IntRange(0, 5).Draw(t, "tiebias") {
		case 0:
			if base-at >= 1 {
				ln = base - at
			}
		case 1:
			if base-at >= 0 {
				ln = base - at + 1
			}
		}
		if ln > maxLen {
			ln = maxLen
		}
		b := BranchSpec{Parent: parent, At: at, Len: ln, Pace: rapid.IntRange(0, 4).Draw(t, "bpace")}
		out = append(out, b)
		tipOf = append(tipOf, at+ln)
	}
	return out
}

// GenMut draws a header mutator; the context-dependent rules (median time,
// required difficulty) are drawn more often than the context-free ones.
func GenMut(t *rapid.T, label string) string {
	return rapid.SampledFrom([]string{MutMTP, MutMTP, MutMTP, MutBits, MutBits, MutBits, MutPow, MutFuture, MutPrev, MutVersion}).Draw(t, label)
}
