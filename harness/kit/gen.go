package kit

import (
	"os"

	"pgregory.net/rapid"
)

// GenParams draws a chain-parameter set.
func GenParams(t *rapid.T) ParamSpec {
	p := ParamSpec{
		Retarget: Pick(t, "retarget", []int{0, 4, 5, 8, 16}),
		Spacing:  rapid.SampledFrom([]int{30, 60, 120}).Draw(t, "spacing"),
		Adj:      rapid.SampledFrom([]int{2, 4}).Draw(t, "adj"),
	}
	if p.Retarget > 0 {
		p.MinDiff = rapid.Bool().Draw(t, "mindiff")
		p.BIP94 = rapid.IntRange(0, 3).Draw(t, "bip94") == 0
	}
	p.VerFloor = rapid.SampledFrom([]int{1, 1, 7}).Draw(t, "verfloor")
	return p
}

// GenBranches draws up to max fork branches for a world whose main branch
// has n blocks; fork points are biased towards the base tip `base`.
func GenBranches(t *rapid.T, n, base, max, maxLen int) []BranchSpec {
	k := rapid.IntRange(0, max).Draw(t, "nbranches")
	var out []BranchSpec
	tipOf := []int{n}
	for i := 0; i < k; i++ {
		parent := rapid.IntRange(0, len(out)).Draw(t, "bparent")
		lo := 0
		hi := tipOf[parent]
		var at int
		switch rapid.IntRange(0, 3).Draw(t, "atmode") {
		case 0:
			at = rapid.IntRange(lo, hi).Draw(t, "at")
		default:
			// near the base tip (where the client's tip usually is)
			c := base
			if c > hi {
				c = hi
			}
			l := c - 12
			if l < lo {
				l = lo
			}
			h := c + 6
			if h > hi {
				h = hi
			}
			at = rapid.IntRange(l, h).Draw(t, "atnear")
		}
		ln := rapid.IntRange(1, maxLen).Draw(t, "blen")
		// bias towards exact length ties / one-more with the displaced part
		switch Uni(t, "tiebias", 6) {
		case 0:
			if base-at >= 1 {
				ln = base - at
			}
		case 1:
			if base-at >= 0 {
				ln = base - at + 1
			}
		}
		if ln > maxLen {
			ln = maxLen
		}
		b := BranchSpec{Parent: parent, At: at, Len: ln, Pace: Uni(t, "bpace", 5)}
		out = append(out, b)
		tipOf = append(tipOf, at+ln)
	}
	return out
}

// GenMut draws a header mutator; the context-dependent rules (median time,
// required difficulty) are drawn more often than the context-free ones.
func GenMut(t *rapid.T, label string) string {
	return Pick(t, label, []string{MutMTP, MutMTP, MutMTP, MutBits, MutBits, MutBits, MutPow, MutFuture, MutPrev, MutVersion})
}

// Uni draws a (nearly) uniform integer in [0,n): rapid's IntRange and
// SampledFrom are deliberately biased towards small values / early entries,
// which skews weighted choices between alternatives. Shrinks towards 0.
func Uni(t *rapid.T, label string, n int) int {
	if n <= 1 {
		return 0
	}
	v := 0
	for i := 0; i < 12; i++ {
		v <<= 1
		if rapid.Bool().Draw(t, label) {
			v |= 1
		}
	}
	return v % n
}

// Pick chooses a list element uniformly.
func Pick[T any](t *rapid.T, label string, list []T) T {
	return list[Uni(t, label, len(list))]
}

// Thorough reports whether the check runs in the thorough tier (the driver
// exports VERIF_TIER); generators use it only to widen size ranges.
func Thorough() bool { return os.Getenv("VERIF_TIER") == "thorough" }
