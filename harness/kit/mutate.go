package kit

import (
	"time"

	"github.com/btcsuite/btcd/chainhash/v2"
	"github.com/btcsuite/btcd/wire/v2"
)

// Header mutators: each yields a header that is wrong in exactly one rule
// (as far as the rule set allows).
const (
	MutNone    = ""
	MutPow     = "pow"     // hash above its own target
	MutBits    = "bits"    // difficulty other than required (PoW valid for the claimed bits)
	MutMTP     = "mtp"     // timestamp not after median-time-past
	MutFuture  = "future"  // timestamp more than two hours ahead
	MutPrev    = "prev"    // unknown predecessor
	MutVersion = "version" // version below the floor
)

var HeaderMuts = []string{MutPow, MutBits, MutMTP, MutFuture, MutPrev, MutVersion}

// FutureStamp is the timestamp used by MutFuture: far beyond any virtual
// time a script reaches plus two hours.
const FutureStamp = Epoch + 400*24*3600

// MutateHeader returns a mutated copy of n's header (as a child of n.Parent).
func (w *World) MutateHeader(n *Node, mut string) wire.BlockHeader {
	h := n.Header
	ctx := n.Parent.Ctx()
	switch mut {
	case MutPow:
		MineBad(&h)
	case MutBits:
		if h.Bits == w.Rules.PowLimitBits {
			// claim a (slightly) higher difficulty than required
			t := compactToBig(h.Bits)
			t.Rsh(t, 2)
			h.Bits = bigToCompact(t)
		} else {
			h.Bits = w.Rules.PowLimitBits
		}
		Mine(&h)
	case MutMTP:
		ts := MTP(ctx, n.Height-1)
		h.Timestamp = time.Unix(ts, 0)
		h.Bits = w.Rules.RequiredBits(ctx, n.Height, ts)
		Mine(&h)
	case MutFuture:
		h.Timestamp = time.Unix(FutureStamp, 0)
		h.Bits = w.Rules.RequiredBits(ctx, n.Height, FutureStamp)
		Mine(&h)
	case MutPrev:
		h.PrevBlock = chainhash.HashH(append([]byte("unknown-parent"), n.Hash[:]...))
		Mine(&h)
	case MutVersion:
		h.Version = 3
		Mine(&h)
	}
	return h
}

// Batch returns the headers of nodes[...] (which must be consecutive on one
// path). If mut != "" the header at index k is mutated and the following
// ones are re-linked to it (and re-mined) so that the batch stays internally
// connected.
func (w *World) Batch(nodes []*Node, k int, mut string) []*wire.BlockHeader {
	out := make([]*wire.BlockHeader, len(nodes))
	for i, n := range nodes {
		h := n.Header
		out[i] = &h
	}
	if mut == MutNone || k < 0 || k >= len(nodes) {
		return out
	}
	mh := w.MutateHeader(nodes[k], mut)
	out[k] = &mh
	for i := k + 1; i < len(out); i++ {
		out[i].PrevBlock = out[i-1].BlockHash()
		Mine(out[i])
	}
	return out
}

// Segment returns the nodes (from, to] on the path of `to`.
func Segment(from int32, to *Node) []*Node {
	var out []*Node
	for h := from + 1; h <= to.Height; h++ {
		out = append(out, to.Ancestor(h))
	}
	return out
}
