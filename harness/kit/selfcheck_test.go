package kit

import (
	"testing"

	"pgregory.net/rapid"
)

// TestValidatorAgreesWithBtcd differential-tests the reference validator
// against btcd on generated honest chains and on every mutated header.
func TestValidatorAgreesWithBtcd(t *testing.T) {
	rapid.Check(t, func(rt *rapid.T) {
		p := GenParams(rt)
		base := rapid.IntRange(1, 120).Draw(rt, "base")
		fut := rapid.IntRange(0, 40).Draw(rt, "future")
		spec := WorldSpec{P: p, Seed: rapid.Uint64Range(0, 50).Draw(rt, "seed"), Base: base, Future: fut,
			Pace: rapid.IntRange(0, 4).Draw(rt, "pace"), Tx: rapid.Bool().Draw(rt, "tx")}
		spec.Branches = GenBranches(rt, base+fut, base, 3, 30)
		w := buildWorld(spec)
		now := Epoch + 60
		for _, br := range w.Br {
			for _, n := range br.Nodes {
				if n.Parent == nil {
					continue
				}
				mine := w.Rules.Check(n.Parent.Ctx(), n.Parent.Hash, n.Height, &n.Header, now)
				theirs := w.BtcdCheck(n.Parent, &n.Header, now)
				if mine != "" || theirs != nil {
					rt.Fatalf("honest node b%d h%d: mine=%q btcd=%v", br.Idx, n.Height, mine, theirs)
				}
				if n.Header.Timestamp.Unix() > FutureCap {
					rt.Fatalf("honest node beyond future cap")
				}
			}
		}
		// mutated headers at a drawn node
		br := w.Br[rapid.IntRange(0, len(w.Br)-1).Draw(rt, "mb")]
		n := br.Nodes[rapid.IntRange(0, len(br.Nodes)-1).Draw(rt, "mn")]
		if n.Parent == nil {
			return
		}
		for _, m := range HeaderMuts {
			h := w.MutateHeader(n, m)
			if m == MutPrev {
				continue // not a child of n.Parent any more
			}
			mine := w.Rules.Check(n.Parent.Ctx(), n.Parent.Hash, n.Height, &h, now)
			theirs := w.BtcdCheck(n.Parent, &h, now)
			if (mine == "") != (theirs == nil) {
				rt.Fatalf("mut %s at h%d: mine=%q btcd=%v", m, n.Height, mine, theirs)
			}
			if m == MutVersion && int(n.Height) < p.VerFloor {
				continue
			}
			if mine == "" {
				rt.Fatalf("mut %s at h%d produced a header both validators accept", m, n.Height)
			}
		}
	})
}
