package kit

import (
	"fmt"
	"math/big"
	"sort"

	"github.com/btcsuite/btcd/chainhash/v2"
	"github.com/btcsuite/btcd/wire/v2"
)

// Rules is the reference header validator: an independent implementation of
// the consensus header rules the client is supposed to enforce. It shares no
// code with btcd/neutrino (it is differential-tested against btcd in
// selfcheck_test.go).
type Rules struct {
	P            ParamSpec
	PowLimit     *big.Int
	PowLimitBits uint32
	Checkpoints  map[int32]chainhash.Hash
}

func NewRules(p ParamSpec) *Rules {
	cp := p.Build()
	return &Rules{P: p, PowLimit: new(big.Int).Set(cp.PowLimit), PowLimitBits: cp.PowLimitBits, Checkpoints: map[int32]chainhash.Hash{}}
}

// HdrCtx gives the (timestamp, bits) of the ancestor at a height on the path
// of the header under validation.
type HdrCtx func(height int32) (int64, uint32)

func (r *Rules) spacing() int64 {
	if r.P.Spacing <= 0 {
		return 600
	}
	return int64(r.P.Spacing)
}

func (r *Rules) adj() int64 {
	if r.P.Adj < 2 {
		return 4
	}
	return int64(r.P.Adj)
}

// RequiredBits returns the difficulty bits a header at `height` with
// timestamp `ts` must carry, given its ancestors.
func (r *Rules) RequiredBits(anc HdrCtx, height int32, ts int64) uint32 {
	if r.P.Retarget <= 0 {
		return r.PowLimitBits
	}
	R := int32(r.P.Retarget)
	pt, pb := anc(height - 1)
	if height%R != 0 {
		if r.P.MinDiff {
			if ts > pt+2*r.spacing() {
				return r.PowLimitBits
			}
			// last ancestor that is on a retarget boundary or is not
			// a minimum-difficulty block
			h := height - 1
			for h > 0 && h%R != 0 {
				_, b := anc(h)
				if b != r.PowLimitBits {
					break
				}
				h--
			}
			_, b := anc(h)
			return b
		}
		return pb
	}
	ft, fb := anc(height - R)
	span := pt - ft
	tspan := int64(R) * r.spacing()
	lo, hi := tspan/r.adj(), tspan*r.adj()
	if span < lo {
		span = lo
	} else if span > hi {
		span = hi
	}
	old := compactToBig(pb)
	if r.P.BIP94 {
		old = compactToBig(fb)
	}
	nt := new(big.Int).Mul(old, big.NewInt(span))
	nt.Div(nt, big.NewInt(tspan))
	if nt.Cmp(r.PowLimit) > 0 {
		nt.Set(r.PowLimit)
	}
	return bigToCompact(nt)
}

// MTP is the median of the timestamps of the (up to) 11 headers ending at
// height h.
func MTP(anc HdrCtx, h int32) int64 {
	var ts []int64
	for i := 0; i < 11 && h-int32(i) >= 0; i++ {
		t, _ := anc(h - int32(i))
		ts = append(ts, t)
	}
	sort.Slice(ts, func(i, j int) bool { return ts[i] < ts[j] })
	return ts[len(ts)/2]
}

// Check validates hdr as the header at `height` whose parent is the header at
// height-1 of anc (parentHash is that parent's hash). now is the time against
// which the two-hour future limit is taken; now<=0 skips that rule. It returns
// "" or the name of the first violated rule.
func (r *Rules) Check(anc HdrCtx, parentHash chainhash.Hash, height int32, hdr *wire.BlockHeader, now int64) string {
	if hdr.PrevBlock != parentHash {
		return "link"
	}
	ts := hdr.Timestamp.Unix()
	if want := r.RequiredBits(anc, height, ts); hdr.Bits != want {
		return fmt.Sprintf("bits(have %08x want %08x)", hdr.Bits, want)
	}
	if ts <= MTP(anc, height-1) {
		return "mtp"
	}
	if r.P.BIP94 && r.P.Retarget > 0 && height%int32(r.P.Retarget) == 0 {
		pt, _ := anc(height - 1)
		if ts < pt-600 {
			return "timewarp"
		}
	}
	vf := int32(r.P.VerFloor)
	if vf <= 0 {
		vf = 1
	}
	if hdr.Version < 4 && height >= vf {
		return "version"
	}
	target := compactToBig(hdr.Bits)
	if target.Sign() <= 0 || target.Cmp(r.PowLimit) > 0 {
		return "powrange"
	}
	h := hdr.BlockHash()
	if hashToBig(&h).Cmp(target) > 0 {
		return "pow"
	}
	if now > 0 && ts > now+2*3600 {
		return "future"
	}
	if cp, ok := r.Checkpoints[height]; ok && cp != h {
		return "checkpoint"
	}
	return ""
}

// CheckChain validates a whole chain given as headers indexed by height
// (index 0 must be the genesis header). firstSeen, if non-nil, gives for a
// header hash the virtual time at which the future limit must be evaluated
// (missing entries skip the rule). It returns "" or a description.
func (r *Rules) CheckChain(hdrs []*wire.BlockHeader, from int32, firstSeen func(chainhash.Hash) int64) string {
	_, gh := genesis()
	if len(hdrs) == 0 || hdrs[0].BlockHash() != gh {
		return "height 0 is not the genesis block"
	}
	anc := func(h int32) (int64, uint32) { return hdrs[h].Timestamp.Unix(), hdrs[h].Bits }
	if from < 1 {
		from = 1
	}
	for h := from; h < int32(len(hdrs)); h++ {
		now := int64(0)
		if firstSeen != nil {
			now = firstSeen(hdrs[h].BlockHash())
		}
		if e := r.Check(anc, hdrs[h-1].BlockHash(), h, hdrs[h], now); e != "" {
			return fmt.Sprintf("height %d violates rule %s", h, e)
		}
	}
	return ""
}
