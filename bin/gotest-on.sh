#!/bin/bash
# usage: gotest-on.sh <repo-dir> <module: harness|harness-cache> <go test args...>
# Runs `go test` for a harness module against another checkout of neutrino
# (e.g. a scratch worktree carrying a deliberate mutation).
set -u
repo=$(realpath $1); mod=$2; shift 2
tmp=$(mktemp -d /tmp/gotest-on.XXXXXX)
trap 'rm -rf $tmp' EXIT
sed "s#=> /repo#=> $repo#" /verif/$mod/go.mod > $tmp/go.mod
cp /verif/$mod/go.sum $tmp/go.sum
cd /verif/$mod && GOFLAGS=-mod=mod GOPROXY=off go test -modfile=$tmp/go.mod "$@"
