#!/bin/bash
# usage: seedall.sh [tier] : runs every seeded change against its property's check (scratch worktree), one line per seed
tier=${1:-quick}
cd /verif
for d in seeded/*/; do
  n=$(basename $d); [ -f $d/patch.diff ] || continue
  prop=$(python3 -c "import json;print(json.load(open('$d/meta.json'))['property'])")
  out=$(SKIP_DEMO=1 bin/seedtest.sh $d bin/verifrun $prop $tier 2>&1)
  if echo "$out" | grep -q "patch does not apply"; then echo "$n $prop PATCH-DOES-NOT-APPLY"; continue; fi
  rc=$(echo "$out" | grep "check exit:" | tail -1 | awk '{print $3}')
  echo "$n $prop exit=$rc $(echo "$out" | grep -a 'violation in unit' | head -1 | cut -c1-140)"
done
