#!/bin/bash
# usage: seedtest.sh <seed-dir> <check-cmd...>
# 1. verifies the seeded change's own demonstration (fails with, passes without)
# 2. runs the given check command against a scratch worktree with the patch applied
set -u
sd=$(realpath $1); shift
wt=/tmp/seedwt-$(basename $sd)
export GOFLAGS=-mod=mod GOPROXY=off
git -C /repo worktree remove --force $wt 2>/dev/null
git -C /repo worktree add -q $wt HEAD || exit 3
demo=$(python3 -c "import json;print(json.load(open('$sd/meta.json'))['demo_file'])")
demodst=$(python3 -c "import json;print(json.load(open('$sd/meta.json'))['demo_dst'])")
demorun=$(python3 -c "import json;print(json.load(open('$sd/meta.json'))['demo_run'])")
cp $sd/$demo $wt/$demodst
if [ "${SKIP_DEMO:-}" = "" ]; then
(cd $wt && eval "$demorun") > /tmp/seed-demo-clean.log 2>&1; c=$?
echo "demo without patch: exit $c"
fi
git -C $wt apply $sd/patch.diff || { echo "patch does not apply"; git -C /repo worktree remove --force $wt; exit 3; }
if [ "${SKIP_DEMO:-}" = "" ]; then
(cd $wt && eval "$demorun") > /tmp/seed-demo-mut.log 2>&1; m=$?
echo "demo with patch: exit $m"
fi
rm -f $wt/$demodst
if [ $# -gt 0 ]; then VERIF_REPO=$wt "$@"; echo "check exit: $?"; fi
git -C /repo worktree remove --force $wt
