#!/bin/bash
# usage: soak.sh <tier> <seed>... : runs every check at the given VERIF_SEED values,
# prints one line per (property, seed) that is not OK. Evidence files are rewritten.
tier=$1; shift
cd /verif
for seed in "$@"; do
  for p in C01 C02 C03 C04 C05 C06 C07 C08 C09 C10 C11 C12 C13 C14 C15 C16 C17 C18 C19; do
    out=$(VERIF_SEED=$seed bin/verifrun $p $tier 2>&1); rc=$?
    if [ $rc -ne 0 ]; then echo "seed=$seed $p rc=$rc: $(echo "$out" | grep -a 'VIOLATION\|INCONCLUSIVE\|violation in' | head -3 | cut -c1-300)"; fi
  done
  echo "seed=$seed done"
done
