#!/bin/bash
# usage: mutate.sh <name> <python-expr-file> -- <command...>
# Creates a scratch worktree of /repo HEAD, applies a textual mutation given as
# a python snippet operating on variable `src` keyed by file, runs the command
# with VERIF_REPO pointing at the worktree, removes the worktree.
set -u
name=$1; file=$2; old=$3; new=$4; shift 4
wt=/tmp/mut-$name
git -C /repo worktree remove --force $wt 2>/dev/null
git -C /repo worktree add -q $wt HEAD || exit 3
python3 - "$wt/$file" "$old" "$new" <<'PY' || { git -C /repo worktree remove --force $wt; exit 3; }
import sys
p,old,new=sys.argv[1:4]
s=open(p).read()
old=old.encode().decode('unicode_escape'); new=new.encode().decode('unicode_escape')
if s.count(old)!=1:
    print("mutation pattern occurs %d times"%s.count(old)); sys.exit(1)
open(p,'w').write(s.replace(old,new))
PY
(cd $wt && GOFLAGS=-mod=mod GOPROXY=off go build ./... ) || { echo "mutant does not build"; git -C /repo worktree remove --force $wt; exit 3; }
VERIF_REPO=$wt "$@"; rc=$?
git -C /repo worktree remove --force $wt
echo "mutant $name -> exit $rc"
exit $rc
