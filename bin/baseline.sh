#!/bin/bash
# Runs the repository's pinned test suite with the verif guard OFF and checks
# that every test listed as stable in /root/.vp/BASELINE.json passes.
set -u
export GOFLAGS=-mod=mod GOPROXY=off
REPO=${VERIF_REPO:-/repo}
OUT=$(mktemp /tmp/verif-baseline.XXXXXX.json)
trap 'rm -f "$OUT"' EXIT
for m in . ./cache; do
  (cd "$REPO/$m" && go test -json -vet=off -count=1 -timeout 25m ./... ) >> "$OUT" 2>/dev/null
done
git -C "$REPO" checkout -- go.sum cache/go.sum 2>/dev/null
python3 - "$OUT" <<'PY'
import json,sys
res={}
for line in open(sys.argv[1]):
    try: e=json.loads(line)
    except Exception: continue
    if e.get('Test') and e.get('Action') in('pass','fail','skip'):
        res[e['Package']+'::'+e['Test']]=e['Action']
base=json.load(open('/root/.vp/BASELINE.json'))
bad=[t for t in base['stable_pass'] if res.get(t)!='pass']
# A few of the repository's tests compare wall-clock intervals and fail when
# the machine is saturated (checks of this harness running next to it); a
# test that failed is re-run on its own, twice at most, before it counts.
import subprocess, os
repo=os.environ.get('VERIF_REPO','/repo')
still=[]
for t in bad:
    pkg,name=t.split('::',1)
    rel=pkg.replace('github.com/lightninglabs/neutrino','.',1)
    cwd=repo
    if rel.startswith('./cache'):
        cwd=os.path.join(repo,'cache'); rel='.'+rel[len('./cache'):] if len(rel)>len('./cache') else '.'
    ok=False
    for _ in range(2):
        r=subprocess.run(['go','test','-count=1','-vet=off','-run','^'+name.split('/')[0]+'$',rel],cwd=cwd,stdout=subprocess.PIPE,stderr=subprocess.STDOUT)
        if r.returncode==0:
            ok=True; break
    print("  re-run of %s on its own: %s"%(t,'pass' if ok else 'FAIL'))
    if not ok: still.append(t)
bad=still
print("baseline: %d stable tests, %d passing now, %d not passing"%(len(base['stable_pass']),len(base['stable_pass'])-len(bad),len(bad)))
for t in bad: print("  NOT PASSING:",t,res.get(t))
sys.exit(1 if bad else 0)
PY
