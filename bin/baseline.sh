#!/bin/bash
# Runs the repository's pinned test suite with the verif guard OFF and checks
# that every test listed as stable in /root/.vp/BASELINE.json passes.
set -u
export GOFLAGS=-mod=mod GOPROXY=off
REPO=${VERIF_REPO:-/repo}
OUT=$(mktemp /tmp/verif-baseline.XXXXXX.json)
trap 'rm -f "$OUT"' EXIT
for m in . ./cache; do
  (cd "$REPO/$m" && go test -json -vet=off -count=1 -timeout 25m ./... ) >> "$OUT" 2>/dev/null
done
git -C "$REPO" checkout -- go.sum cache/go.sum 2>/dev/null
python3 - "$OUT" <<'PY'
import json,sys
res={}
for line in open(sys.argv[1]):
    try: e=json.loads(line)
    except Exception: continue
    if e.get('Test') and e.get('Action') in('pass','fail','skip'):
        res[e['Package']+'::'+e['Test']]=e['Action']
base=json.load(open('/root/.vp/BASELINE.json'))
bad=[t for t in base['stable_pass'] if res.get(t)!='pass']
print("baseline: %d stable tests, %d passing now, %d not passing"%(len(base['stable_pass']),len(base['stable_pass'])-len(bad),len(bad)))
for t in bad: print("  NOT PASSING:",t,res.get(t))
sys.exit(1 if bad else 0)
PY
