HOOK_COMMITS = ["7165ce5"]
NOTES = ("Every check is generated-input search (pgregory.net/rapid; native go fuzzing only in thorough tiers) against an explicit oracle; "
         "evidence files are written by bin/verifrun from the per-shard statistics of the test binaries. Exit 2 = inconclusive (build failure, watchdog, harness error).")
ENGINES = [
    {"name": "netsim", "path": "harness/netsim", "serves_properties": ["C01", "C02", "C03", "C05", "C06", "C19"],
     "kind_free_text": "real ChainService (public API) against scripted raw-wire peers over in-memory connections inside a testing/synctest bubble (virtual time, quiescence barrier); rapid-generated worlds and scripts"},
    {"name": "hdrstore", "path": "harness/checks/hdrstore", "serves_properties": ["C07", "C08"],
     "kind_free_text": "rapid state machine over the real header stores with a list model; database and file fault injection; crash-image enumeration"},
    {"name": "component", "path": "harness/checks", "serves_properties": ["C11", "C12", "C13", "C15"],
     "kind_free_text": "rapid-generated histories against one real component (blockntfns, query, banman, pushtx) with generated collaborators in a synctest bubble"},
]
NETSIM_NOTE = ("Trusts: the reference validator / world generator (differential-tested vs btcd), testing/synctest virtual time, bbolt. "
               "Only histories the generator produces are covered; goroutine scheduling inside one quiescent step is not controlled.")
META = {
 "C01": {"engine": "netsim", "technique": "property-based testing (rapid) of a network simulation, oracle = independent reference header validator + lookup agreement",
         "text": "Generated-input search: rapid-generated peer scripts against the real client; after every quiescent point the full header store is re-validated by an independent reference validator and all lookup paths are compared, also after reopening. Finds violations on explored histories only; no absence claim.",
         "note": NETSIM_NOTE},
 "C02": {"engine": "netsim", "technique": "property-based testing (rapid) of a network simulation, oracle = model of allowed post-states per delivered headers message",
         "text": "Generated-input search over fork trees and reveal orders; for every delivered headers message a model computes the set of chains the property allows afterwards (keep / adopt / either / checkpoint-failure truncation), over all interleavings of messages from different peers. Exploration only.",
         "note": NETSIM_NOTE},
 "C03": {"engine": "netsim", "technique": "property-based testing (rapid) of a network simulation with lying peers, oracle = ground-truth BIP157 headers + served-hash set + ban set",
         "text": "Generated-input search over peer behaviour assignments (honest, four kinds of filter-header liars, checkpoint liars, silent), chain growth and reorganisations during filter-header sync, in at-tip and checkpointed worlds. Exploration only.",
         "note": NETSIM_NOTE},
 "C07": {"engine": "hdrstore", "technique": "model-based (stateful) property testing with rapid, oracle = in-memory list model; injected database and file write faults",
         "text": "Generated operation histories on the real stores compared, after every operation and after reopening, with two plain lists on every read method. Exploration only.",
         "note": "Trusts bbolt and the OS file semantics. File faults are injected through a wrapper reached by reflection (a layout change is a harness error)."},
 "C08": {"engine": "hdrstore", "technique": "fault enumeration inside rapid-generated histories: every commit boundary and synthesized torn file lengths are restarted and checked against the list model",
         "text": "Within each generated history every crash point the harness can observe (before/after every index commit, plus torn append lengths) is enumerated and restarted; the set of histories is sampled. Process-death crash model.",
         "note": "Crash model = process death with ordered writes; fsync/power-loss reordering out of scope. Only store-level operations are covered by this unit (multi-store block-manager and import operations: see DESIGN.md)."},
 "C11": {"engine": "component", "technique": "property-based testing (rapid) with concurrent operation scripts in a synctest bubble, oracle = expected stream per subscriber",
         "text": "Generated subscribe / cancel / emit / read / stop scripts, sequential and concurrent, against the real subscription manager; each subscriber's stream is compared with backlog ++ later events. Exploration only; concurrent cases are schedule dependent.",
         "note": "Trusts synctest. One open known finding (gap when Stop races a burst) is excluded by signature."},
 "C12": {"engine": "component", "technique": "property-based testing (rapid) of the real dispatcher + workers with mock peers in a synctest bubble, oracle = history invariants (one verdict, justified errors, re-issue, ranking)",
         "text": "Generated peer schedules and batch options against the real work manager; a history oracle checks verdict uniqueness and justification at every tick. Exploration only.",
         "note": "Trusts synctest; same-instant orderings are all accepted; same-instant reconnect of an address is outside the generated domain."},
 "C13": {"engine": "component", "technique": "model-based (stateful) property testing with rapid in a synctest bubble, oracle = map model with virtual clock; native fuzzing of the address parser in the thorough tier",
         "text": "Generated ban / unban / status / reopen / clock histories over many textual spellings against the real store on bbolt, compared with a map keyed by canonical network. Exploration only. Enforcement in the network simulation is not yet part of this check.",
         "note": "One-second expiry granularity tolerated; trusts bbolt and synctest."},
 "C15": {"engine": "component", "technique": "property-based testing (rapid) with concurrent callers in a synctest bubble, oracle = set model over the callback log",
         "text": "Generated transaction graphs and broadcast / block / tick / confirm / stop scripts against the real broadcaster; rebroadcast rounds are checked against a set model and every call must return. Exploration only. The SendTransaction verdict rule is not yet covered.",
         "note": "Trusts synctest; within one instant only causally forced orders are used."},
 "C19": {"engine": "netsim", "technique": "property-based testing (rapid) of a network simulation, oracle = replay of the event stream == committed chain, commit stamps, backlog comparison",
         "text": "Generated fork-biased scripts with an early subscriber and backlog probes (at quiescence and mid-batch); the event stream is replayed and compared with the committed chain at every quiescent point. Exploration only; the after-commit rule is a race-based external observation.",
         "note": NETSIM_NOTE},
 "C05": {"engine": "netsim", "technique": "property-based testing (rapid) of a network simulation with edited response streams, oracle = independent recomputation of the filter header against the committed one, over return value, cache and database",
         "text": "Generated edits of the peers' cfilter response streams and generated GetCFilter calls (batching modes, range boundaries, cache sizes, persistence) against the real client on pre-filled stores. Exploration only.",
         "note": NETSIM_NOTE},
 "C06": {"engine": "netsim", "technique": "property-based testing (rapid) of a network simulation with edited response streams, oracle = independent merkle-root / witness-commitment recomputation, ban set",
         "text": "Generated edits of the peers' block responses (merkle / witness mutations, other blocks, duplicates) and generated, partly concurrent GetBlock calls against the real client. Exploration only.",
         "note": NETSIM_NOTE},
}
NOT_APPLICABLE = {}
