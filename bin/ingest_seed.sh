#!/bin/bash
# usage: ingest_seed.sh <id-lower e.g. c11> [property e.g. C11] : copy a sub-agent's SEED dir into seeded/, verify, run the check
id=$1; prop=${2:-$(echo $id | tr a-z A-Z)}
src=/tmp/seed-$id/SEED; dst=/verif/seeded/$id-agent1
[ -d $src ] || { echo "no $src"; exit 1; }
mkdir -p $dst && cp $src/* $dst/
python3 - "$dst" <<'PY'
import json,sys
p=sys.argv[1]+'/meta.json'
m=json.load(open(p)); m['origin']="independent sub-agent given only the property text"
json.dump(m,open(p,'w'),indent=1); print(m.get('demo_file'),'|',m.get('demo_dst'),'|',m.get('demo_run'))
PY
git -C /repo worktree remove --force /tmp/seed-$id
cd /verif && bin/seedtest.sh seeded/$id-agent1 bin/verifrun $prop quick 2>&1 | tail -6
