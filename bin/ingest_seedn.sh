#!/bin/bash
# usage: ingest_seed2.sh <id-lower e.g. c11> [tier]: copy a round-2 sub-agent's SEED dir into seeded/<id>-agent${round},
# verify its demo (fails with, passes without) and run the property's check against it
round=$1; id=$2; tier=${3:-quick}; prop=$(echo $id | tr a-z A-Z)
src=/tmp/seed${round}-$id/SEED; dst=/verif/seeded/$id-agent${round}
[ -d $src ] || { echo "no $src"; exit 1; }
mkdir -p $dst && cp $src/* $dst/
python3 - "$dst" <<'PY'
import json,sys
p=sys.argv[1]+'/meta.json'
m=json.load(open(p)); m['origin']="independent sub-agent given only the property text"
json.dump(m,open(p,'w'),indent=1); print(m.get('demo_file'),'|',m.get('demo_dst'),'|',m.get('demo_run'))
PY
git -C /repo worktree remove --force /tmp/seed${round}-$id
cd /verif && bin/seedtest.sh seeded/$id-agent${round} bin/verifrun $prop $tier 2>&1 | tail -6
