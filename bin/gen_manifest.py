#!/usr/bin/env python3
"""Regenerates MANIFEST.json from checks_table.py and manifest_meta below."""
import json, os, subprocess, sys
VERIF = os.path.dirname(os.path.dirname(os.path.abspath(__file__)))
sys.path.insert(0, os.path.join(VERIF, "bin"))
from checks_table import CHECKS
from manifest_meta import META, NOT_APPLICABLE, ENGINES, HOOK_COMMITS, NOTES

checks = []
for pid in sorted(CHECKS):
    m = META[pid]
    checks.append({
        "property_id": pid,
        "quick_cmd": "bin/verifrun %s quick" % pid,
        "thorough_cmd": "bin/verifrun %s thorough" % pid,
        "evidence_file": "evidence/%s.json" % pid,
        "replay_cmd_template": "bin/verifrun replay %s {path}" % pid,
        "engine": m["engine"],
        "level_claimed": {"category": CHECKS[pid]["level"], "text": m["text"], "design_ref": "DESIGN.md section 4, " + pid},
        "level_note": m["note"],
        "technique": m["technique"],
    })
props = [json.loads(l)["id"] for l in open(os.path.join(VERIF, "properties.jsonl"))]
na = [{"property_id": p, "reason": NOT_APPLICABLE.get(p, "check not built yet (work in progress)")} for p in props if p not in CHECKS]
man = {
    "version": 1,
    "setup_cmd": "bin/verifrun setup",
    "hooks": {"guard": "verif", "enable": "Go build tag: every check builds /repo with `go test -c -tags verif`",
              "baseline_off_cmd": "bin/baseline.sh", "source_commits": HOOK_COMMITS, "add_only": True},
    "engines": ENGINES,
    "checks": checks,
    "not_applicable": na,
    "notes": NOTES,
}
json.dump(man, open(os.path.join(VERIF, "MANIFEST.json"), "w"), indent=1)
print("MANIFEST.json: %d checks, %d not applicable" % (len(checks), len(na)))
