"""Table of registered checks: property -> units (test binaries) and budgets.

Each unit: module (directory under /verif), pkg, test, tags, and per-tier
budgets {checks per shard, shards, watchdog timeout seconds}.
"""

NETSIM_ASSUME = [
    "the client is driven only through its public API inside a testing/synctest bubble (virtual time); peers speak raw wire messages over in-memory connections",
    "peers report accurate clocks (adjusted time == virtual time)",
    "the at-tip filter-header loop is slowed to one iteration per 250 virtual ms through the verif-tag yield hook (it can busy-wait otherwise)",
    "reference header validator is differential-tested against btcd in kit/selfcheck_test.go",
]

CHECKS = {
    "C01": {
        "level": "exploration",
        "rule": "rapid-generated scripts (chain-parameter set x block tree x 1-4 peers x 4-30 events: header batches honest/mutated/duplicated/shuffled/forked, inv, view changes, disconnects, clock advances) run against the real ChainService; after every quiescence the whole block-header store is re-validated with the reference validator and all lookups are compared. Non-trivial = an invalid, forked or out-of-order batch was delivered AND a header was accepted afterwards; distinct = distinct case JSON",
        "assumptions": NETSIM_ASSUME,
        "units": [
            {"name": "netsim", "module": "harness", "pkg": "./checks/c01", "test": "TestC01", "tags": "verif",
             "quick": {"checks": 60, "shards": 16, "timeout": 600},
             "thorough": {"checks": 450, "shards": 16, "timeout": 3600, "shrink": "60s"}},
        ],
    },
    "C02": {
        "level": "exploration",
        "rule": "rapid-generated scripts biased to fork trees (fork depth 1-30, lighter / exact tie / heavier by length or by difficulty, valid or invalid at a position, forks below/at/above checkpoints, tip on a checkpoint), revealed by any peer in any order; per delivered headers message an oracle computes from the tree and the pre-state the set of allowed post-states (KEEP / ADOPT / EITHER / checkpoint-failure truncation) and compares the stored chain; work-monotonicity and fork-floor invariants are checked on every step. Non-trivial = some delivered batch reached the reorganisation branch (parent known, not the tip); distinct = distinct case JSON",
        "assumptions": NETSIM_ASSUME + [
            "a batch running past the next header checkpoint may be adopted only up to the checkpoint (the client re-requests the rest): both outcomes are accepted",
            "ADOPT of a heavier fork is asserted only when IsCurrent() held before the message (the sender is then certainly listened to)",
        ],
        "units": [
            {"name": "netsim", "module": "harness", "pkg": "./checks/c02", "test": "TestC02", "tags": "verif",
             "quick": {"checks": 40, "shards": 16, "timeout": 600},
             "thorough": {"checks": 500, "shards": 16, "timeout": 3600, "shrink": "60s"}},
        ],
    },
    "C07": {
        "level": "exploration",
        "rule": "rapid-generated histories (1-40 operations: block / filter batch appends of any size incl. empty, single and multi-header rollbacks incl. to and past genesis, block-manager style two-store rollbacks, re-append of rolled-back headers, reopen, appends whose index commit is made to fail) applied to the real stores and to two in-memory lists; after every operation every read method of both stores is compared with the lists. Non-trivial = the history contains a rollback followed by an append, or a reopen after a mutation, or an injected write fault; distinct = distinct case JSON",
        "assumptions": [
            "appends respect the documented precondition (heights continue the tip; filter headers never beyond the block tip); block headers below the filter tip are only rolled back after the filter headers (as the block manager does)",
            "database write errors are injected by a walletdb wrapper that rolls the transaction back; file-level write errors are not injected by this unit",
            "locators are checked structurally (start hash, strictly descending heights of hashes of the list, dense for ten steps, ending at genesis), not against one particular thinning schedule",
        ],
        "units": [
            {"name": "store", "module": "harness", "pkg": "./checks/hdrstore", "test": "TestC07", "tags": "verif",
             "quick": {"checks": 60, "shards": 16, "timeout": 600},
             "thorough": {"checks": 1200, "shards": 16, "timeout": 3600, "shrink": "60s"}},
        ],
    },
    "C08": {
        "level": "fault_enumeration",
        "rule": "rapid-generated store histories (1-10 operations) run on a database wrapper whose hooks copy the three durable files right before and right after EVERY index commit of every primitive store call (this observes the actual order of file and index mutations), plus, for every file growth seen at a pre-commit point, synthesized torn lengths (1 byte, mid-entry, k whole entries, k entries plus part, all but one byte). Every crash image is restarted: both stores must open, equal the list model before or after the interrupted step, keep filter tip <= block tip, and accept and read back further appends. evaluations = histories; counters.crash_images = images restarted. Non-trivial = history with at least one crash point strictly inside an operation; distinct = distinct case JSON",
        "assumptions": [
            "crash model = process death: writes reach the page cache in program order; power loss / fsync reordering is out of scope",
            "bbolt commits are atomic",
        ],
        "units": [
            {"name": "store", "module": "harness", "pkg": "./checks/hdrstore", "test": "TestC08", "tags": "verif",
             "quick": {"checks": 8, "shards": 16, "timeout": 900},
             "thorough": {"checks": 120, "shards": 16, "timeout": 5400, "shrink": "120s"}},
        ],
    },
}
