"""Table of registered checks: property -> units (test binaries) and budgets.

Each unit: module (directory under /verif), pkg, test, tags, and per-tier
budgets {checks per shard, shards, watchdog timeout seconds}.
"""

NETSIM_ASSUME = [
    "the client is driven only through its public API inside a testing/synctest bubble (virtual time); peers speak raw wire messages over in-memory connections",
    "peers report accurate clocks (adjusted time == virtual time)",
    "the at-tip filter-header loop is slowed to one iteration per 250 virtual ms through the verif-tag yield hook (it can busy-wait otherwise)",
    "reference header validator is differential-tested against btcd in kit/selfcheck_test.go",
]

CHECKS = {
    "C01": {
        "level": "exploration",
        "rule": "rapid-generated scripts (chain-parameter set x block tree x 1-4 peers x 4-30 events: header batches honest/mutated/duplicated/shuffled/forked, inv, view changes, disconnects, clock advances) run against the real ChainService; after every quiescence the whole block-header store is re-validated with the reference validator and all lookups are compared. Non-trivial = an invalid, forked or out-of-order batch was delivered AND a header was accepted afterwards; distinct = distinct case JSON",
        "assumptions": NETSIM_ASSUME,
        "units": [
            {"name": "netsim", "module": "harness", "pkg": "./checks/c01", "test": "TestC01", "tags": "verif",
             "quick": {"checks": 60, "shards": 16, "timeout": 600},
             "thorough": {"checks": 450, "shards": 16, "timeout": 3600, "shrink": "60s"}},
        ],
    },
    "C02": {
        "level": "exploration",
        "rule": "rapid-generated scripts biased to fork trees (fork depth 1-30, lighter / exact tie / heavier by length or by difficulty, valid or invalid at a position, forks below/at/above checkpoints, tip on a checkpoint), revealed by any peer in any order; per delivered headers message an oracle computes from the tree and the pre-state the set of allowed post-states (KEEP / ADOPT / EITHER / checkpoint-failure truncation) and compares the stored chain; work-monotonicity and fork-floor invariants are checked on every step. Non-trivial = some delivered batch reached the reorganisation branch (parent known, not the tip); distinct = distinct case JSON Unit headerlist: the bounded in-memory header list the block manager walks when it weighs a fork (capacity 10 000 in the client, which no generated world reaches) against a slice model with capacities 1-16, so that the ring wraps many times: Back, Front, the Prev() walk and Ancestor(height) after every push / reset. Non-trivial there = the ring wrapped.",
        "assumptions": NETSIM_ASSUME + [
            "a batch running past the next header checkpoint may be adopted only up to the checkpoint (the client re-requests the rest): both outcomes are accepted",
            "ADOPT of a heavier fork is asserted only when IsCurrent() held before the message (the sender is then certainly listened to)",
        ],
        "units": [
            {"name": "netsim", "module": "harness", "pkg": "./checks/c02", "test": "TestC02", "tags": "verif",
             "quick": {"checks": 40, "shards": 16, "timeout": 600},
             "thorough": {"checks": 500, "shards": 16, "timeout": 3600, "shrink": "60s"}},
            {"name": "headerlist", "module": "harness", "pkg": "./checks/hlist", "test": "TestC02HeaderList", "tags": "verif",
             "quick": {"checks": 2000, "shards": 4, "timeout": 300},
             "thorough": {"checks": 100000, "shards": 8, "timeout": 1800, "shrink": "30s"}},
        ],
    },
    "C07": {
        "level": "exploration",
        "rule": "rapid-generated histories (1-40 operations: block / filter batch appends of any size incl. empty, single and multi-header rollbacks incl. to and past genesis, block-manager style two-store rollbacks, re-append of rolled-back headers, reopen - plain or with a filter-header state assertion that holds / lies above the tip / fails (the store must then come up reset to its genesis entry) -, appends whose index commit is made to fail, appends during which every Sync of the flat file fails - whether the store runs into it or not, what it reports must be true) applied to the real stores and to two in-memory lists; after every operation every read method of both stores is compared with the lists. Non-trivial = the history contains a rollback followed by an append, or a reopen after a mutation, or an injected write fault; distinct = distinct case JSON Unit store-big: the same oracle on histories with thousands of headers (batch appends and rollbacks of 1999 / 2000 / 2001 / 2048+ headers in one call, as the header import's compensation does): size thresholds inside the stores only show at that scale.",
        "assumptions": [
            "appends respect the documented precondition (heights continue the tip; filter headers never beyond the block tip); block headers below the filter tip are only rolled back after the filter headers (as the block manager does)",
            "database write errors are injected by a walletdb wrapper that rolls the transaction back; file-level write errors are not injected by this unit",
            "locators are checked structurally (start hash, strictly descending heights of hashes of the list, dense for ten steps, ending at genesis), not against one particular thinning schedule",
        ],
        "units": [
            {"name": "store", "module": "harness", "pkg": "./checks/hdrstore", "test": "TestC07", "tags": "verif",
             "quick": {"checks": 60, "shards": 16, "timeout": 600},
             "thorough": {"checks": 1200, "shards": 16, "timeout": 3600, "shrink": "60s"}},
            {"name": "store-big", "module": "harness", "pkg": "./checks/hdrstore", "test": "TestC07Big", "tags": "verif",
             "quick": {"checks": 2, "shards": 8, "timeout": 900},
             "thorough": {"checks": 40, "shards": 16, "timeout": 5400, "shrink": "60s"}},
        ],
    },
    "C08": {
        "level": "fault_enumeration",
        "rule": "rapid-generated store histories (1-10 operations) run on a database wrapper whose hooks copy the three durable files right before and right after EVERY index commit of every primitive store call (this observes the actual order of file and index mutations), plus, for every file growth seen at a pre-commit point, synthesized torn lengths (1 byte, mid-entry, k whole entries, k entries plus part, all but one byte). Every crash image is restarted (a third of them with a filter-header state assertion that holds, a third with one above the tip, as a client configured with AssertFilterHeader restarts): both stores must open, equal the list model before or after the interrupted step, keep filter tip <= block tip, and accept and read back further appends. evaluations = histories; counters.crash_images = images restarted. Non-trivial = history with at least one crash point strictly inside an operation; distinct = distinct case JSON Unit bm-crash: block-manager operations (filter-header batch, rollback of 1-6 blocks followed by the first headers of a new branch, stale batch after a rollback) on real stores; the durable files are copied at every index commit (pre and post) and at every yield point between the individual store updates; every image is restarted: both stores open, the block chain is a state the operation passed through, the filter chain is not ahead of it and belongs to it, a block manager can be created on it, writes the missing filter headers and rolls back one block. Non-trivial there = more than two images inside operations. Unit import-crash: chainimport.Import of a correct connecting pair of files (generated start height, window, batch size, lagging filter store) on the wrapped database with the same commit-level and torn-append crash images; every image must reopen, hold the earlier contents extended by a prefix of the file with filter tip <= block tip, and accept the next headers of the chain. Unit store-big: the same oracle on histories with thousands of headers (batch appends and rollbacks of 1999 / 2000 / 2001 / 2048+ headers in one call, as the header import's compensation does): size thresholds inside the stores only show at that scale.",
        "assumptions": [
            "crash model = process death: writes reach the page cache in program order; power loss / fsync reordering is out of scope",
            "bbolt commits are atomic",
        ],
        "units": [
            {"name": "store", "module": "harness", "pkg": "./checks/hdrstore", "test": "TestC08", "tags": "verif",
             "quick": {"checks": 8, "shards": 16, "timeout": 900},
             "thorough": {"checks": 120, "shards": 16, "timeout": 5400, "shrink": "120s"}},
            {"name": "store-big", "module": "harness", "pkg": "./checks/hdrstore", "test": "TestC08Big", "tags": "verif",
             "quick": {"checks": 2, "shards": 8, "timeout": 900},
             "thorough": {"checks": 30, "shards": 16, "timeout": 5400, "shrink": "60s"}},
            {"name": "import-crash", "module": "harness", "pkg": "./checks/c14", "test": "TestC08Import", "tags": "verif",
             "quick": {"checks": 5, "shards": 8, "timeout": 900},
             "thorough": {"checks": 100, "shards": 16, "timeout": 5400, "shrink": "60s"}},
            {"name": "bm-crash", "module": "harness", "pkg": "./checks/bmsched", "test": "TestC08BM", "tags": "verif",
             "quick": {"checks": 6, "shards": 8, "timeout": 900},
             "thorough": {"checks": 150, "shards": 16, "timeout": 5400, "shrink": "60s"}},
        ],
    },
    "C19": {
        "level": "exploration",
        "rule": "rapid-generated peer scripts (fork-biased: header batches, view changes / reorganisations of any depth, partial filter-header progress, disconnects, clock advances) with a subscriber registered before any peer session exists, on a database wrapper that stamps every filter-header index commit with a global sequence number and the tip it installs; plus generated backlog requests at quiescent moments and in the middle of a batch being announced. Oracles at every quiescence: (1) replaying all received events reproduces the committed chain up to the filter tip, (2) per-event content / ordering, (3) every connected event is received after a commit covering its block, (4) backlog == committed blocks above the requested height; mid-flight backlog + later events replay without gap. Non-trivial = a reorganisation that crosses the filter tip, or a backlog request strictly inside (0, filter tip), or an evaluated mid-flight backlog request; distinct = distinct case JSON Unit netsim-checkpointed: the same oracles on chains of 1001-2300 blocks whose block headers are (almost all) stored while the filter headers end anywhere below (genesis only, anywhere, more than an interval behind, inside the last interval): the filter headers are committed by the checkpointed path in whole intervals and with a partial first interval; the subscriber starts from the pre-filled filter-header chain; backlog probes reach back up to 1500 blocks and into the middle of an interval being announced. Unit sub-stress: the real block manager's chain update operations on real stores under the real subscription manager, at full speed: one goroutine reorganises the top of the chain without pause (roll back 1-5 blocks, write a longer branch, commit its filter headers) while 2-4 goroutines subscribe again and again for the backlog above a height below every fork point (hundreds of subscriptions per case, most of them during a rollback); each subscriber's backlog and events must replay as a valid walk on top of the chain up to its height, and the subscribers that stay to the end must hold exactly the committed chain; a subscription refused with an error while blocks are being removed is tolerated and counted. Unit bm-sched: the same harness-scheduled interleavings of writeCFHeadersMsg and rollBackToHeight as C03's bm-sched unit, with every event received on Notifications() replayed (connected(h) only on top of h-1, disconnected highest first carrying the removed header and the header below it, never-committed blocks tolerated) and compared with the committed chain after every step, plus backlog probes. Non-trivial there = a step with a real overlap.",
        "assumptions": NETSIM_ASSUME + [
            "rule (3) is an external-observer check: an emit-before-commit defect is detected only if the subscriber wins the race against the commit for at least one event of a batch",
            "mid-flight backlog probes are evaluated only when no disconnect was in flight (otherwise the subscriber's starting point is ambiguous)",
            "the harness reads the filter-header tip key inside the committing transaction (bucket header-index, key regular): a layout change is reported as a harness error, not a violation",
        ],
        "units": [
            {"name": "netsim", "module": "harness", "pkg": "./checks/c19", "test": "TestC19", "tags": "verif",
             "quick": {"checks": 40, "shards": 16, "timeout": 600, "regress_n": 40},
             "thorough": {"checks": 500, "shards": 16, "timeout": 3600, "shrink": "60s", "regress_n": 300}},
            {"name": "netsim-checkpointed", "module": "harness", "pkg": "./checks/c19", "test": "TestC19Big", "tags": "verif",
             "quick": {"checks": 6, "shards": 8, "timeout": 900},
             "thorough": {"checks": 80, "shards": 16, "timeout": 5400, "shrink": "60s"}},
            {"name": "sub-stress", "module": "harness", "pkg": "./checks/bmsched", "test": "TestC19SubStress", "tags": "verif",
             "quick": {"checks": 12, "shards": 8, "timeout": 600},
             "thorough": {"checks": 600, "shards": 16, "timeout": 3600, "shrink": "30s"}},
            {"name": "bm-sched", "module": "harness", "pkg": "./checks/bmsched", "test": "TestC19BM", "tags": "verif",
             "quick": {"checks": 60, "shards": 8, "timeout": 600},
             "thorough": {"checks": 2500, "shards": 16, "timeout": 3600, "shrink": "60s"}},
        ],
    },
    "C13": {
        "level": "exploration",
        "rule": "(store) rapid-generated state-machine histories on the real ban store over bbolt in a synctest bubble: ban / unban / status / census / clock advance (incl. jumps to just before and after an expiry) / reopen / junk input over 12 textual spellings per address family and symbolic masks, compared with a map model keyed by the canonical (ip, mask); the two bbolt indexes are read back at the end. Non-trivial = a generated status query saw one network both strictly before floor(expiry) and at/after expiry of the same ban, or queried a banned network after a reopen that followed its ban; distinct = distinct case JSON Unit enforce: the real client against 2-6 scripted peers (full service / no witness / no compact filters / neither / provable filter-header liars / invalid-block server; slow handshakes) under connect, drop, clock advances and jumps to just before / at / after a ban's expiry, BanPeer / UnbanPeer API calls and GetBlock; a connection spy records every dial, the client's first write and the instant the client has read the peer's version. After every event at quiescence, against a ban table built by the harness: a peer lacking a service bit is banned with reason NoCompactFilters from the version-read instant for 24h (stored expiry = floor(t+24h)), no banned address is in Peers(), the client never writes on a connection dialled while the address was banned, API bans / unbans take effect at once with the given reason, a lapsed or lifted ban lets a clean peer back in within 12 virtual seconds, an invalid-block sender is banned with InvalidBlock, innocent peers are never banned, IsBanned agrees with a second store on the same database. Non-trivial there = a service-bit ban and (a lapse, a lifting unban or a dial while banned). Unit store-concurrent: rounds of 2-4 free-running goroutines with generated operation lists (status / one-hour ban / unban) on one real store whose networks start each round without a record, with a lapsed record no query has removed yet, or with an active ban; operations are stamped at start and end; using real-time order only: no operation fails, the state after the round is that of a write no other write started after, a query that started after an acknowledged ban (no unban in the round) reports banned, reported reasons are reasons of bans of that network. Non-trivial there = a status query overlapped a write on its network.",
        "assumptions": [
            "expiry is stored with one-second granularity: inside [floor(expiry), expiry) either answer is accepted",
            "an IPv4 network written with a 16-byte mask is not generated (API-level representation, not a textual form of an address; production callers pass a nil mask)",
            "a shorter re-ban while a longer one is in force: both last-write-wins and keeping the older record are accepted",
        ],
        "units": [
            {"name": "banstore", "module": "harness", "pkg": "./checks/c13", "test": "TestC13Store", "tags": "verif",
             "quick": {"checks": 1500, "shards": 16, "timeout": 600},
             "thorough": {"checks": 30000, "shards": 16, "timeout": 3600, "shrink": "60s"}},
            {"name": "parse-fuzz", "module": "harness", "pkg": "./checks/c13", "test": "FuzzC13ParseIPNet", "fuzz": "FuzzC13ParseIPNet",
             "tags": "verif", "thorough_only": True,
             "quick": {"fuzztime": "10s", "timeout": 300},
             "thorough": {"fuzztime": "90s", "timeout": 900}},
            {"name": "store-concurrent", "module": "harness", "pkg": "./checks/c13", "test": "TestC13Concurrent", "tags": "verif",
             "quick": {"checks": 250, "shards": 8, "timeout": 600},
             "thorough": {"checks": 8000, "shards": 16, "timeout": 3600, "shrink": "30s"}},
            {"name": "enforce", "module": "harness", "pkg": "./checks/c13", "test": "TestC13Enforce", "tags": "verif",
             "quick": {"checks": 25, "shards": 16, "timeout": 900, "regress_n": 3},
             "thorough": {"checks": 600, "shards": 16, "timeout": 5400, "shrink": "60s", "regress_n": 10}},
        ],
    },
    "C12": {
        "level": "exploration",
        "rule": "rapid-generated schedules (0-5 mock peers with connect / disconnect / reconnect ticks; 1-4 overlapping batches of 1-6 requests with per-attempt outcomes answer / progress / silence / disconnect, retry caps, NoRetryMax, hard and idle timeouts, cancel channels, callers that never read, early Stop, probe batches) run against the real work manager, workers and peer ranking in a synctest bubble; a history oracle checks exactly-one verdict per batch, nil only if every handler finished, every error justified by an event of the history, re-issue of unanswered requests while a peer is idle, ranking preference, Stop and later batches never blocked. Non-trivial = a request is queued to a peer a second time after a failed attempt AND two scripted batches are without verdict at the same quiescent instant; distinct = distinct case JSON",
        "assumptions": [
            "all times are multiples of a 500 ms tick; same-instant orderings are all accepted",
            "an address reconnecting in the very instant its previous session disconnects is not generated (the client redials after >= 5 s); in that schedule the dispatcher can wedge or dereference nil (recorded in DESIGN.md as an observation outside the generated domain)",
            "hard timeout and external cancel are enforced lazily as documented (checked when a result of that batch arrives)",
        ],
        "units": [
            {"name": "query", "module": "harness", "pkg": "./checks/c12", "test": "TestC12", "tags": "verif",
             "quick": {"checks": 1500, "shards": 16, "timeout": 600},
             "thorough": {"checks": 40000, "shards": 16, "timeout": 3600, "shrink": "60s"}},
        ],
    },
    "C03": {
        "level": "exploration",
        "rule": "rapid-generated cases: a block tree with wallet transactions, block headers pre-filled (optionally lagging), filter headers pre-filled to a generated height, one honest peer connected first plus 1-5 peers that are honest / lie consistently with a filter omitting an output script / advertise a hash their filter does not match / advertise a hash and serve no filter / lie unprovably (superset filter) / lie only in filter checkpoints / stay silent, from a generated height; events connect / drop / chain growth / reorganisation / clock advance. At every quiescence: filter tip <= block tip, every entry is dSHA256(served filter hash || previous entry) for the block at that height of the current chain, by-hash lookups agree, no banned peer stays connected, the honest peer is never banned; when every liar is provable the committed entries equal ground truth; at the end every provable liar that put a lie on the wire below the final filter tip is banned. Two units: at-tip worlds (<1000 blocks) and checkpointed worlds (1000-2600 blocks, a quarter of them starting 1-30 blocks below height 1000 with level filter headers and growing across it at the tip). Half of the checkpointed worlds are networks with hard-coded filter-header checkpoints at multiples of 1000 (installed through a verif-tag setter), three quarters of them equal to the true filter header, the rest a value no chain produces: an entry committed at such a height must equal the checkpoint whatever the peers serve. A fifth of the checkpointed cases are checkpoint disputes over several rounds with a reorganisation in between (one liar inside the last full checkpoint interval, one a few blocks below the tip, a round that takes virtual time, a heavier branch replacing the block the second liar lied about); peers lying in their filter checkpoints only must be banned as well. Non-trivial = some liar actually served falsified data; distinct = distinct case JSON Unit bm-sched: the block manager's writeCFHeadersMsg and rollBackToHeight(+header write) run directly on real stores on two goroutines which the harness parks at the client's named yield points (generated: who starts first, where it is held, where the other one is held; also stale batches delivered after a rollback); after every step filter tip <= block tip, every entry belongs to the block at that height of the current chain, no entry of a disconnected block is served, the batch took effect wholly or not at all. Non-trivial there = a step in which the first operation was actually held inside its critical section while the other one ran or blocked.",
        "assumptions": NETSIM_ASSUME + [
            "the honest peer is connected before any other peer (dial gate) and never dropped, so it is among the responders of every filter-header query",
            "the matching direction of the hard-coded mainnet/testnet filter-header checkpoints cannot be generated (would need a hash preimage); generated networks have no hard-coded filter checkpoints",
        ],
        "units": [
            {"name": "netsim", "module": "harness", "pkg": "./checks/c03", "test": "TestC03", "tags": "verif",
             "quick": {"checks": 25, "shards": 12, "timeout": 600},
             "thorough": {"checks": 400, "shards": 12, "timeout": 3600, "shrink": "60s"}},
            {"name": "netsim-checkpointed", "module": "harness", "pkg": "./checks/c03", "test": "TestC03Big", "tags": "verif",
             "quick": {"checks": 20, "shards": 8, "timeout": 900, "regress_n": 12},
             "thorough": {"checks": 250, "shards": 16, "timeout": 5400, "shrink": "60s", "regress_n": 60}},
            {"name": "bm-sched", "module": "harness", "pkg": "./checks/bmsched", "test": "TestC03BM", "tags": "verif",
             "quick": {"checks": 60, "shards": 8, "timeout": 600},
             "thorough": {"checks": 2500, "shards": 16, "timeout": 3600, "shrink": "60s"}},
        ],
    },
    "C11": {
        "level": "exploration",
        "rule": "rapid-generated scripts over {subscribe(height, reader fast/slow/manual/never), cancel, emit bursts of 1-70 connected/disconnected events, take k, stall, sleep, stop}, in step mode and with subscribe / cancel / emit / stop issued from concurrent goroutines (also in the middle of a burst), against the real SubscriptionManager with a generated NotificationSource in a synctest bubble; per subscriber the items read must always be a prefix of backlog ++ events emitted after registration, willing readers are fully served at every quiescence whatever other subscribers do, channels close after cancel / stop and nothing follows, no caller stays blocked. Non-trivial = a subscriber had more than 20 accepted-but-unread events at a quiescent point, or a cancel / stop was issued with events in flight; distinct = distinct case JSON",
        "assumptions": [
            "in concurrent mode the one in-flight event makes two registration cuts admissible; all count checks are existential over the admissible cuts",
            "while Stop is in progress only the prefix and closure rules are asserted, not completeness",
        ],
        "units": [
            {"name": "blockntfns", "module": "harness", "pkg": "./checks/c11", "test": "TestC11", "tags": "verif",
             "quick": {"checks": 2500, "shards": 16, "timeout": 600, "regress_n": 2500},
             "thorough": {"checks": 60000, "shards": 16, "timeout": 3600, "shrink": "60s", "regress_n": 50000}},
        ],
    },
    "C15": {
        "level": "exploration",
        "rule": "(broadcaster) rapid-generated cases: 1-6 transactions in a chain / diamond / fan / random / independent dependency graph, a script of 4-32 operations over Broadcast(tx) with first-attempt outcome ok / mempool / invalid / fee / unknown / confirmed / plain error and callback latency, block event, tick, MarkAsConfirmed, wait, Stop, issued from concurrent goroutines (also after Stop), against the real pushtx.Broadcaster with a generated callback and a hand-made block subscription in a synctest bubble; a set model over the callback log checks every rebroadcast round (a trigger exists, no overlap, no duplicates, parents before children, exactly the accepted-and-unconfirmed set), trigger coverage, Broadcast return values, and that every Broadcast / MarkAsConfirmed / Stop call returns. Non-trivial = a round sent both ends of a dependency edge whose parent was accepted after the child, or a transaction was confirmed between two rounds; distinct = distinct case JSON Unit verdict: the real client against 1-6 scripted peers whose answer to the transaction's inv is generated (silent / getdata and accept / getdata then reject with one of 28 (code, reason) pairs of the reject table / reject without getdata / getdata twice / reject twice / reject for another hash / late getdata or reject around the broadcast and reject timeouts / disconnect after getdata), generated invalid-share threshold (3/5, 1/2, 3/4) with reply counts on and next to it, then block events and interval ticks, optionally a confirmation round and a racing Stop. Oracle from what the peers put on the wire: nobody replied -> success; every replier rejected -> the most frequent class decides (mempool = success, kept); invalid share >= threshold -> Invalid error; otherwise success - enforced in both directions; the call returns within broadcast + reject timeout; after success every connected peer is sent inv(tx) again on the next block event and tick, after failure or confirmation never. Non-trivial there = at least two repliers and one reject delivered in time.",
        "assumptions": [
            "within one virtual instant only causally forced orders are used; overlapping events are treated as uncertainty intervals",
            "a rejected re-attempt of a tracked transaction does not untrack it; Confirmed on a first attempt counts as a rejection",
            "the verdict rule of ChainService.SendTransaction (every replier rejected / invalid share >= threshold) is not covered by this unit",
        ],
        "units": [
            {"name": "broadcaster", "module": "harness", "pkg": "./checks/c15", "test": "TestC15Broadcaster", "tags": "verif",
             "quick": {"checks": 2500, "shards": 16, "timeout": 600},
             "thorough": {"checks": 60000, "shards": 16, "timeout": 3600, "shrink": "60s"}},
            {"name": "verdict", "module": "harness", "pkg": "./checks/c15", "test": "TestC15Verdict", "tags": "verif",
             "quick": {"checks": 20, "shards": 16, "timeout": 900, "regress_n": 3},
             "thorough": {"checks": 500, "shards": 16, "timeout": 5400, "shrink": "60s", "regress_n": 10}},
        ],
    },
    "C05": {
        "level": "exploration",
        "rule": "rapid-generated cases on a client whose two header stores are pre-filled: 1-3 peers whose getcfilters response stream is a generated edit of the correct stream (reverse, rotate, duplicate, drop, corrupt item i with a filter omitting a script / superset filter / flipped byte / garbage / empty / wrong type / wrong block hash / other block's filter, unsolicited items, silence; per request), 1-6 GetCFilter calls (block 1, tip, any height; no / forward / reverse batch; MaxBatchSize 1-12), PersistToDisk on/off, tiny or default cache. Oracle: every returned filter hashes with the committed previous header to the committed header (independent computation), every FilterCache entry and every FilterDB entry likewise after each call, a second call returns the same filter, a call returns when a fully honest peer exists. Non-trivial = some response stream contained a corrupted or unsolicited item, or a batch option was used; distinct = distinct case JSON",
        "assumptions": NETSIM_ASSUME + [
            "concurrent GetCFilter callers are not generated: the call holds a sync.Mutex across the network query and a goroutine waiting for a sync.Mutex is not durably blocked, which would freeze the bubble's virtual clock",
            "a call that is still waiting when no peer answers correctly is not a violation (the property only forbids returning something unverified)",
        ],
        "units": [
            {"name": "netsim", "module": "harness", "pkg": "./checks/fetch", "test": "TestC05", "tags": "verif",
             "quick": {"checks": 30, "shards": 16, "timeout": 600},
             "thorough": {"checks": 450, "shards": 16, "timeout": 3600, "shrink": "60s"}},
        ],
    },
    "C06": {
        "level": "exploration",
        "rule": "rapid-generated cases on a client with pre-filled stores: 1-3 peers whose getdata(block) response stream is a generated edit of the correct one (changed / added / removed / duplicated-last transaction, stripped or forged witness, stripped coinbase witness, another block, duplicates, silence, unsolicited), 1-6 GetBlock calls, some concurrent. Oracle: a returned block has the requested hash, reproduces the merkle root, has no duplicate transaction and a valid witness commitment (all recomputed independently); every BlockCache entry likewise; a peer whose response contained only invalid blocks with the requested header is banned and disconnected; a peer that never sent such a block is not banned; a call returns when a fully honest peer exists. Non-trivial = some peer sent an invalid block carrying the requested header; distinct = distinct case JSON",
        "assumptions": NETSIM_ASSUME + [
            "the client hands each received message to the query in its own goroutine, so the ban of a sender is asserted only when every block with the requested header in one response was invalid",
        ],
        "units": [
            {"name": "netsim", "module": "harness", "pkg": "./checks/fetch", "test": "TestC06", "tags": "verif",
             "quick": {"checks": 30, "shards": 16, "timeout": 600},
             "thorough": {"checks": 450, "shards": 16, "timeout": 3600, "shrink": "60s"}},
        ],
    },
    "C14": {
        "level": "exploration",
        "rule": "rapid-generated cases: a generated chain-parameter set and chain; target stores pre-filled to generated heights (level or filter store lagging; from the same chain or from a competing branch); block / filter import files over a generated window (start 0 / 1 / next height / any, any end, occasionally different windows for the two files), write batch size 1-40, and one optional defect: wrong network magic, swapped header types, a header mutated in one rule at a position (relinked and re-mined), a flipped byte in either file, or the k-th database commit of the import failing; in a quarter of the cases the network has a hard-coded filter-header checkpoint at a generated height (equal to the chain's value, or a value no file can carry): a filter header the import appended at that height must equal it, on success and on failure. Oracle: on success both stores equal earlier contents ++ the files' headers up to the file end (all read methods, list model), the block chain passes the reference validator in full context, and a second import changes nothing; on failure all read methods work, every height holds the earlier or the file's entry, level stores stay level, nothing invalid was appended, and (level stores) a later correct import succeeds. Non-trivial = start height > 0, or stores at different heights, or a batch size not dividing the appended range, or an injected fault; distinct = distinct case JSON File write faults: in one case of twelve the n-th write (n = 1-4) to the block or the filter flat file fails after a generated number of bytes (0 ... the whole write); the import must then report failure and leave the stores as the failure rules demand.",
        "assumptions": [
            "the filter store may lag but never leads the block store (its index resolves heights through the block index)",
            "filter headers cannot be validated without the filters: the oracle expects the stores to hold the file's filter headers as written, defects included",
            "with the two stores at different heights the importer refuses every file that would have to append; a refusal is not counted as damage",
        ],
        "units": [
            {"name": "import", "module": "harness", "pkg": "./checks/c14", "test": "TestC14", "tags": "verif",
             "quick": {"checks": 400, "shards": 16, "timeout": 600},
             "thorough": {"checks": 4000, "shards": 16, "timeout": 3600, "shrink": "60s"}},
        ],
    },
    "C17": {
        "level": "exploration",
        "rule": "rapid-generated cases: store pre-fill (fresh / partial / full; filter headers lagging) x 1-3 peers (honest, not serving blocks, not serving filters, silent, slow with a generated response delay, some ahead of the client) x 0-5 in-flight callers started at generated instants (GetBlock, GetCFilter, Rescan, GetUtxo, SendTransaction, block subscription reader) x the virtual instant at which Stop is called. Oracle: Stop returns within 120 virtual seconds, every caller the harness started returns within the same bound, the data directory reopens and passes the C01 walk and the C03 structural checks. Non-trivial = at least one caller was blocked inside the client when Stop began; distinct = distinct case JSON Since the third session: the peers may reorganise to a competing heavier branch (fork 1-6 blocks below the base) before Stop, in the instant of Stop or while Stop is under way; Stop can be started by the client goroutine that reaches a named point inside a filter-header write / rollback / header write (held there meanwhile), or when the headers of the competing branch go on the wire; and the rollback can be made to take virtual time (1-20 ms per removed block, only with the client idle at the tip) with Stop called so that its later stages fall between two removed blocks. In four fifths of the cases a second client is afterwards started on the same directory (plain, or with AssertFilterHeader true / wrong) with one well-behaved peer serving the heaviest chain: it must reach that tip with level filter headers within ten virtual minutes and stop.",
        "assumptions": NETSIM_ASSUME + [
            "at most one GetCFilter caller (callers serialise on a sync.Mutex held across the network query, which would freeze the bubble's clock)",
            "a goroutine left blocked inside the client after Stop that is not a harness caller is recorded as an observation, not as a violation of this property",
        ],
        "units": [
            {"name": "netsim", "module": "harness", "pkg": "./checks/c17", "test": "TestC17", "tags": "verif",
             "quick": {"checks": 30, "shards": 16, "timeout": 900, "shrink": "10s", "regress_n": 30},
             "thorough": {"checks": 700, "shards": 16, "timeout": 7200, "shrink": "60s", "regress_n": 60}},
        ],
    },
    "C04": {
        "level": "exploration",
        "rule": "rapid-generated free-running simulations: 1-2 honest peers plus 0-4 adversaries acting on timers (mutated header batches, a strictly lighter fork announced again and again, filter-header liars of three provable kinds, garbage bytes, silence after the handshake, inflated advertised height with empty headers replies, flapping), generated connection delays (connection order), and an honest-side script of extensions and reorganisations over virtual time. Safety is sampled every 250 virtual ms: BestBlock is a block of a valid chain from genesis and its committed filter header is the true one. Bounded liveness: within 30 virtual minutes after the honest chain stops changing BestBlock equals the honest best tip with the true filter header. Non-trivial = an adversary sent at least one harmful message before convergence, or the honest side reorganised; distinct = distinct case JSON Unit netsim-checkpointed: the same free-running simulation on chains of 1001-2300 blocks, so that the filter headers are fetched by the checkpointed path (fresh, partly pre-filled or lagging stores); the filter-header adversaries lie from heights that reach back over several checkpoint intervals, one more adversary lies in its filter checkpoints only (correct headers), and half of the generated networks carry hard-coded filter-header checkpoints (true values, below every fork point).",
        "assumptions": NETSIM_ASSUME + [
            "'eventually' is approximated by a 30-virtual-minute deadline (far above every timeout and back-off on the path); a miss is reported with the trace",
            "filter-header liars are only let in after an honest peer has completed its handshake (otherwise a lie is committed with no honest responder around, which the property does not exclude)",
            "the lighter-fork adversary's branch is strictly lighter than the honest chain (with equal work the first chain seen rightly wins)",
        ],
        "units": [
            {"name": "netsim", "module": "harness", "pkg": "./checks/c04", "test": "TestC04", "tags": "verif",
             "quick": {"checks": 20, "shards": 16, "timeout": 900, "shrink": "15s"},
             "thorough": {"checks": 300, "shards": 16, "timeout": 5400, "shrink": "60s"}},
            {"name": "netsim-checkpointed", "module": "harness", "pkg": "./checks/c04", "test": "TestC04Big", "tags": "verif",
             "quick": {"checks": 12, "shards": 8, "timeout": 900, "shrink": "15s", "regress_n": 8},
             "thorough": {"checks": 150, "shards": 16, "timeout": 5400, "shrink": "60s", "regress_n": 40}},
        ],
    },
    "C09": {
        "level": "exploration",
        "rule": "rapid-generated cases: a block tree with wallet transactions, a start block given in five ways, optional start time / end block, initial watch keys and inputs, and 2-16 operations (chain extension, reorganisation of any depth, fetch failures of filters or blocks, Update with AddAddrs / AddInputs / Rewind, sleeps, parking the rescan inside its k-th backend call and releasing it, deferred notifications) against the public Rescan over a generated ChainSource and a real blockntfns.SubscriptionManager in a synctest bubble. Oracle inside the callbacks: every connected block is the child of the current one, every disconnect names the current one, delivered transactions include the reference matcher's set for the watch state the rescan must have had, and at the end the walker stands on the backend's best block. Non-trivial = a fetch failure was actually served to the rescan, or a disconnect step or an Update happened while the rescan was parked inside a backend call or had blocks waiting for a retry; distinct = distinct case JSON",
        "assumptions": [
            "interleavings are produced by parking the rescan inside backend calls and by deferring notifications, never by racing goroutines, so cases replay exactly",
            "a rescan goroutine that returns with an error (fetch failure during catch-up, Subscribe above a transiently shorter tip, header lookup of a removed block on rewind) is classified, not failed",
        ],
        "units": [
            {"name": "rescan", "module": "harness", "pkg": "./checks/c09", "test": "TestC09", "tags": "verif",
             "quick": {"checks": 1200, "shards": 16, "timeout": 600},
             "thorough": {"checks": 30000, "shards": 16, "timeout": 3600, "shrink": "60s"}},
        ],
    },
    "C10": {
        "level": "exploration",
        "rule": "rapid-generated cases on a client with pre-filled stores: a chain with ordinary spends, create-and-spend in one block, multi-output transactions and re-spends; 1-6 GetUtxo requests (unspent / spent / same-block / re-spent / multi-output / out-of-range index / never-created outpoints; start at birth, zero, before, between, at the spend, after, tip, above the tip; duplicates, same outpoint with another start, sibling outputs) and 0-24 events (issue request, release k withheld peer answers, new block, new block while answers are released, advance time, cancel, stop, blocks nobody serves). Peers withhold every getcfilters / getdata answer until released, so a running scan is parked at a known height when the next request arrives. Oracle: a reference fate-of-outpoint function computed from the serialised blocks (earliest spend at height >= start; else the output if the start block creates it; else empty) for every admissible chain end; an error only after stop / cancel / a withheld answer; every call returns. Non-trivial = a request was enqueued while an earlier one was outstanding and the scanner was parked on a withheld answer, or two issued requests concern outputs of one transaction; distinct = distinct case JSON Unit scanner-stress: the real UtxoScanner with plain functions as collaborators on a static generated chain, 2-10 goroutines enqueueing requests while scans are running (each waits for a generated number of visited heights and yields a generated number of times; the collaborators yield too); every request must be answered with exactly the reference fate of (outpoint, start height, tip) whatever the batching. Non-trivial there = at least one request enqueued while a scan was under way.",
        "assumptions": NETSIM_ASSUME + [
            "requests with a start height above the client's best block carry no liveness assertion (the batch manager polls until the chain gets there); their answers are still checked",
            "new blocks only extend the chain (no reorganisation during a scan)",
        ],
        "units": [
            {"name": "netsim", "module": "harness", "pkg": "./checks/c10", "test": "TestC10", "tags": "verif",
             "quick": {"checks": 20, "shards": 16, "timeout": 900, "shrink": "15s"},
             "thorough": {"checks": 400, "shards": 16, "timeout": 5400, "shrink": "60s"}},
            {"name": "scanner-stress", "module": "harness", "pkg": "./checks/c10", "test": "TestC10Stress", "tags": "verif",
             "quick": {"checks": 40, "shards": 8, "timeout": 600},
             "thorough": {"checks": 1500, "shards": 16, "timeout": 3600, "shrink": "30s"}},
        ],
    },
    "C16": {
        "level": "exploration",
        "rule": "(sequential) rapid-generated operation sequences on the real LRU cache (capacity 0-10; put with sizes 0 / small / cap/2 / cap / cap+1 and unsizeable values, replacement with another size, get, delete, LoadAndDelete, the three range iterations with early stop, poisoning a resident value so that its Size() fails) compared after every operation with a slice-based reference LRU on Len, Size, residency, recency and iteration order, results and evicted flags; a failed operation must leave the cache usable (the next operation returns). (interleavings) a generated warm-up plus 2-3 concurrent operations whose every interleaving at the yield points around the index accesses is enumerated depth-first by a scheduler; each schedule's results and final state must equal those of some sequential order on the reference LRU. Non-trivial = (sequential) the sequence made the cache evict at least once; (interleavings) two concurrent operations touch the same key or an eviction happens in some order; distinct = distinct case JSON Unit stress: 2-6 free-running goroutines execute generated operation lists (put / get / LoadAndDelete / Delete / Range / RangeFILO) on one cache; afterwards the cache must be one consistent map within its capacity, every value a lookup returned must have been stored under that key, nobody hangs or panics (and, as part of C18, the race detector must stay silent).",
        "assumptions": [
            "where an operation needs the size of a poisoned resident value every consistent outcome is accepted and adopted as the new model state",
            "interleavings are enumerated at the granularity of the verif-tag yield points (after the index lookup, before/after the list section) of Put, Get and LoadAndDelete, for 2-3 operations",
        ],
        "units": [
            {"name": "sequential", "module": "harness-cache", "pkg": "./c16", "test": "TestC16Seq", "tags": "verif",
             "quick": {"checks": 3000, "shards": 8, "timeout": 600},
             "thorough": {"checks": 60000, "shards": 8, "timeout": 3600, "shrink": "60s"}},
            {"name": "interleavings", "module": "harness-cache", "pkg": "./c16", "test": "TestC16Conc", "tags": "verif",
             "quick": {"checks": 150, "shards": 8, "timeout": 600},
             "thorough": {"checks": 3000, "shards": 8, "timeout": 3600, "shrink": "60s"}},
            {"name": "stress", "module": "harness-cache", "pkg": "./c16", "test": "TestC16Stress", "tags": "verif",
             "quick": {"checks": 400, "shards": 8, "timeout": 600},
             "thorough": {"checks": 20000, "shards": 16, "timeout": 3600, "shrink": "30s"}},
        ],
    },
}

def _race_units():
    """C18: the race detector as oracle over reduced budgets of the other checks' generated executions."""
    want = {"C01": (6, 20), "C02": (5, 16), "C03": (5, 16), "C04": (4, 14), "C05": (5, 16), "C06": (5, 16), "C09": (200, 4000),
            "C10": (40, 200), "C11": (300, 6000), "C12": (200, 4000), "C13": (4, 14), "C15": (300, 6000), "C16": (300, 6000), "C17": (30, 120), "C19": (6, 20)}
    units = []
    for pid, (q0, th0) in want.items():
        if pid not in CHECKS:
            continue
        for u in CHECKS[pid]["units"]:
            q, th = q0, th0
            big = u["name"].endswith("checkpointed")
            if u["name"] == "bm-sched" and pid != "C03":
                continue  # same scenarios as C03's unit
            if pid == "C13" and u["name"] not in ("enforce", "store-concurrent"):
                continue  # single-threaded state machine / fuzz target
            if pid == "C16" and u["name"] != "stress":
                continue  # those units order every access through the harness
            if u["name"] in ("verdict", "enforce"):
                q, th = 4, 14  # network simulations: slow under the detector
            if u["name"] == "store-concurrent":
                q, th = 60, 1500
            if big:
                # chains of 1001-2600 blocks: the checkpointed filter-header
                # path (parallel interval queries, checkpoint disputes)
                q, th = 2, 8
            r = dict(u)
            r["name"] = "race-" + pid.lower() + "-" + u["name"]
            r["race"] = True
            r["gomaxprocs"] = 8
            k = 10 if u["name"] == "bm-sched" else 1
            r["quick"] = {"checks": q * k, "shards": 4, "timeout": 900, "shrink": "5s"}
            r["thorough"] = {"checks": th * (k * 4 if k > 1 else 1), "shards": 8, "timeout": 5400, "shrink": "5s"}
            units.append(r)
    return units


CHECKS["C18"] = {
    "level": "exploration",
    "detect_race": True,
    "rule": "the test binaries of the C01, C02, C03, C04, C05, C06, C09, C10, C11, C12, C13 (enforcement and concurrent-store units), C15, C16 (free-running stress unit), C17 and C19 checks (including the checkpointed units on chains of 1001-2600 blocks and the free-running sub-stress unit) are rebuilt with -race and a reduced budget of their rapid-generated executions is run (GOMAXPROCS 8, several shards); the oracle is the Go race detector: any report with a frame in neutrino code is a violation, a report between harness frames only is a harness error. evaluations = executions run under the detector; non-trivial = executions the underlying check classifies as non-trivial (the harness-scheduled block manager interleavings of C03's bm-sched unit are included; every network-simulation execution runs the block handler, the filter-header handler, the peer handlers, the query dispatcher and the harness callers concurrently); distinct = distinct case JSON per unit",
    "assumptions": [
        "the detector only sees races that occur in an explored execution",
        "property violations reported by the underlying checks are ignored here (they belong to those properties)",
    ],
    "units": _race_units(),
}
