"""Table of registered checks: property -> units (test binaries) and budgets.

Each unit: module (directory under /verif), pkg, test, tags, and per-tier
budgets {checks per shard, shards, watchdog timeout seconds}.
"""

NETSIM_ASSUME = [
    "the client is driven only through its public API inside a testing/synctest bubble (virtual time); peers speak raw wire messages over in-memory connections",
    "peers report accurate clocks (adjusted time == virtual time)",
    "the at-tip filter-header loop is slowed to one iteration per 250 virtual ms through the verif-tag yield hook (it can busy-wait otherwise)",
    "reference header validator is differential-tested against btcd in kit/selfcheck_test.go",
]

CHECKS = {
    "C01": {
        "level": "exploration",
        "rule": "rapid-generated scripts (chain-parameter set x block tree x 1-4 peers x 4-30 events: header batches honest/mutated/duplicated/shuffled/forked, inv, view changes, disconnects, clock advances) run against the real ChainService; after every quiescence the whole block-header store is re-validated with the reference validator and all lookups are compared. Non-trivial = an invalid, forked or out-of-order batch was delivered AND a header was accepted afterwards; distinct = distinct case JSON",
        "assumptions": NETSIM_ASSUME,
        "units": [
            {"name": "netsim", "module": "harness", "pkg": "./checks/c01", "test": "TestC01", "tags": "verif",
             "quick": {"checks": 60, "shards": 16, "timeout": 600},
             "thorough": {"checks": 450, "shards": 16, "timeout": 3600, "shrink": "60s"}},
        ],
    },
    "C02": {
        "level": "exploration",
        "rule": "rapid-generated scripts biased to fork trees (fork depth 1-30, lighter / exact tie / heavier by length or by difficulty, valid or invalid at a position, forks below/at/above checkpoints, tip on a checkpoint), revealed by any peer in any order; per delivered headers message an oracle computes from the tree and the pre-state the set of allowed post-states (KEEP / ADOPT / EITHER / checkpoint-failure truncation) and compares the stored chain; work-monotonicity and fork-floor invariants are checked on every step. Non-trivial = some delivered batch reached the reorganisation branch (parent known, not the tip); distinct = distinct case JSON",
        "assumptions": NETSIM_ASSUME + [
            "a batch running past the next header checkpoint may be adopted only up to the checkpoint (the client re-requests the rest): both outcomes are accepted",
            "ADOPT of a heavier fork is asserted only when IsCurrent() held before the message (the sender is then certainly listened to)",
        ],
        "units": [
            {"name": "netsim", "module": "harness", "pkg": "./checks/c02", "test": "TestC02", "tags": "verif",
             "quick": {"checks": 40, "shards": 16, "timeout": 600},
             "thorough": {"checks": 500, "shards": 16, "timeout": 3600, "shrink": "60s"}},
        ],
    },
}
