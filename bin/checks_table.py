"""Table of registered checks: property -> units (test binaries) and budgets.

Each unit: module (directory under /verif), pkg, test, tags, and per-tier
budgets {checks per shard, shards, watchdog timeout seconds}.
"""

NETSIM_ASSUME = [
    "the client is driven only through its public API inside a testing/synctest bubble (virtual time); peers speak raw wire messages over in-memory connections",
    "peers report accurate clocks (adjusted time == virtual time)",
    "the at-tip filter-header loop is slowed to one iteration per 250 virtual ms through the verif-tag yield hook (it can busy-wait otherwise)",
    "reference header validator is differential-tested against btcd in kit/selfcheck_test.go",
]

CHECKS = {
    "C01": {
        "level": "exploration",
        "rule": "rapid-generated scripts (chain-parameter set x block tree x 1-4 peers x 4-30 events: header batches honest/mutated/duplicated/shuffled/forked, inv, view changes, disconnects, clock advances) run against the real ChainService; after every quiescence the whole block-header store is re-validated with the reference validator and all lookups are compared. Non-trivial = an invalid, forked or out-of-order batch was delivered AND a header was accepted afterwards; distinct = distinct case JSON",
        "assumptions": NETSIM_ASSUME,
        "units": [
            {"name": "netsim", "module": "harness", "pkg": "./checks/c01", "test": "TestC01", "tags": "verif",
             "quick": {"checks": 60, "shards": 16, "timeout": 600},
             "thorough": {"checks": 450, "shards": 16, "timeout": 3600, "shrink": "60s"}},
        ],
    },
    "C02": {
        "level": "exploration",
        "rule": "rapid-generated scripts biased to fork trees (fork depth 1-30, lighter / exact tie / heavier by length or by difficulty, valid or invalid at a position, forks below/at/above checkpoints, tip on a checkpoint), revealed by any peer in any order; per delivered headers message an oracle computes from the tree and the pre-state the set of allowed post-states (KEEP / ADOPT / EITHER / checkpoint-failure truncation) and compares the stored chain; work-monotonicity and fork-floor invariants are checked on every step. Non-trivial = some delivered batch reached the reorganisation branch (parent known, not the tip); distinct = distinct case JSON",
        "assumptions": NETSIM_ASSUME + [
            "a batch running past the next header checkpoint may be adopted only up to the checkpoint (the client re-requests the rest): both outcomes are accepted",
            "ADOPT of a heavier fork is asserted only when IsCurrent() held before the message (the sender is then certainly listened to)",
        ],
        "units": [
            {"name": "netsim", "module": "harness", "pkg": "./checks/c02", "test": "TestC02", "tags": "verif",
             "quick": {"checks": 40, "shards": 16, "timeout": 600},
             "thorough": {"checks": 500, "shards": 16, "timeout": 3600, "shrink": "60s"}},
        ],
    },
    "C07": {
        "level": "exploration",
        "rule": "rapid-generated histories (1-40 operations: block / filter batch appends of any size incl. empty, single and multi-header rollbacks incl. to and past genesis, block-manager style two-store rollbacks, re-append of rolled-back headers, reopen, appends whose index commit is made to fail) applied to the real stores and to two in-memory lists; after every operation every read method of both stores is compared with the lists. Non-trivial = the history contains a rollback followed by an append, or a reopen after a mutation, or an injected write fault; distinct = distinct case JSON",
        "assumptions": [
            "appends respect the documented precondition (heights continue the tip; filter headers never beyond the block tip); block headers below the filter tip are only rolled back after the filter headers (as the block manager does)",
            "database write errors are injected by a walletdb wrapper that rolls the transaction back; file-level write errors are not injected by this unit",
            "locators are checked structurally (start hash, strictly descending heights of hashes of the list, dense for ten steps, ending at genesis), not against one particular thinning schedule",
        ],
        "units": [
            {"name": "store", "module": "harness", "pkg": "./checks/hdrstore", "test": "TestC07", "tags": "verif",
             "quick": {"checks": 60, "shards": 16, "timeout": 600},
             "thorough": {"checks": 1200, "shards": 16, "timeout": 3600, "shrink": "60s"}},
        ],
    },
    "C08": {
        "level": "fault_enumeration",
        "rule": "rapid-generated store histories (1-10 operations) run on a database wrapper whose hooks copy the three durable files right before and right after EVERY index commit of every primitive store call (this observes the actual order of file and index mutations), plus, for every file growth seen at a pre-commit point, synthesized torn lengths (1 byte, mid-entry, k whole entries, k entries plus part, all but one byte). Every crash image is restarted: both stores must open, equal the list model before or after the interrupted step, keep filter tip <= block tip, and accept and read back further appends. evaluations = histories; counters.crash_images = images restarted. Non-trivial = history with at least one crash point strictly inside an operation; distinct = distinct case JSON",
        "assumptions": [
            "crash model = process death: writes reach the page cache in program order; power loss / fsync reordering is out of scope",
            "bbolt commits are atomic",
        ],
        "units": [
            {"name": "store", "module": "harness", "pkg": "./checks/hdrstore", "test": "TestC08", "tags": "verif",
             "quick": {"checks": 8, "shards": 16, "timeout": 900},
             "thorough": {"checks": 120, "shards": 16, "timeout": 5400, "shrink": "120s"}},
        ],
    },
    "C19": {
        "level": "exploration",
        "rule": "rapid-generated peer scripts (fork-biased: header batches, view changes / reorganisations of any depth, partial filter-header progress, disconnects, clock advances) with a subscriber registered before any peer session exists, on a database wrapper that stamps every filter-header index commit with a global sequence number and the tip it installs; plus generated backlog requests at quiescent moments and in the middle of a batch being announced. Oracles at every quiescence: (1) replaying all received events reproduces the committed chain up to the filter tip, (2) per-event content / ordering, (3) every connected event is received after a commit covering its block, (4) backlog == committed blocks above the requested height; mid-flight backlog + later events replay without gap. Non-trivial = a reorganisation that crosses the filter tip, or a backlog request strictly inside (0, filter tip), or an evaluated mid-flight backlog request; distinct = distinct case JSON",
        "assumptions": NETSIM_ASSUME + [
            "rule (3) is an external-observer check: an emit-before-commit defect is detected only if the subscriber wins the race against the commit for at least one event of a batch",
            "mid-flight backlog probes are evaluated only when no disconnect was in flight (otherwise the subscriber's starting point is ambiguous)",
            "the harness reads the filter-header tip key inside the committing transaction (bucket header-index, key regular): a layout change is reported as a harness error, not a violation",
        ],
        "units": [
            {"name": "netsim", "module": "harness", "pkg": "./checks/c19", "test": "TestC19", "tags": "verif",
             "quick": {"checks": 40, "shards": 16, "timeout": 600},
             "thorough": {"checks": 500, "shards": 16, "timeout": 3600, "shrink": "60s"}},
        ],
    },
    "C13": {
        "level": "exploration",
        "rule": "(store) rapid-generated state-machine histories on the real ban store over bbolt in a synctest bubble: ban / unban / status / census / clock advance (incl. jumps to just before and after an expiry) / reopen / junk input over 12 textual spellings per address family and symbolic masks, compared with a map model keyed by the canonical (ip, mask); the two bbolt indexes are read back at the end. Non-trivial = a generated status query saw one network both strictly before floor(expiry) and at/after expiry of the same ban, or queried a banned network after a reopen that followed its ban; distinct = distinct case JSON",
        "assumptions": [
            "expiry is stored with one-second granularity: inside [floor(expiry), expiry) either answer is accepted",
            "an IPv4 network written with a 16-byte mask is not generated (API-level representation, not a textual form of an address; production callers pass a nil mask)",
            "a shorter re-ban while a longer one is in force: both last-write-wins and keeping the older record are accepted",
        ],
        "units": [
            {"name": "banstore", "module": "harness", "pkg": "./checks/c13", "test": "TestC13Store", "tags": "verif",
             "quick": {"checks": 1500, "shards": 16, "timeout": 600},
             "thorough": {"checks": 30000, "shards": 16, "timeout": 3600, "shrink": "60s"}},
        ],
    },
    "C12": {
        "level": "exploration",
        "rule": "rapid-generated schedules (0-5 mock peers with connect / disconnect / reconnect ticks; 1-4 overlapping batches of 1-6 requests with per-attempt outcomes answer / progress / silence / disconnect, retry caps, NoRetryMax, hard and idle timeouts, cancel channels, callers that never read, early Stop, probe batches) run against the real work manager, workers and peer ranking in a synctest bubble; a history oracle checks exactly-one verdict per batch, nil only if every handler finished, every error justified by an event of the history, re-issue of unanswered requests while a peer is idle, ranking preference, Stop and later batches never blocked. Non-trivial = a request is queued to a peer a second time after a failed attempt AND two scripted batches are without verdict at the same quiescent instant; distinct = distinct case JSON",
        "assumptions": [
            "all times are multiples of a 500 ms tick; same-instant orderings are all accepted",
            "an address reconnecting in the very instant its previous session disconnects is not generated (the client redials after >= 5 s); in that schedule the dispatcher can wedge or dereference nil (recorded in DESIGN.md as an observation outside the generated domain)",
            "hard timeout and external cancel are enforced lazily as documented (checked when a result of that batch arrives)",
        ],
        "units": [
            {"name": "query", "module": "harness", "pkg": "./checks/c12", "test": "TestC12", "tags": "verif",
             "quick": {"checks": 1500, "shards": 16, "timeout": 600},
             "thorough": {"checks": 40000, "shards": 16, "timeout": 3600, "shrink": "60s"}},
        ],
    },
}
